"""Further Gen-module generators (one function per module, registered with @translate.register)."""
import re
import translate
from translate import src, array_init, lean_list, strip_c_comments, c_int, TranslateError, HEADER
