"""Further Gen-module generators (one function per module, registered with @translate.register)."""
import re
import translate
from translate import src, array_init, lean_list, strip_c_comments, c_int, TranslateError, HEADER


# ------------------------------------------------------------------ single-byte code pages
BYTE_TABLE_FILES = [("Win1252", "util/XMLWin1252Transcoder.cpp"), ("Ebcdic037", "util/XMLEBCDICTranscoder.cpp"),
                    ("Ibm1047", "util/XMLIBM1047Transcoder.cpp"), ("Ibm1140", "util/XMLIBM1140Transcoder.cpp")]

def _to_table(text, rel):
    t = strip_c_comments(text)
    m = re.search(r"\bgToTable\s*\[\s*\]\s*=\s*\{", t)
    if not m:
        raise TranslateError("gToTable not found in " + rel)
    i = m.end(); depth = 1; j = i
    while depth and j < len(t):
        if t[j] == "{": depth += 1
        elif t[j] == "}": depth -= 1
        j += 1
    body = t[i:j-1]
    recs = re.findall(r"\{\s*([^,{}]+)\s*,\s*([^,{}]+)\s*\}", body)
    if not recs:
        raise TranslateError("no records in gToTable of " + rel)
    leftover = re.sub(r"\{\s*[^,{}]+\s*,\s*[^,{}]+\s*\}", "", body).replace(",", "").strip()
    if leftover:
        raise TranslateError("unparsed text in gToTable of %s: %r" % (rel, leftover[:40]))
    m2 = re.search(r"\bgToTableSz\s*=\s*([^;]+);", t)
    if not m2:
        raise TranslateError("gToTableSz not found in " + rel)
    sz = m2.group(1).strip()
    declared = len(recs) if "sizeof" in sz else c_int(sz)
    return [(c_int(a), c_int(b)) for a, b in recs], declared

@translate.register("ByteTables")
def gen_byte_tables():
    out = HEADER + "namespace XV.Gen.ByteTables\n\n"
    out += "structure Table where\n  name : String\n  fromTable : List Nat\n  toTable : List (Nat × Nat)\n  declaredToSize : Nat\n\n"
    names = []
    for nm, rel in BYTE_TABLE_FILES:
        text = src(rel)
        fr = array_init(text, "gFromTable", rel)
        if len(fr) != 256:
            raise TranslateError("%s gFromTable has %d entries" % (rel, len(fr)))
        to, declared = _to_table(text, rel)
        out += lean_list("from" + nm, fr)
        out += "def to%s : List (Nat × Nat) := [\n" % nm
        out += ",\n".join("  " + ", ".join("(%d, %d)" % p for p in to[k:k+8]) for k in range(0, len(to), 8)) + "]\n"
        out += "def tbl%s : Table := ⟨\"%s\", from%s, to%s, %d⟩\n\n" % (nm, nm, nm, nm, declared)
        names.append("tbl" + nm)
    out += "def all : List Table := [%s]\n\nend XV.Gen.ByteTables\n" % ", ".join(names)
    return out
