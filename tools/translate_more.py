"""Further Gen-module generators (one function per module, registered with @translate.register)."""
import re
import translate
from translate import src, array_init, lean_list, strip_c_comments, c_int, TranslateError, HEADER


# ------------------------------------------------------------------ single-byte code pages
BYTE_TABLE_FILES = [("Win1252", "util/XMLWin1252Transcoder.cpp"), ("Ebcdic037", "util/XMLEBCDICTranscoder.cpp"),
                    ("Ibm1047", "util/XMLIBM1047Transcoder.cpp"), ("Ibm1140", "util/XMLIBM1140Transcoder.cpp")]

def _to_table(text, rel):
    t = strip_c_comments(text)
    m = re.search(r"\bgToTable\s*\[\s*\]\s*=\s*\{", t)
    if not m:
        raise TranslateError("gToTable not found in " + rel)
    i = m.end(); depth = 1; j = i
    while depth and j < len(t):
        if t[j] == "{": depth += 1
        elif t[j] == "}": depth -= 1
        j += 1
    body = t[i:j-1]
    recs = re.findall(r"\{\s*([^,{}]+)\s*,\s*([^,{}]+)\s*\}", body)
    if not recs:
        raise TranslateError("no records in gToTable of " + rel)
    leftover = re.sub(r"\{\s*[^,{}]+\s*,\s*[^,{}]+\s*\}", "", body).replace(",", "").strip()
    if leftover:
        raise TranslateError("unparsed text in gToTable of %s: %r" % (rel, leftover[:40]))
    m2 = re.search(r"\bgToTableSz\s*=\s*([^;]+);", t)
    if not m2:
        raise TranslateError("gToTableSz not found in " + rel)
    sz = m2.group(1).strip()
    declared = len(recs) if "sizeof" in sz else c_int(sz)
    return [(c_int(a), c_int(b)) for a, b in recs], declared

@translate.register("ByteTables")
def gen_byte_tables():
    out = HEADER + "namespace XV.Gen.ByteTables\n\n"
    out += "structure Table where\n  name : String\n  fromTable : List Nat\n  toTable : List (Nat × Nat)\n  declaredToSize : Nat\n\n"
    names = []
    for nm, rel in BYTE_TABLE_FILES:
        text = src(rel)
        fr = array_init(text, "gFromTable", rel)
        if len(fr) != 256:
            raise TranslateError("%s gFromTable has %d entries" % (rel, len(fr)))
        to, declared = _to_table(text, rel)
        out += lean_list("from" + nm, fr)
        out += "def to%s : List (Nat × Nat) := [\n" % nm
        out += ",\n".join("  " + ", ".join("(%d, %d)" % p for p in to[k:k+8]) for k in range(0, len(to), 8)) + "]\n"
        out += "def tbl%s : Table := ⟨\"%s\", from%s, to%s, %d⟩\n\n" % (nm, nm, nm, nm, declared)
        names.append("tbl" + nm)
    out += "def all : List Table := [%s]\n\nend XV.Gen.ByteTables\n" % ", ".join(names)
    return out


# ------------------------------------------------------------------ encoding recogniser prefixes
@translate.register("Recognizer")
def gen_recognizer():
    rel = "framework/XMLRecognizer.cpp"
    t = re.sub(r"\(\s*char\s*\)", "", src(rel))
    out = HEADER + "namespace XV.Gen.Recognizer\n\n"
    for nm, ln in (("fgASCIIPre", "fgASCIIPreLen"), ("fgEBCDICPre", "fgEBCDICPreLen"), ("fgUTF16BPre", "fgUTF16PreLen"),
                   ("fgUTF16LPre", "fgUTF16PreLen"), ("fgUCS4BPre", "fgUCS4PreLen"), ("fgUCS4LPre", "fgUCS4PreLen"),
                   ("fgUTF8BOM", "fgUTF8BOMLen")):
        v = array_init(t, nm, rel)
        m = re.search(r"\b%s\s*=\s*(\d+)\s*;" % ln, strip_c_comments(t))
        if not m:
            raise TranslateError("%s not found in %s" % (ln, rel))
        if int(m.group(1)) != len(v):
            raise TranslateError("%s = %s but %s has %d bytes" % (ln, m.group(1), nm, len(v)))
        out += lean_list(nm, v) + "\n"
    h = strip_c_comments(src("framework/XMLRecognizer.hpp"))
    m = re.search(r"enum\s+Encodings\s*\{(.*?)\}", h, re.S)
    if not m:
        raise TranslateError("enum Encodings not found")
    names = []
    for part in m.group(1).split(","):
        part = part.strip()
        mm = re.match(r"(\w+)\s*=\s*(\d+)$", part)
        if mm:
            names.append((mm.group(1), int(mm.group(2))))
    want = ["EBCDIC", "UCS_4B", "UCS_4L", "US_ASCII", "UTF_8", "UTF_16B", "UTF_16L", "XERCES_XMLCH"]
    got = [n for n, v in names if n in want]
    if got != want or [v for n, v in names if n in want] != list(range(8)):
        raise TranslateError("enum Encodings changed: %r" % names)
    out += "end XV.Gen.Recognizer\n"
    return out



# ------------------------------------------------------------------ C06: ElemStack capacities, reserved names
def _char_symbols():
    t = strip_c_comments(src("util/XMLUniDefs.hpp"))
    syms = {}
    for m in re.finditer(r"const\s+XMLCh\s+(ch\w+)\s*=\s*(0[xX][0-9a-fA-F]+|\d+)\s*;", t):
        syms[m.group(1)] = int(m.group(2), 0)
    if len(syms) < 100:
        raise TranslateError("XMLUniDefs.hpp: character constants not found")
    return syms

def _ctor_init(text, cls, field, rel):
    """the literal in the member initialiser `field(<int>)` of the constructor cls::cls"""
    m = re.search(r"\b%s::%s\s*\(" % (cls, cls), text)
    if not m:
        raise TranslateError("constructor %s::%s not found in %s" % (cls, cls, rel))
    body_start = text.find("{", m.end())
    init = text[m.end():body_start]
    k = re.search(r"\b%s\s*\(\s*(\d+)\s*\)" % re.escape(field), init)
    if not k:
        raise TranslateError("%s::%s: initialiser %s(<n>) not found in %s" % (cls, cls, field, rel))
    return int(k.group(1))

def _func_body(text, qual, rel):
    m = re.search(r"\b%s\s*\([^)]*\)\s*(?:const\s*)?\{" % re.escape(qual), text)
    if not m:
        raise TranslateError("function %s not found in %s" % (qual, rel))
    i = m.end(); depth = 1; j = i
    while depth and j < len(text):
        if text[j] == "{": depth += 1
        elif text[j] == "}": depth -= 1
        j += 1
    return text[i:j - 1]

def _decimal_ratio(tok, what):
    m = re.fullmatch(r"(\d+)\.(\d+)", tok)
    if not m:
        raise TranslateError("%s: growth factor %r is not a decimal literal" % (what, tok))
    den = 10 ** len(m.group(2))
    return int(m.group(1)) * den + int(m.group(2)), den

def _growth(body, var, what, with_init):
    """`(XMLSize_t)(<var> * F)` and, if with_init, `<var> ? ... : N`"""
    m = re.search(r"\(\s*XMLSize_t\s*\)\s*\(\s*%s\s*\*\s*([0-9.]+)\s*\)" % re.escape(var), body)
    if not m:
        raise TranslateError("%s: growth expression (XMLSize_t)(%s * F) not found" % (what, var))
    num, den = _decimal_ratio(m.group(1), what)
    init = None
    if with_init:
        k = re.search(r"%s\s*\?\s*\(\s*XMLSize_t\s*\)\s*\(\s*%s\s*\*\s*[0-9.]+\s*\)\s*:\s*(\d+)\s*;" % (re.escape(var), re.escape(var)), body)
        if not k:
            raise TranslateError("%s: initial capacity `%s ? ... : N` not found" % (what, var))
        init = int(k.group(1))
    return num, den, init

@translate.register("ElemStackConsts")
def gen_elemstack_consts():
    rel = "internal/ElemStack.cpp"
    t = strip_c_comments(src(rel))
    out = HEADER + "namespace XV.Gen.ElemStackConsts\n\n"
    # ElemStack
    out += "def esStackInitCap : Nat := %d\n" % _ctor_init(t, "ElemStack", "fStackCapacity", rel)
    n, d, i = _growth(_func_body(t, "ElemStack::expandMap", rel), "oldCap", "ElemStack::expandMap", True)
    out += "def esMapInitCap : Nat := %d\ndef esMapGrowNum : Nat := %d\ndef esMapGrowDen : Nat := %d\n" % (i, n, d)
    n, d, _ = _growth(_func_body(t, "ElemStack::expandStack", rel), "fStackCapacity", "ElemStack::expandStack", False)
    out += "def esStackGrowNum : Nat := %d\ndef esStackGrowDen : Nat := %d\n" % (n, d)
    # WFElemStack
    out += "def wfStackInitCap : Nat := %d\n" % _ctor_init(t, "WFElemStack", "fStackCapacity", rel)
    out += "def wfMapInitCapCtor : Nat := %d\n" % _ctor_init(t, "WFElemStack", "fMapCapacity", rel)
    n, d, i = _growth(_func_body(t, "WFElemStack::expandMap", rel), "fMapCapacity", "WFElemStack::expandMap", True)
    out += "def wfMapInitCap : Nat := %d\ndef wfMapGrowNum : Nat := %d\ndef wfMapGrowDen : Nat := %d\n" % (i, n, d)
    n, d, _ = _growth(_func_body(t, "WFElemStack::expandStack", rel), "fStackCapacity", "WFElemStack::expandStack", False)
    out += "def wfStackGrowNum : Nat := %d\ndef wfStackGrowDen : Nat := %d\n" % (n, d)
    # string pool ids start at 1 (XMLStringPool constructor: fCurId(1)); 0 = "not in the pool"
    sp = strip_c_comments(src("util/StringPool.cpp"))
    ids = set(re.findall(r"\bfCurId\s*\(\s*(\d+)\s*\)", sp))
    if ids != {"1"}:
        raise TranslateError("util/StringPool.cpp: constructors no longer initialise fCurId(1): %s" % sorted(ids))
    out += "def poolFirstId : Nat := 1\n"
    # hash-table duplicate check threshold (XMLScanner::setAttrDupChkRegistry)
    xs = strip_c_comments(src("internal/XMLScanner.hpp"))
    m = re.search(r"setAttrDupChkRegistry\s*\([^)]*\)\s*\{\s*if\s*\(\s*attrNumber\s*>\s*(\d+)\s*\)", xs)
    if not m:
        raise TranslateError("internal/XMLScanner.hpp: setAttrDupChkRegistry threshold not found")
    out += "def attrDupHashThreshold : Nat := %d\n\n" % int(m.group(1))
    # reserved names (XMLUni.cpp), as UTF-16 code unit lists without the terminator
    syms = _char_symbols()
    u = src("util/XMLUni.cpp")
    for nm in ("fgXMLString", "fgXMLNSString", "fgXMLNSColonString", "fgXMLURIName", "fgXMLNSURIName", "fgUnknownURIName"):
        v = array_init(u, "XMLUni::" + nm, "util/XMLUni.cpp", symbols=syms)
        if not v or v[-1] != 0 or 0 in v[:-1]:
            raise TranslateError("XMLUni::%s is not a zero-terminated string" % nm)
        out += lean_list(nm, v[:-1]) + "\n"
    out += "end XV.Gen.ElemStackConsts\n"
    return out
