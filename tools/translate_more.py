"""Further Gen-module generators (one function per module, registered with @translate.register)."""
import re
import translate
from translate import src, array_init, lean_list, strip_c_comments, c_int, TranslateError, HEADER


# ------------------------------------------------------------------ single-byte code pages
BYTE_TABLE_FILES = [("Win1252", "util/XMLWin1252Transcoder.cpp"), ("Ebcdic037", "util/XMLEBCDICTranscoder.cpp"),
                    ("Ibm1047", "util/XMLIBM1047Transcoder.cpp"), ("Ibm1140", "util/XMLIBM1140Transcoder.cpp")]

def _to_table(text, rel):
    t = strip_c_comments(text)
    m = re.search(r"\bgToTable\s*\[\s*\]\s*=\s*\{", t)
    if not m:
        raise TranslateError("gToTable not found in " + rel)
    i = m.end(); depth = 1; j = i
    while depth and j < len(t):
        if t[j] == "{": depth += 1
        elif t[j] == "}": depth -= 1
        j += 1
    body = t[i:j-1]
    recs = re.findall(r"\{\s*([^,{}]+)\s*,\s*([^,{}]+)\s*\}", body)
    if not recs:
        raise TranslateError("no records in gToTable of " + rel)
    leftover = re.sub(r"\{\s*[^,{}]+\s*,\s*[^,{}]+\s*\}", "", body).replace(",", "").strip()
    if leftover:
        raise TranslateError("unparsed text in gToTable of %s: %r" % (rel, leftover[:40]))
    m2 = re.search(r"\bgToTableSz\s*=\s*([^;]+);", t)
    if not m2:
        raise TranslateError("gToTableSz not found in " + rel)
    sz = m2.group(1).strip()
    declared = len(recs) if "sizeof" in sz else c_int(sz)
    return [(c_int(a), c_int(b)) for a, b in recs], declared

@translate.register("ByteTables")
def gen_byte_tables():
    out = HEADER + "namespace XV.Gen.ByteTables\n\n"
    out += "structure Table where\n  name : String\n  fromTable : List Nat\n  toTable : List (Nat × Nat)\n  declaredToSize : Nat\n\n"
    names = []
    for nm, rel in BYTE_TABLE_FILES:
        text = src(rel)
        fr = array_init(text, "gFromTable", rel)
        if len(fr) != 256:
            raise TranslateError("%s gFromTable has %d entries" % (rel, len(fr)))
        to, declared = _to_table(text, rel)
        out += lean_list("from" + nm, fr)
        out += "def to%s : List (Nat × Nat) := [\n" % nm
        out += ",\n".join("  " + ", ".join("(%d, %d)" % p for p in to[k:k+8]) for k in range(0, len(to), 8)) + "]\n"
        out += "def tbl%s : Table := ⟨\"%s\", from%s, to%s, %d⟩\n\n" % (nm, nm, nm, nm, declared)
        names.append("tbl" + nm)
    out += "def all : List Table := [%s]\n\nend XV.Gen.ByteTables\n" % ", ".join(names)
    return out


# ------------------------------------------------------------------ encoding recogniser prefixes
@translate.register("Recognizer")
def gen_recognizer():
    rel = "framework/XMLRecognizer.cpp"
    t = re.sub(r"\(\s*char\s*\)", "", src(rel))
    out = HEADER + "namespace XV.Gen.Recognizer\n\n"
    for nm, ln in (("fgASCIIPre", "fgASCIIPreLen"), ("fgEBCDICPre", "fgEBCDICPreLen"), ("fgUTF16BPre", "fgUTF16PreLen"),
                   ("fgUTF16LPre", "fgUTF16PreLen"), ("fgUCS4BPre", "fgUCS4PreLen"), ("fgUCS4LPre", "fgUCS4PreLen"),
                   ("fgUTF8BOM", "fgUTF8BOMLen")):
        v = array_init(t, nm, rel)
        m = re.search(r"\b%s\s*=\s*(\d+)\s*;" % ln, strip_c_comments(t))
        if not m:
            raise TranslateError("%s not found in %s" % (ln, rel))
        if int(m.group(1)) != len(v):
            raise TranslateError("%s = %s but %s has %d bytes" % (ln, m.group(1), nm, len(v)))
        out += lean_list(nm, v) + "\n"
    h = strip_c_comments(src("framework/XMLRecognizer.hpp"))
    m = re.search(r"enum\s+Encodings\s*\{(.*?)\}", h, re.S)
    if not m:
        raise TranslateError("enum Encodings not found")
    names = []
    for part in m.group(1).split(","):
        part = part.strip()
        mm = re.match(r"(\w+)\s*=\s*(\d+)$", part)
        if mm:
            names.append((mm.group(1), int(mm.group(2))))
    want = ["EBCDIC", "UCS_4B", "UCS_4L", "US_ASCII", "UTF_8", "UTF_16B", "UTF_16L", "XERCES_XMLCH"]
    got = [n for n, v in names if n in want]
    if got != want or [v for n, v in names if n in want] != list(range(8)):
        raise TranslateError("enum Encodings changed: %r" % names)
    out += "end XV.Gen.Recognizer\n"
    return out



# ------------------------------------------------------------------ C06: ElemStack capacities, reserved names
def _char_symbols():
    t = strip_c_comments(src("util/XMLUniDefs.hpp"))
    syms = {}
    for m in re.finditer(r"const\s+XMLCh\s+(ch\w+)\s*=\s*(0[xX][0-9a-fA-F]+|\d+)\s*;", t):
        syms[m.group(1)] = int(m.group(2), 0)
    if len(syms) < 100:
        raise TranslateError("XMLUniDefs.hpp: character constants not found")
    return syms

def _ctor_init(text, cls, field, rel):
    """the literal in the member initialiser `field(<int>)` of the constructor cls::cls"""
    m = re.search(r"\b%s::%s\s*\(" % (cls, cls), text)
    if not m:
        raise TranslateError("constructor %s::%s not found in %s" % (cls, cls, rel))
    body_start = text.find("{", m.end())
    init = text[m.end():body_start]
    k = re.search(r"\b%s\s*\(\s*(\d+)\s*\)" % re.escape(field), init)
    if not k:
        raise TranslateError("%s::%s: initialiser %s(<n>) not found in %s" % (cls, cls, field, rel))
    return int(k.group(1))

def _func_body_head(text, qual, rel):
    m = re.search(r"\b%s\s*\([^)]*\)\s*(?:const\s*)?\{" % re.escape(qual), text)
    if not m:
        raise TranslateError("function %s not found in %s" % (qual, rel))
    i = m.end(); depth = 1; j = i
    while depth and j < len(text):
        if text[j] == "{": depth += 1
        elif text[j] == "}": depth -= 1
        j += 1
    return text[i:j - 1]

def _decimal_ratio(tok, what):
    m = re.fullmatch(r"(\d+)\.(\d+)", tok)
    if not m:
        raise TranslateError("%s: growth factor %r is not a decimal literal" % (what, tok))
    den = 10 ** len(m.group(2))
    return int(m.group(1)) * den + int(m.group(2)), den

def _growth(body, var, what, with_init):
    """`(XMLSize_t)(<var> * F)` and, if with_init, `<var> ? ... : N`"""
    m = re.search(r"\(\s*XMLSize_t\s*\)\s*\(\s*%s\s*\*\s*([0-9.]+)\s*\)" % re.escape(var), body)
    if not m:
        raise TranslateError("%s: growth expression (XMLSize_t)(%s * F) not found" % (what, var))
    num, den = _decimal_ratio(m.group(1), what)
    init = None
    if with_init:
        k = re.search(r"%s\s*\?\s*\(\s*XMLSize_t\s*\)\s*\(\s*%s\s*\*\s*[0-9.]+\s*\)\s*:\s*(\d+)\s*;" % (re.escape(var), re.escape(var)), body)
        if not k:
            raise TranslateError("%s: initial capacity `%s ? ... : N` not found" % (what, var))
        init = int(k.group(1))
    return num, den, init

@translate.register("ElemStackConsts")
def gen_elemstack_consts():
    rel = "internal/ElemStack.cpp"
    t = strip_c_comments(src(rel))
    out = HEADER + "namespace XV.Gen.ElemStackConsts\n\n"
    # ElemStack
    out += "def esStackInitCap : Nat := %d\n" % _ctor_init(t, "ElemStack", "fStackCapacity", rel)
    n, d, i = _growth(_func_body_head(t, "ElemStack::expandMap", rel), "oldCap", "ElemStack::expandMap", True)
    out += "def esMapInitCap : Nat := %d\ndef esMapGrowNum : Nat := %d\ndef esMapGrowDen : Nat := %d\n" % (i, n, d)
    n, d, _ = _growth(_func_body_head(t, "ElemStack::expandStack", rel), "fStackCapacity", "ElemStack::expandStack", False)
    out += "def esStackGrowNum : Nat := %d\ndef esStackGrowDen : Nat := %d\n" % (n, d)
    # WFElemStack
    out += "def wfStackInitCap : Nat := %d\n" % _ctor_init(t, "WFElemStack", "fStackCapacity", rel)
    out += "def wfMapInitCapCtor : Nat := %d\n" % _ctor_init(t, "WFElemStack", "fMapCapacity", rel)
    n, d, i = _growth(_func_body_head(t, "WFElemStack::expandMap", rel), "fMapCapacity", "WFElemStack::expandMap", True)
    out += "def wfMapInitCap : Nat := %d\ndef wfMapGrowNum : Nat := %d\ndef wfMapGrowDen : Nat := %d\n" % (i, n, d)
    n, d, _ = _growth(_func_body_head(t, "WFElemStack::expandStack", rel), "fStackCapacity", "WFElemStack::expandStack", False)
    out += "def wfStackGrowNum : Nat := %d\ndef wfStackGrowDen : Nat := %d\n" % (n, d)
    # string pool ids start at 1 (XMLStringPool constructor: fCurId(1)); 0 = "not in the pool"
    sp = strip_c_comments(src("util/StringPool.cpp"))
    ids = set(re.findall(r"\bfCurId\s*\(\s*(\d+)\s*\)", sp))
    if ids != {"1"}:
        raise TranslateError("util/StringPool.cpp: constructors no longer initialise fCurId(1): %s" % sorted(ids))
    out += "def poolFirstId : Nat := 1\n"
    # hash-table duplicate check threshold (XMLScanner::setAttrDupChkRegistry)
    xs = strip_c_comments(src("internal/XMLScanner.hpp"))
    m = re.search(r"setAttrDupChkRegistry\s*\([^)]*\)\s*\{\s*if\s*\(\s*attrNumber\s*>\s*(\d+)\s*\)", xs)
    if not m:
        raise TranslateError("internal/XMLScanner.hpp: setAttrDupChkRegistry threshold not found")
    out += "def attrDupHashThreshold : Nat := %d\n\n" % int(m.group(1))
    # reserved names (XMLUni.cpp), as UTF-16 code unit lists without the terminator
    syms = _char_symbols()
    u = src("util/XMLUni.cpp")
    for nm in ("fgXMLString", "fgXMLNSString", "fgXMLNSColonString", "fgXMLURIName", "fgXMLNSURIName", "fgUnknownURIName"):
        v = array_init(u, "XMLUni::" + nm, "util/XMLUni.cpp", symbols=syms)
        if not v or v[-1] != 0 or 0 in v[:-1]:
            raise TranslateError("XMLUni::%s is not a zero-terminated string" % nm)
        out += lean_list(nm, v[:-1]) + "\n"
    out += "end XV.Gen.ElemStackConsts\n"
    return out


# ---- C09 (builder) ----


# ------------------------------------------------------------------ C09: codec tables (HexBin, Base64)
def unidefs():
    """name -> value of every `const XMLCh chXxx = 0x..;` in util/XMLUniDefs.hpp"""
    t = strip_c_comments(src("util/XMLUniDefs.hpp"))
    syms = {}
    for m in re.finditer(r"const\s+XMLCh\s+(ch\w+)\s*=\s*(0x[0-9A-Fa-f]+|\d+)\s*;", t):
        syms[m.group(1)] = int(m.group(2), 0)
    if len(syms) < 100:
        raise TranslateError("XMLUniDefs.hpp: only %d ch* constants found" % len(syms))
    return syms


def static_int(text, name, rel):
    t = strip_c_comments(text)
    m = re.search(r"\b%s\s*=\s*([^;]+);" % re.escape(name), t)
    if not m:
        raise TranslateError("constant %s not found in %s" % (name, rel))
    return m.group(1).strip()


@translate.register("Codec")
def gen_codec():
    syms = unidefs()
    out = HEADER + "namespace XV.Gen.Codec\n\n"
    # --- HexBin.cpp: static table, static initialiser
    rel = "util/HexBin.cpp"
    t = src(rel)
    base_h = c_int(static_int(t, "BASELENGTH", rel))
    hexnum = array_init(t, "hexNumberTable", rel, syms)
    if len(hexnum) != base_h:
        raise TranslateError("hexNumberTable: %d entries, BASELENGTH %d" % (len(hexnum), base_h))
    out += "def hexBaseLength : Nat := %d\n" % base_h
    out += lean_list("hexNumberTable", hexnum) + "\n"
    # the code that uses the table: shapes the model depends on
    tt = strip_c_comments(t)
    for pat, what in ((r"strLen\s*%\s*2\s*!=\s*0", "odd length test"),
                      (r"octet\s*>=\s*BASELENGTH", "isHex bound check"),
                      (r"\(\s*temp1\s*<<\s*4\s*\)\s*\|\s*temp2", "nibble composition"),
                      (r"upperCaseASCII", "canonical form = upper case")):
        if not re.search(pat, tt):
            raise TranslateError("HexBin.cpp: %s no longer present (%s)" % (what, pat))
    # --- Base64.cpp
    rel = "util/Base64.cpp"
    t = src(rel)
    tt = strip_c_comments(t)
    base_b = c_int(static_int(t, "BASELENGTH", rel))
    four = c_int(static_int(t, "FOURBYTE", rel))
    alpha = array_init(t, "base64Alphabet", rel, syms)
    inv = array_init(t, "base64Inverse", rel, syms)
    if len(inv) != base_b:
        raise TranslateError("base64Inverse: %d entries, BASELENGTH %d" % (len(inv), base_b))
    pad = static_int(t, "Base64::base64Padding", rel)
    if pad not in syms:
        raise TranslateError("base64Padding initialiser %r is not a ch* constant" % pad)
    quads = c_int(static_int(t, "Base64::quadsPerLine", rel))
    out += "def b64BaseLength : Nat := %d\n" % base_b
    out += "def fourByte : Nat := %d\n" % four
    out += lean_list("base64Alphabet", alpha) + "\n"
    out += lean_list("base64Inverse", inv) + "\n"
    out += "def base64Padding : Nat := %d\n" % syms[pad]
    out += "def quadsPerLine : Nat := %d\n" % quads
    out += "def chLF : Nat := %d\n" % syms["chLF"]
    out += "def chSpace : Nat := %d\n\n" % syms["chSpace"]
    # inline helpers from Base64.hpp: the shifts and masks
    h = strip_c_comments(src("util/Base64.hpp"))
    def grab(rx, what):
        m = re.search(rx, h, flags=re.S)
        if not m:
            raise TranslateError("Base64.hpp: %s not recognised" % what)
        return [c_int(g) for g in m.groups()]
    s1 = grab(r"set1stOctet\([^)]*\)\s*\{\s*return\s*\(\(\s*b1\s*<<\s*(\d+)\s*\)\s*\|\s*\(\s*b2\s*>>\s*(\d+)\s*\)\)", "set1stOctet")
    s2 = grab(r"set2ndOctet\([^)]*\)\s*\{\s*return\s*\(\(\s*b2\s*<<\s*(\d+)\s*\)\s*\|\s*\(\s*b3\s*>>\s*(\d+)\s*\)\)", "set2ndOctet")
    s3 = grab(r"set3rdOctet\([^)]*\)\s*\{\s*return\s*\(\(\s*b3\s*<<\s*(\d+)\s*\)\s*\|\s*b4\s*\)", "set3rdOctet")
    p1 = grab(r"split1stOctet\([^)]*\)\s*\{\s*b1\s*=\s*ch\s*>>\s*(\d+)\s*;\s*b2\s*=\s*\(\s*ch\s*&\s*(0x[0-9a-fA-F]+)\s*\)\s*<<\s*(\d+)\s*;", "split1stOctet")
    p2 = grab(r"split2ndOctet\([^)]*\)\s*\{\s*b2\s*\|=\s*ch\s*>>\s*(\d+)\s*;\s*b3\s*=\s*\(\s*ch\s*&\s*(0x[0-9a-fA-F]+)\s*\)\s*<<\s*(\d+)\s*;", "split2ndOctet")
    p3 = grab(r"split3rdOctet\([^)]*\)\s*\{\s*b3\s*\|=\s*ch\s*>>\s*(\d+)\s*;\s*b4\s*=\s*\(\s*ch\s*&\s*(0x[0-9a-fA-F]+)\s*\)\s*;", "split3rdOctet")
    out += lean_list("set1st", s1) + lean_list("set2nd", s2) + lean_list("set3rd", s3)
    out += lean_list("split1st", p1) + lean_list("split2nd", p2) + lean_list("split3rd", p3) + "\n"
    # final-quartet padding masks in decode()
    m1 = re.search(r"\(\s*b2\s*&\s*(0x[0-9a-fA-F]+)\s*\)\s*!=\s*0", tt)
    m2 = re.search(r"\(\s*b3\s*&\s*(0x[0-9a-fA-F]+)\s*\)\s*!=\s*0", tt)
    if not (m1 and m2):
        raise TranslateError("Base64::decode: padding-bit checks (b2 & 0xf, b3 & 0x3) no longer present")
    out += "def pad2Mask : Nat := %d\ndef pad1Mask : Nat := %d\n" % (c_int(m1.group(1)), c_int(m2.group(1)))
    for pat, what in ((r"rawInputLength\s*%\s*FOURBYTE\s*\)\s*!=\s*0", "length multiple of four"),
                      (r"chSpace\s*==\s*inputData\[inputIndex\]", "schema mode: no leading space"),
                      (r"if\s*\(\s*inWhiteSpace\s*\)\s*return\s+0", "schema mode: no double / trailing space"),
                      (r"isPad\(\s*d3\s*\)\s*&&\s*isPad\(\s*d4\s*\)", "two-pad branch"),
                      (r"!isPad\(\s*d3\s*\)\s*&&\s*isPad\(\s*d4\s*\)", "one-pad branch"),
                      (r"quad\s*%\s*quadsPerLine\s*\)\s*==\s*0", "line break every quadsPerLine quartets")):
        if not re.search(pat, tt):
            raise TranslateError("Base64.cpp: %s no longer present (%s)" % (what, pat))
    # boolean value space (XMLUni.cpp)
    u = src("util/XMLUni.cpp")
    m = re.search(r"fgBooleanValueSpace\s*\[\s*\]\s*\[\s*\d+\s*\]\s*=\s*\{(.*?)\}\s*;", strip_c_comments(u), flags=re.S)
    if not m:
        raise TranslateError("XMLUni.cpp: fgBooleanValueSpace not found")
    rows = re.findall(r"\{([^{}]*)\}", m.group(1))
    vals = []
    for r in rows:
        v = [syms[x.strip()] if x.strip() in syms else c_int(x) for x in r.split(",") if x.strip()]
        if not v or v[-1] != 0:
            raise TranslateError("fgBooleanValueSpace row not NUL-terminated: %r" % r)
        vals.append(v[:-1])
    out += "def booleanValueSpace : List (List Nat) := [%s]\n\n" % ", ".join("[" + ", ".join(map(str, v)) + "]" for v in vals)
    out += "end XV.Gen.Codec\n"
    return out


# ---- C10 (builder) ----
# ------------------------------------------------------------------ XMLValid codes (C10: identity-constraint error codes)
@translate.register("ValidityCodes")
def gen_validity_codes():
    rel = "framework/XMLValidityCodes.hpp"
    t = strip_c_comments(src(rel))
    m = re.search(r"class\s+XMLValid\b.*?enum\s+Codes\s*\{(.*?)\}\s*;", t, flags=re.S)
    if not m:
        raise TranslateError("enum XMLValid::Codes not found in %s" % rel)
    codes = []
    for ent in m.group(1).split(","):
        ent = ent.strip()
        if not ent:
            continue
        mm = re.fullmatch(r"(\w+)\s*=\s*(\w+)", ent)
        if not mm:
            raise TranslateError("%s: enumerator without explicit value: %r" % (rel, ent))
        codes.append((mm.group(1), c_int(mm.group(2))))
    names = dict(codes)
    need = ["E_LowBounds", "E_HighBounds", "W_LowBounds", "W_HighBounds", "F_LowBounds", "F_HighBounds",
            "IC_FieldMultipleMatch", "IC_UnknownField", "IC_AbsentKeyValue", "IC_KeyNotEnoughValues", "IC_KeyMatchesNillable",
            "IC_DuplicateUnique", "IC_DuplicateKey", "IC_KeyRefOutOfScope", "IC_KeyNotFound"]
    for n in need:
        if n not in names:
            raise TranslateError("%s: XMLValid::%s not found" % (rel, n))
    out = HEADER + "namespace XV.Gen.ValidityCodes\n\n"
    for n in need:
        out += "def %s : Nat := %d\n" % (n, names[n])
    out += "\n/-- every enumerator of XMLValid::Codes, in declaration order -/\n"
    out += "def codes : List (String × Nat) := [\n" + ",\n".join('  ("%s", %d)' % c for c in codes) + "]\n"
    out += "\n/-- the identity-constraint codes -/\ndef icCodes : List (String × Nat) := [\n" + \
           ",\n".join('  ("%s", %d)' % c for c in codes if c[0].startswith("IC_")) + "]\n"
    out += "\nend XV.Gen.ValidityCodes\n"
    return out


# ---- C17 (builder) ----
# ------------------------------------------------------------------ C17: lock sites and access markers
import os
import common

def _compiled_sources():
    """Source files (relative to src/xercesc) compiled into the library in THIS build configuration,
    read from the build tree's build.ninja (so e.g. only the ICU transcoder of the configured transcoders)."""
    bn = os.path.join(common.BUILD, "build.ninja")
    try:
        t = open(bn, encoding="latin-1").read()
    except OSError as e:
        raise TranslateError("cannot read %s: %s" % (bn, e))
    rels = set(re.findall(r"^build src/CMakeFiles/xerces-c\.dir/xercesc/(\S+?\.cpp)\.o:", t, flags=re.M))
    if len(rels) < 100:
        raise TranslateError("build.ninja lists only %d library sources" % len(rels))
    return sorted(rels)

_FN_RE = re.compile(r"^(?:[A-Za-z_][^;{}()=]*?[\s\*&])?((?:\w+::)+~?\w+)\s*\(")

def _norm_mutex(expr):
    e = expr.strip()
    e = re.sub(r"^&\s*", "", e)
    e = re.sub(r"const_cast<[^>]*>\(this\)->", "", e)
    e = re.sub(r"^this->", "", e)
    return e.strip()

def _split_args(s):
    out, cur, depth, q = [], "", 0, False
    for ch in s:
        if ch == '"': q = not q
        if not q:
            if ch == "(": depth += 1
            elif ch == ")": depth -= 1
            elif ch == "," and depth == 0:
                out.append(cur.strip()); cur = ""; continue
        cur += ch
    out.append(cur.strip())
    return out

def lock_sites_scan():
    sites, marks = [], []
    for rel in _compiled_sources():
        text = src(rel)
        if "XMLMutexLock" not in text and "XERCES_VERIF_" not in text:
            continue
        if rel.startswith("util/Mutexes"):
            continue
        fn, fn_line = "?", 0
        for no, raw in enumerate(text.split("\n"), 1):
            line = re.sub(r"//.*", "", raw)
            m = _FN_RE.match(line)
            if m and not line.lstrip().startswith(("return", "if", "else", "#")):
                fn, fn_line = m.group(1), no
            m = re.search(r"\bXMLMutexLock\s+\w+\s*\((.*)\)\s*;", line)
            if m:
                sites.append((rel, fn, fn_line, no, _norm_mutex(m.group(1)), m.group(1).strip()))
            m = re.search(r"\bXERCES_VERIF_(ACCESS|INIT_BEGIN|INIT_END)\s*\((.*)\)\s*;", line)
            if m:
                a = _split_args(m.group(2))
                kind = {"ACCESS": "access", "INIT_BEGIN": "initBegin", "INIT_END": "initEnd"}[m.group(1)]
                if len(a) < 3 or not (a[0].startswith('"') and a[0].endswith('"')):
                    raise TranslateError("%s:%d: cannot parse marker %r" % (rel, no, line.strip()))
                rw = 1
                if kind == "access":
                    if len(a) != 4:
                        raise TranslateError("%s:%d: XERCES_VERIF_ACCESS needs 4 arguments" % (rel, no))
                    rw = c_int(a[3])
                marks.append((rel, fn, fn_line, no, kind, a[0][1:-1], _norm_mutex(a[2]), rw))
    return sites, marks

@translate.register("LockSites")
def gen_lock_sites():
    sites, marks = lock_sites_scan()
    if not sites:
        raise TranslateError("no XMLMutexLock site found in the compiled sources")
    if not marks:
        raise TranslateError("no XERCES_VERIF_ACCESS marker found (hook H2 not applied to the sources?)")
    def q(s): return '"' + s.replace("\\", "\\\\").replace('"', '\\"') + '"'
    out = HEADER + "namespace XV.Gen.LockSites\n\n"
    out += "structure LockSite where\n  file : String\n  func : String\n  fnLine : Nat\n  line : Nat\n  mutex : String\n  deriving Repr, DecidableEq\n\n"
    out += ("structure Marker where\n  file : String\n  func : String\n  fnLine : Nat\n  line : Nat\n  kind : String\n"
            "  resource : String\n  mutex : String\n  rw : Nat\n  deriving Repr, DecidableEq\n\n")
    out += "/-- every `XMLMutexLock` construction in the sources compiled in this build configuration -/\n"
    out += "def lockSites : List LockSite := [\n" + ",\n".join(
        "  ⟨%s, %s, %d, %d, %s⟩" % (q(f), q(fn), fl, no, q(mx)) for f, fn, fl, no, mx, _ in sites) + "]\n\n"
    out += "/-- every hook-H2 access / initialisation marker -/\n"
    out += "def markers : List Marker := [\n" + ",\n".join(
        "  ⟨%s, %s, %d, %d, %s, %s, %s, %d⟩" % (q(f), q(fn), fl, no, q(k), q(r), q(mx), rw)
        for f, fn, fl, no, k, r, mx, rw in marks) + "]\n\n"
    out += "end XV.Gen.LockSites\n"
    return out


# ---- C19 (builder) ----
# ------------------------------------------------------------------ C19: XMLErrs enum values (severity bounds)
@translate.register("ErrCodes")
def gen_errcodes():
    rel = "framework/XMLErrorCodes.hpp"
    t = strip_c_comments(src(rel))
    m = re.search(r"enum\s+Codes\s*\{(.*?)\}", t, flags=re.S)
    if not m:
        raise TranslateError("enum Codes not found in " + rel)
    vals = {}
    for name, v in re.findall(r"\b([A-Za-z_][A-Za-z0-9_]*)\s*=\s*([0-9xXa-fA-F]+)", m.group(1)):
        vals[name] = c_int(v)
    out = HEADER + "namespace XV.Gen.ErrCodes\n\n"
    for nm in ("W_LowBounds", "W_HighBounds", "E_LowBounds", "E_HighBounds", "F_LowBounds", "F_HighBounds",
               "EntityExpansionLimitExceeded", "RecursiveEntity", "EntityNotFound"):
        if nm not in vals:
            raise TranslateError("%s: enumerator %s not found" % (rel, nm))
        out += "def %s : Nat := %d\n" % (nm, vals[nm])
    out += "\nend XV.Gen.ErrCodes\n"
    return out


# ---- C20 (builder) ----
# ------------------------------------------------------------------ C20: XInclude error codes
@translate.register("XIncludeErrs")
def gen_xinclude_errs():
    """XMLErrs::Codes values of every XInclude* code and of the severity bounds (framework/XMLErrorCodes.hpp),
    plus the constant strings XIncludeUtils compares attribute values / names with (xinclude/XIncludeUtils.cpp)."""
    rel = "framework/XMLErrorCodes.hpp"
    t = strip_c_comments(src(rel))
    m = re.search(r"class\s+XMLErrs\b.*?enum\s+Codes\s*\{(.*?)\}", t, flags=re.S)
    if not m:
        raise TranslateError("enum XMLErrs::Codes not found in %s" % rel)
    vals, nxt = {}, 0
    for item in m.group(1).split(","):
        item = item.strip()
        if not item:
            continue
        mm = re.fullmatch(r"(\w+)\s*(?:=\s*(\w+))?", item)
        if not mm:
            raise TranslateError("cannot parse enumerator %r in %s" % (item, rel))
        if mm.group(2) is not None:
            nxt = vals[mm.group(2)] if mm.group(2) in vals else c_int(mm.group(2))
        vals[mm.group(1)] = nxt
        nxt += 1
    need = ["W_LowBounds", "W_HighBounds", "E_LowBounds", "E_HighBounds", "F_LowBounds", "F_HighBounds",
            "XIncludeResourceErrorWarning", "XIncludeCannotOpenFile", "XIncludeIncludeFailedResourceError",
            "XIncludeOrphanFallback", "XIncludeNoHref", "XIncludeXPointerNotSupported", "XIncludeInvalidParseVal",
            "XIncludeMultipleFallbackElems", "XIncludeIncludeFailedNoFallback", "XIncludeCircularInclusionLoop",
            "XIncludeCircularInclusionDocIncludesSelf", "XIncludeDisallowedChild"]
    out = HEADER + "namespace XV.Gen.XIncludeErrs\n\n"
    for n in need:
        if n not in vals:
            raise TranslateError("XMLErrs::%s not found in %s" % (n, rel))
        out += "def %s : Nat := %d\n" % (n, vals[n])
    xi = sorted((v, k) for k, v in vals.items() if k.startswith("XInclude"))
    out += "\n/-- every XInclude* enumerator (name, value) -/\ndef all : List (String × Nat) := [\n"
    out += ",\n".join('  ("%s", %d)' % (k, v) for v, k in xi) + "]\n"
    # attribute-value / name constants of XIncludeUtils (XMLCh arrays written as chLatin_x lists)
    rel2 = "xinclude/XIncludeUtils.cpp"
    t2 = strip_c_comments(src(rel2))
    def xmlch(name):
        mm = re.search(r"XIncludeUtils::%s\s*\[\s*\]\s*=\s*\{(.*?)\}" % re.escape(name), t2, flags=re.S)
        if not mm:
            raise TranslateError("%s not found in %s" % (name, rel2))
        s = ""
        for tok in mm.group(1).split(","):
            tok = tok.strip()
            if tok == "chNull" or not tok:
                continue
            k = re.fullmatch(r"chLatin_(\w)", tok)
            d = re.fullmatch(r"chDigit_(\d)", tok)
            if k: s += k.group(1)
            elif d: s += d.group(1)
            elif tok == "chColon": s += ":"
            elif tok == "chForwardSlash": s += "/"
            elif tok == "chPeriod": s += "."
            elif tok == "chDash": s += "-"
            else:
                raise TranslateError("unknown character constant %s in %s" % (tok, name))
        return s
    out += "\n"
    for nm in ("fgXIIncludeQName", "fgXIFallbackQName", "fgXIIncludeHREFAttrName", "fgXIIncludeParseAttrName",
               "fgXIIncludeXPointerAttrName", "fgXIIncludeEncodingAttrName", "fgXIIncludeParseAttrXMLValue",
               "fgXIIncludeParseAttrTextValue", "fgXIIIncludeNamespaceURI", "fgXIBaseAttrName"):
        out += 'def %s : String := "%s"\n' % (nm, xmlch(nm))
    out += "\nend XV.Gen.XIncludeErrs\n"
    return out


# ---- C18 (builder) ----
# ------------------------------------------------------------------ C18: DOM heap constants, LONG_MAX
def _probe_cxx(code, what):
    """Compile and run a tiny program against the xerces headers (inline functions / sizeof only)."""
    import os, subprocess, tempfile, hashlib
    import common
    d = os.path.join(common.WORK, "translate")
    os.makedirs(d, exist_ok=True)
    hdr = os.path.join(common.REPO, "src", "xercesc", "util", "PlatformUtils.hpp")
    try:
        stamp = hashlib.sha256(code.encode() + open(hdr, "rb").read()).hexdigest()[:16]
    except OSError as e:
        raise TranslateError("cannot read PlatformUtils.hpp: %s" % e)
    cache = os.path.join(d, "probe-%s.out" % stamp)
    if os.path.exists(cache):
        return open(cache).read()
    cpp = os.path.join(d, "probe-%s.cpp" % stamp)
    exe = os.path.join(d, "probe-%s" % stamp)
    open(cpp, "w").write(code)
    p = subprocess.run(["clang++-14", "-std=gnu++17", "-I" + os.path.join(common.REPO, "src"),
                        "-I" + os.path.join(common.BUILD, "src"), cpp, "-o", exe],
                       stdout=subprocess.PIPE, stderr=subprocess.PIPE)
    if p.returncode != 0:
        raise TranslateError("%s: probe does not compile: %s" % (what, p.stderr.decode(errors="replace")[-400:]))
    out = subprocess.run([exe], stdout=subprocess.PIPE).stdout.decode()
    open(cache, "w").write(out)
    return out

def _need(pattern, text, rel, what):
    m = re.search(pattern, text, flags=re.S)
    if not m:
        raise TranslateError("%s: %s not found (pattern %r)" % (rel, what, pattern))
    return m

def _func_body_c18(text, header_re, rel):
    m = re.search(header_re, text)
    if not m:
        raise TranslateError("%s: function %r not found" % (rel, header_re))
    i = text.index("{", m.end() - 1)
    depth, j = 0, i
    while j < len(text):
        if text[j] == "{": depth += 1
        elif text[j] == "}":
            depth -= 1
            if depth == 0: break
        j += 1
    return text[i:j + 1]

@translate.register("DomHeap")
def gen_domheap():
    rel = "dom/impl/DOMDocumentImpl.cpp"
    t = strip_c_comments(src(rel))
    vals = {}
    for nm in ("kInitialHeapAllocSize", "kMaxHeapAllocSize", "kMaxSubAllocationSize"):
        m = _need(r"static\s+XMLSize_t\s+%s\s*=\s*([0-9xXa-fA-F]+)\s*;" % nm, t, rel, nm)
        vals[nm] = c_int(m.group(1))
    body = re.sub(r"\s+", "", _func_body_c18(t, r"void\s*\*\s*DOMDocumentImpl::allocate\s*\(\s*XMLSize_t\s+amount\s*\)\s*\{", rel))
    # the statements the code-shaped model mirrors, in order (whitespace-free)
    skeleton = [
        ("align", "amount=XMLPlatformUtils::alignPointerForNewBlockAllocation(amount);"),
        ("oversize test", ("if(amount>kMaxSubAllocationSize){",
                           "if(amount>kMaxSubAllocationSize||(amount>fFreeBytesRemaining&&(fHeapAllocSize<sizeOfHeader||amount>fHeapAllocSize-sizeOfHeader))){")),
        ("singleton block size", "fMemoryManager->allocate(sizeOfHeader+amount);"),
        ("singleton link", "if(fCurrentSingletonBlock){*(void**)newBlock=*(void**)fCurrentSingletonBlock;*(void**)fCurrentSingletonBlock=newBlock;}else{*(void**)newBlock=0;fCurrentSingletonBlock=newBlock;}"),
        ("singleton result", "void*retPtr=(char*)newBlock+sizeOfHeader;returnretPtr;}"),
        ("room test", "if(amount>fFreeBytesRemaining){"),
        ("block size", "newBlock=fMemoryManager->allocate(fHeapAllocSize);"),
        ("block link", "*(void**)newBlock=fCurrentBlock;fCurrentBlock=newBlock;fFreePtr=(char*)newBlock+sizeOfHeader;fFreeBytesRemaining=fHeapAllocSize-sizeOfHeader;"),
        ("growth", None),
        ("carve", "void*retPtr=fFreePtr;fFreePtr+=amount;fFreeBytesRemaining-=amount;returnretPtr;}"),
    ]
    pos = 0
    grow = None
    recheck = False
    for what, pat in skeleton:
        if pat is None:
            m = re.compile(r"if\(fHeapAllocSize<kMaxHeapAllocSize\)fHeapAllocSize\*=(\d+);\}").match(body, pos)
            if not m:
                raise TranslateError("%s: allocate(): statement '%s' not where the model expects it: ...%s" % (rel, what, body[pos:pos + 80]))
            grow = int(m.group(1)); pos = m.end()
            continue
        if isinstance(pat, tuple):      # pinned shape | shape after fixes/C18-dom-arena-recheck-fit.diff
            ks = [(body.find(q, pos), n) for n, q in enumerate(pat) if body.find(q, pos) >= 0]
            if not ks:
                raise TranslateError("%s: allocate(): statement '%s' not found after offset %d" % (rel, what, pos))
            k, which = min(ks)
            recheck = which == 1
            pat = pat[which]
        k = body.find(pat, pos)
        if k < 0:
            raise TranslateError("%s: allocate(): statement '%s' not found after offset %d" % (rel, what, pos))
        between = body[pos:k]
        # only declarations of sizeOfHeader / newBlock may sit between mirrored statements
        between = between.replace("XMLSize_tsizeOfHeader=XMLPlatformUtils::alignPointerForNewBlockAllocation(sizeof(void*));", "")
        between = between.replace("void*newBlock=", "").replace("void*newBlock;", "").replace("{", "")
        if between:
            raise TranslateError("%s: allocate(): unexpected code before '%s': %s" % (rel, what, between[:120]))
        pos = k + len(pat)
    if body[pos:] != "":
        raise TranslateError("%s: allocate(): unexpected trailing code: %s" % (rel, body[pos:][:120]))
    setb = re.sub(r"\s+", "", _func_body_c18(t, r"void\s+DOMDocumentImpl::setMemoryAllocationBlockSize\s*\(\s*XMLSize_t\s+size\s*\)\s*\{", rel))
    if setb != "{if(size>kMaxSubAllocationSize)fHeapAllocSize=size;}":
        raise TranslateError("%s: setMemoryAllocationBlockSize no longer has the modelled shape: %s" % (rel, setb[:160]))
    probe = _probe_cxx(
        '#include <climits>\n#include <cstdio>\n#include <xercesc/util/PlatformUtils.hpp>\n'
        'using namespace XERCES_CPP_NAMESPACE;\nint main(){\n'
        ' printf("%zu %zu %ld %zu\\n", (size_t)XMLPlatformUtils::alignPointerForNewBlockAllocation(1),'
        ' (size_t)XMLPlatformUtils::alignPointerForNewBlockAllocation(sizeof(void*)), LONG_MAX, sizeof(void*)); return 0; }\n', "DomHeap")
    try:
        align, header, longmax, ptrsize = [int(x) for x in probe.split()]
    except ValueError:
        raise TranslateError("DomHeap probe printed %r" % probe)
    # Initialize / Terminate: the statements of the counter machine
    rel2 = "util/PlatformUtils.cpp"
    u = re.sub(r"\s+", "", strip_c_comments(src(rel2)))
    for what, pat in (
        ("overflow guard", "if(gInitFlag==LONG_MAX)return;gInitFlag++;if(gInitFlag>1)return;"),
        ("manager choice", "if(!fgMemoryManager){if(memoryManager){fgMemoryManager=memoryManager;fgMemMgrAdopted=false;}else{fgMemoryManager=newMemoryManagerImpl();}}"),
        ("heap overload", "Initialize(locale,nlsHome,panicHandler,memoryManager);if(gInitFlag==1)XMLInitializer::initializeDOMHeap(initialDOMHeapAllocSize,maxDOMHeapAllocSize,maxDOMSubAllocationSize);"),
        ("underflow guard", "if(gInitFlag==0)return;gInitFlag--;if(gInitFlag>0)return;"),
        ("manager release", "if(fgMemMgrAdopted)deletefgMemoryManager;elsefgMemMgrAdopted=true;fgMemoryManager=0;gInitFlag=0;}"),
        ("flag", "staticlonggInitFlag=0;"), ("adopted default", "boolXMLPlatformUtils::fgMemMgrAdopted=true;")):
        if pat not in u:
            raise TranslateError("%s: %s no longer has the modelled shape" % (rel2, what))
    # does Terminate put the DOM heap sizes back?  (shape after fixes/C18-terminate-resets-dom-heap.diff)
    ini = re.sub(r"\s+", "", strip_c_comments(src("util/XMLInitializer.cpp")))
    tm = re.search(r"voidXMLInitializer::terminateDOMHeap\(\)\{kInitialHeapAllocSize=(\w+);kMaxHeapAllocSize=(\w+);kMaxSubAllocationSize=(\w+);\}",
                   re.sub(r"\s+", "", t))
    term_body = _func_body_c18(ini, r"voidXMLInitializer::terminateStaticData\(\)\{", "util/XMLInitializer.cpp")
    heap_reset = False
    if tm or "terminateDOMHeap" in ini:
        if not tm or "terminateDOMHeap();" not in term_body:
            raise TranslateError("terminateDOMHeap present but not in the modelled shape / not called from terminateStaticData")
        if [c_int(tm.group(i)) for i in (1, 2, 3)] != [vals["kInitialHeapAllocSize"], vals["kMaxHeapAllocSize"], vals["kMaxSubAllocationSize"]]:
            raise TranslateError("terminateDOMHeap does not restore the static initialisers")
        heap_reset = True
    # the one arena allocation every DOMDocumentImpl constructor makes
    tw = re.sub(r"\s+", "", t)
    nts = set(re.findall(r"fNameTableSize\((\d+)\)", tw))
    if len(nts) != 1:
        raise TranslateError("%s: fNameTableSize initialisers not found / not unique: %r" % (rel, nts))
    n_ctor = tw.count("fNameTable=(DOMStringPoolEntry**)allocate(sizeof(DOMStringPoolEntry*)*fNameTableSize);")
    if n_ctor != 2 or tw.count("allocate(") - tw.count("->allocate(") - tw.count("::allocate(") < n_ctor:
        raise TranslateError("%s: constructors no longer make exactly the modelled name-table allocation" % rel)
    ctor_alloc = ptrsize * int(nts.pop())
    out = HEADER + "namespace XV.Gen.DomHeap\n\n"
    out += "/-- `allocate(sizeof(DOMStringPoolEntry*) * fNameTableSize)` in both constructors -/\ndef ctorFirstAlloc : Nat := %d\n" % ctor_alloc
    out += "def kInitialHeapAllocSize : Nat := %d\n" % vals["kInitialHeapAllocSize"]
    out += "def kMaxHeapAllocSize : Nat := %d\n" % vals["kMaxHeapAllocSize"]
    out += "def kMaxSubAllocationSize : Nat := %d\n" % vals["kMaxSubAllocationSize"]
    out += "/-- alignPointerForNewBlockAllocation(1) on this platform -/\ndef alignment : Nat := %d\n" % align
    out += "/-- alignPointerForNewBlockAllocation(sizeof(void*)) -/\ndef sizeOfHeader : Nat := %d\n" % header
    out += "/-- `fHeapAllocSize *= N` -/\ndef growFactor : Nat := %d\n" % grow
    out += "def longMax : Nat := %d\n" % longmax
    out += "/-- `allocate` sends a request that a fresh block cannot hold to the single-block path -/\ndef recheckFit : Bool := %s\n" % ("true" if recheck else "false")
    out += "/-- `Terminate` restores the three DOM heap sizes to their static initialisers -/\ndef termResetsHeap : Bool := %s\n" % ("true" if heap_reset else "false")
    out += "\nend XV.Gen.DomHeap\n"
    return out


# ---- C13 (builder) ----
# ------------------------------------------------------------------ Gen/KidOK (C13)
def _enum_values(text, enum_name, rel):
    """name -> int of `enum <enum_name> { A = 1, B = 2, ... }` (explicit or implicit values)"""
    t = strip_c_comments(text)
    m = re.search(r"\benum\s+%s\s*\{([^}]*)\}" % re.escape(enum_name), t)
    if not m:
        raise TranslateError("enum %s not found in %s" % (enum_name, rel))
    vals, nxt = {}, 0
    for item in m.group(1).split(","):
        item = item.strip()
        if not item:
            continue
        if "=" in item:
            nm, v = item.split("=", 1)
            nxt = c_int(v)
            vals[nm.strip()] = nxt
        else:
            vals[item] = nxt
        nxt += 1
    return vals


@translate.register("KidOK")
def gen_kidok():
    """isKidOK lookup table of dom/impl/DOMDocumentImpl.cpp, evaluated from the assignment statements,
    plus the DOMNode::NodeType and DOMException::ExceptionCode enums."""
    rel_h = "dom/DOMNode.hpp"
    types = _enum_values(src(rel_h), "NodeType", rel_h)
    rel_e = "dom/DOMException.hpp"
    codes = _enum_values(src(rel_e), "ExceptionCode", rel_e)
    rel = "dom/impl/DOMDocumentImpl.cpp"
    t = strip_c_comments(src(rel))
    m = re.search(r"bool\s+DOMDocumentImpl::isKidOK\s*\([^)]*\)\s*\{", t)
    if not m:
        raise TranslateError("DOMDocumentImpl::isKidOK not found in " + rel)
    i = m.end(); depth = 1; j = i
    while depth and j < len(t):
        if t[j] == "{": depth += 1
        elif t[j] == "}": depth -= 1
        j += 1
    body = t[i:j - 1]
    md = re.search(r"static\s+(?:const\s+)?int\s+kidOK\s*\[\s*(\d+)\s*\]", body)
    if not md:
        raise TranslateError("static [const] int kidOK[N] not found in isKidOK")
    n = int(md.group(1))
    table = [0] * n

    def ty(name):
        name = name.strip()
        mm = re.fullmatch(r"DOMNode::(\w+)", name)
        if not mm or mm.group(1) not in types:
            raise TranslateError("isKidOK: unknown node type %r" % name)
        return types[mm.group(1)]

    consts = {}

    def ev(expr):
        """value of `term | term | ...`, term = 0 | 1 << DOMNode::X | previously defined constant"""
        val = 0
        for term in expr.split("|"):
            term = term.strip()
            if re.fullmatch(r"0", term):
                continue
            mt = re.fullmatch(r"1\s*<<\s*([\w:]+)", term)
            if mt:
                val |= 1 << ty(mt.group(1))
            elif term in consts:
                val |= consts[term]
            else:
                raise TranslateError("isKidOK: cannot evaluate %r" % term)
        return val

    for mc in re.finditer(r"static\s+const\s+int\s+(\w+)\s*=\s*([^;{]+);", body):
        consts[mc.group(1)] = ev(mc.group(2))
    mi = re.search(r"kidOK\s*\[\s*\d+\s*\]\s*=\s*\{([^}]*)\}", body)
    if mi:
        # form B: a statically initialised table, one initialiser per node type
        items = [x for x in (s.strip() for s in mi.group(1).split(",")) if x]
        if len(items) > n:
            raise TranslateError("isKidOK: %d initialisers for kidOK[%d]" % (len(items), n))
        for k, it in enumerate(items):
            table[k] = ev(it)
        stmts = len(items)
    else:
        # form A: chained assignment statements `kidOK[DOMNode::A] = kidOK[DOMNode::B] = ... = expr;`
        stmts = 0
        for st in re.finditer(r"((?:kidOK\s*\[\s*[\w:]+\s*\]\s*=\s*)+)([^;=]+);", body):
            targets = re.findall(r"kidOK\s*\[\s*([\w:]+)\s*\]\s*=", st.group(1))
            val = ev(st.group(2).strip())
            for tg in targets:
                k = ty(tg)
                if k >= n:
                    raise TranslateError("isKidOK: index %d outside kidOK[%d]" % (k, n))
                table[k] = val
            stmts += 1
    if stmts < 3:
        raise TranslateError("isKidOK: table not recognised")
    # shape of the lookup itself
    if not re.search(r"\(\s*kidOK\s*\[\s*p\s*\]\s*&\s*1\s*<<\s*ch\s*\)\s*!=\s*0", body):
        raise TranslateError("isKidOK: lookup expression `(kidOK[p] & 1<<ch) != 0` not found")
    ws_rule = bool(re.search(r"p\s*==\s*DOMNode::DOCUMENT_NODE\s*&&\s*ch\s*==\s*DOMNode::TEXT_NODE", body)
                   and "isAllSpaces" in body)
    out = HEADER + "namespace XV.Gen.KidOK\n\n"
    out += "/-- DOMNode::NodeType -/\ndef nodeTypes : List (String × Nat) := [\n  " + ",\n  ".join(
        '("%s", %d)' % (k, v) for k, v in sorted(types.items(), key=lambda kv: kv[1])) + "]\n\n"
    out += "/-- DOMException::ExceptionCode -/\ndef excCodes : List (String × Nat) := [\n  " + ",\n  ".join(
        '("%s", %d)' % (k, v) for k, v in sorted(codes.items(), key=lambda kv: kv[1])) + "]\n\n"
    out += "/-- `kidOK[parentType]` bit masks (bit `1 <<< childType`) as assigned in DOMDocumentImpl::isKidOK -/\n"
    out += lean_list("kidOK", table) + "\n"
    out += "/-- the extra clause: a Text child of a Document is accepted when it is all white space -/\n"
    out += "def docTextAllSpacesClause : Bool := %s\n\n" % ("true" if ws_rule else "false")
    out += "end XV.Gen.KidOK\n"
    return out


# ---- C02 (builder) ----
# ------------------------------------------------------------------ XML character-class tables (C02 C03 C06 C09 C12 C13)
CHAR_MASKS = ("gNCNameCharMask", "gFirstNameCharMask", "gNameCharMask", "gPlainContentCharMask",
              "gSpecialStartTagCharMask", "gControlCharMask", "gXMLCharMask", "gWhitespaceCharMask")

def char_masks():
    rel = "util/XMLChar.hpp"
    t = strip_c_comments(src(rel))
    out = {}
    for nm in CHAR_MASKS:
        m = re.search(r"const\s+XMLByte\s+%s\s*=\s*([^;]+);" % nm, t)
        if not m:
            raise TranslateError("mask constant %s not found in %s" % (nm, rel))
        out[nm] = c_int(m.group(1))
    return out

def char_tables():
    """The two 65536-entry tables as Python lists (also used by tools/props/c02.py)."""
    rel = "util/XMLChar.cpp"
    t = src(rel)
    # only the text before the NEED_TO_GEN_TABLE block holds the live tables
    res = {}
    for key, nm in (("10", "XMLChar1_0::fgCharCharsTable1_0"), ("11", "XMLChar1_1::fgCharCharsTable1_1")):
        v = array_init(t, nm, rel)
        if len(v) != 0x10000:
            raise TranslateError("%s: expected 65536 entries, found %d" % (nm, len(v)))
        if any(not 0 <= x < 256 for x in v):
            raise TranslateError("%s: entry out of byte range" % nm)
        res[key] = v
    return res

def page_literal(vals):
    """256 bytes -> one Nat literal, entry i in bits 8i..8i+7"""
    n = 0
    for i, b in enumerate(vals):
        n |= b << (8 * i)
    return n

@translate.register("CharTables")
def gen_char_tables():
    masks = char_masks()
    tabs = char_tables()
    out = HEADER + ("-- XMLChar1_0::fgCharCharsTable1_0 / XMLChar1_1::fgCharCharsTable1_1 (util/XMLChar.cpp) as 256 pages of 256\n"
                    "-- entries; each page is one Nat literal, entry i of a page in bits 8i..8i+7.  Mask constants from util/XMLChar.hpp.\n"
                    "namespace XV.Gen.CharTables\n\n")
    for nm in CHAR_MASKS:
        out += "def %s : Nat := %d\n" % (nm, masks[nm])
    out += "\ndef masks : List Nat := [%s]\n\n" % ", ".join(CHAR_MASKS)
    for key in ("10", "11"):
        v = tabs[key]
        pages = [page_literal(v[p * 256:(p + 1) * 256]) for p in range(256)]
        out += "def pages%s : List Nat := [\n%s]\n\n" % (key, ",\n".join("  0x%x" % p for p in pages))
    out += "end XV.Gen.CharTables\n"
    return out

# ------------------------------------------------------------------ error code enums (C02 C07 C19)
def enum_codes(rel, cls):
    t = strip_c_comments(src(rel))
    m = re.search(r"class\s+%s\b.*?enum\s+Codes\s*\{(.*?)\}\s*;" % cls, t, flags=re.S)
    if not m:
        raise TranslateError("enum Codes of %s not found in %s" % (cls, rel))
    codes = []
    nxt = 0
    for item in m.group(1).split(","):
        item = item.strip()
        if not item:
            continue
        mm = re.fullmatch(r"(\w+)(?:\s*=\s*(\S+))?", item)
        if not mm:
            raise TranslateError("%s: cannot read enumerator %r" % (rel, item))
        val = c_int(mm.group(2)) if mm.group(2) else nxt
        codes.append((mm.group(1), val))
        nxt = val + 1
    # severity predicates: must still be the closed-interval tests over the bound markers
    preds = {}
    for fn, lo, hi in (("isFatal", "F_LowBounds", "F_HighBounds"), ("isWarning", "W_LowBounds", "W_HighBounds"),
                       ("isError", "E_LowBounds", "E_HighBounds")):
        mm = re.search(r"static\s+bool\s+%s\s*\(\s*const\s+%s::Codes\s+toCheck\s*\)\s*\{\s*return\s*\(\s*\(\s*toCheck\s*>=\s*(\w+)\s*\)\s*&&\s*"
                       r"\(\s*toCheck\s*<=\s*(\w+)\s*\)\s*\)\s*;\s*\}" % (fn, cls), t)
        if not mm:
            raise TranslateError("%s::%s is no longer `lo <= c && c <= hi` in %s" % (cls, fn, rel))
        preds[fn] = (mm.group(1), mm.group(2))
    names = dict(codes)
    for fn, (lo, hi) in preds.items():
        if lo not in names or hi not in names:
            raise TranslateError("%s::%s refers to unknown bounds %s/%s" % (cls, fn, lo, hi))
    return codes, preds

def lean_enum(ns, codes, preds):
    out = "namespace %s\n\n" % ns
    out += "def codes : List (String × Nat) := [\n%s]\n\n" % ",\n".join('  ("%s", %d)' % c for c in codes)
    for nm, v in codes:
        if nm.endswith("Bounds"):
            out += "def %s : Nat := %d\n" % (nm, v)
    out += "\n"
    for fn, (lo, hi) in sorted(preds.items()):
        out += "def %s (c : Nat) : Bool := decide (%s ≤ c) && decide (c ≤ %s)\n" % (fn, lo, hi)
    out += "\n-- every code by name (a theorem that names a code breaks when the code is renamed, removed or moved)\nnamespace C\n"
    for nm, v in codes:
        out += "def %s : Nat := %d\n" % (nm, v)
    out += "end C\n"
    out += "\nend %s\n" % ns
    return out

@translate.register("ErrCodes")
def gen_err_codes():
    out = HEADER + "-- enum order and severity bounds of framework/XMLErrorCodes.hpp (XMLErrs) and XMLValidityCodes.hpp (XMLValid)\n"
    c, p = enum_codes("framework/XMLErrorCodes.hpp", "XMLErrs")
    out += lean_enum("XV.Gen.ErrCodes.XMLErrs", c, p) + "\n"
    c2, p2 = enum_codes("framework/XMLValidityCodes.hpp", "XMLValid")
    out += lean_enum("XV.Gen.ErrCodes.XMLValid", c2, p2)
    # flat names used by C19 (superset of the C19 builder's ErrCodes module, so that one generator serves both)
    vals = dict(c)
    out += "\nnamespace XV.Gen.ErrCodes\n\n"
    for nm in ("W_LowBounds", "W_HighBounds", "E_LowBounds", "E_HighBounds", "F_LowBounds", "F_HighBounds",
               "EntityExpansionLimitExceeded", "RecursiveEntity", "EntityNotFound"):
        if nm not in vals:
            raise TranslateError("framework/XMLErrorCodes.hpp: enumerator %s not found" % nm)
        out += "def %s : Nat := %d\n" % (nm, vals[nm])
    out += "\nend XV.Gen.ErrCodes\n"
    return out


# ---- C16 (builder) ----
import translate_ser  # noqa  (registers SerConsts; imports translate_serops -> SerializeOps)


# ---- C12 (builder) ----
# ------------------------------------------------------------------ C12: formatter escape tables, serializer literals
def _uni_symbols():
    rel = "util/XMLUniDefs.hpp"
    t = strip_c_comments(src(rel))
    sym = {}
    for m in re.finditer(r"const\s+XMLCh\s+(ch\w+)\s*=\s*(0x[0-9A-Fa-f]+|\d+)\s*;", t):
        sym[m.group(1)] = int(m.group(2), 0)
    if len(sym) < 90 or "chAmpersand" not in sym:
        raise TranslateError("XMLUniDefs.hpp: character constants not found")
    return sym

def _mask_ranges(tbl, mask):
    out = []; start = None
    for i, v in enumerate(tbl + [0]):
        on = i < len(tbl) and (v & mask) != 0
        if on and start is None: start = i
        if not on and start is not None:
            out.append((start, i - 1)); start = None
    return out

def _lean_pairs(name, ps):
    body = ",\n".join("  " + ", ".join("(%d, %d)" % p for p in ps[k:k+8]) for k in range(0, len(ps), 8))
    return "def %s : List (Nat × Nat) := [\n%s]\n" % (name, body)

def _zstring(text, name, rel, sym):
    v = array_init(text, name, rel, sym)
    if not v or v[-1] != 0 or 0 in v[:-1]:
        raise TranslateError("%s in %s is not a single null-terminated string" % (name, rel))
    return v[:-1]

@translate.register("Escapes")
def gen_escapes():
    sym = _uni_symbols()
    rel = "framework/XMLFormatter.cpp"
    t = src(rel)
    out = HEADER + "namespace XV.Gen.Escapes\n\n"
    for nm in ("gAmpRef", "gAposRef", "gGTRef", "gLTRef", "gQuoteRef"):
        out += lean_list(nm, _zstring(t, nm, rel, sym))
    tt = strip_c_comments(t)
    m = re.search(r"\bkEscapeCount\s*=\s*(\d+)\s*;", tt)
    if not m:
        raise TranslateError("kEscapeCount not found in " + rel)
    kcount = int(m.group(1))
    # enum EscapeFlags order (the row index of gEscapeChars) and UnRepFlags
    h = strip_c_comments(src("framework/XMLFormatter.hpp"))
    em = re.search(r"enum\s+EscapeFlags\s*\{(.*?)\}", h, re.S)
    um = re.search(r"enum\s+UnRepFlags\s*\{(.*?)\}", h, re.S)
    if not em or not um:
        raise TranslateError("enum EscapeFlags / UnRepFlags not found in XMLFormatter.hpp")
    enames = [p.strip().split("=")[0].strip() for p in em.group(1).split(",") if p.strip()]
    want = ["NoEscapes", "StdEscapes", "AttrEscapes", "CharEscapes", "EscapeFlags_Count", "DefaultEscape"]
    if enames != want:
        raise TranslateError("enum EscapeFlags changed: %r" % enames)
    unames = [p.strip().split("=")[0].strip() for p in um.group(1).split(",") if p.strip()]
    if unames != ["UnRep_Fail", "UnRep_CharRef", "UnRep_Replace", "DefaultUnRep"]:
        raise TranslateError("enum UnRepFlags changed: %r" % unames)
    rows = array_init(t, "gEscapeChars", rel, sym) if False else None
    mm = re.search(r"\bgEscapeChars\s*\[[^\]]*\]\s*\[[^\]]*\]\s*=\s*\{", tt)
    if not mm:
        raise TranslateError("gEscapeChars not found in " + rel)
    i = mm.end(); depth = 1; j = i
    while depth and j < len(tt):
        if tt[j] == "{": depth += 1
        elif tt[j] == "}": depth -= 1
        j += 1
    body = tt[i:j-1]
    rws = re.findall(r"\{([^{}]*)\}", body)
    if len(rws) != 4:
        raise TranslateError("gEscapeChars: expected 4 rows, found %d" % len(rws))
    out += "def kEscapeCount : Nat := %d\n" % kcount
    names = ["escNoEscapes", "escStdEscapes", "escAttrEscapes", "escCharEscapes"]
    for nm, rw in zip(names, rws):
        vals = []
        for tok in rw.split(","):
            tok = tok.strip()
            if not tok: continue
            vals.append(sym[tok] if tok in sym else c_int(tok))
        if len(vals) != kcount:
            raise TranslateError("gEscapeChars row %s has %d entries, kEscapeCount = %d" % (nm, len(vals), kcount))
        out += "/-- raw row of gEscapeChars (scanned up to the first 0) -/\n" + lean_list(nm, vals)
    m = re.search(r"\bkTmpBufSize\s*=\s*([^,}\n]+)", h)
    if not m:
        raise TranslateError("kTmpBufSize not found")
    try:
        out += "def kTmpBufSize : Nat := %d\n\n" % eval(m.group(1).strip(), {"__builtins__": {}})
    except Exception:
        raise TranslateError("kTmpBufSize not a constant expression: " + m.group(1))
    # serializer literals
    rel2 = "dom/impl/DOMLSSerializerImpl.cpp"
    t2 = src(rel2)
    for nm in ("gEOLSeq", "gUTF8", "gEndElement", "gEndPI", "gStartPI", "gXMLDecl_VersionInfo", "gXMLDecl_EncodingDecl",
               "gXMLDecl_SDDecl", "gXMLDecl_separator", "gXMLDecl_endtag", "gStartCDATA", "gEndCDATA", "gStartComment",
               "gEndComment", "gStartDoctype", "gPublic", "gSystem", "gStartEntity", "gNotation"):
        out += lean_list(nm, _zstring(t2, nm, rel2, sym))
    t2c = re.sub(r"\(\s*XMLByte\s*\)", "", t2)
    for nm in ("BOM_utf8", "BOM_utf16be", "BOM_utf16le", "BOM_ucs4be", "BOM_ucs4le"):
        v = array_init(t2c, nm, rel2)
        if v[-1] != 0:
            raise TranslateError(nm + " not terminated")
        out += lean_list(nm, v[:-1])
    # character classes used by the formatter / ensureValidString (ranges of 16-bit units per mask)
    rel3 = "util/XMLChar.cpp"
    t3 = src(rel3)
    hh = strip_c_comments(src("util/XMLChar.hpp"))
    masks = {}
    for nm in ("gControlCharMask", "gXMLCharMask", "gWhitespaceCharMask", "gFirstNameCharMask", "gNameCharMask"):
        m = re.search(r"\b%s\s*=\s*(0x[0-9A-Fa-f]+)\s*;" % nm, hh)
        if not m:
            raise TranslateError(nm + " not found in XMLChar.hpp")
        masks[nm] = int(m.group(1), 16)
    for ver, tn in (("10", "fgCharCharsTable1_0"), ("11", "fgCharCharsTable1_1")):
        tb = array_init(t3, tn, rel3)
        if len(tb) != 0x10000:
            raise TranslateError("%s has %d entries" % (tn, len(tb)))
        out += _lean_pairs("xmlChar" + ver, _mask_ranges(tb, masks["gXMLCharMask"]))
        out += _lean_pairs("control" + ver, _mask_ranges(tb, masks["gControlCharMask"]))
        out += _lean_pairs("whitespace" + ver, _mask_ranges(tb, masks["gWhitespaceCharMask"]))
        out += _lean_pairs("firstNameChar" + ver, _mask_ranges(tb, masks["gFirstNameCharMask"]))
        out += _lean_pairs("nameChar" + ver, _mask_ranges(tb, masks["gNameCharMask"]))
    out += "\nend XV.Gen.Escapes\n"
    return out


# ---- C01 (builder) ----
# ------------------------------------------------------------------ C01: index / size / ownership arithmetic constants
from fractions import Fraction

def _func_body_c01(text, signature_re, rel):
    """body (between the outermost braces) of the first function whose head matches signature_re"""
    m = re.search(signature_re, text)
    if not m:
        raise TranslateError("function %s not found in %s" % (signature_re, rel))
    i = text.find("{", m.end())
    if i < 0:
        raise TranslateError("no body for %s in %s" % (signature_re, rel))
    depth, j = 1, i + 1
    while depth and j < len(text):
        if text[j] == "{": depth += 1
        elif text[j] == "}": depth -= 1
        j += 1
    if depth:
        raise TranslateError("unbalanced body for %s in %s" % (signature_re, rel))
    return text[i + 1:j - 1]

def _frac(lit, what):
    try:
        f = Fraction(lit)
    except (ValueError, ZeroDivisionError):
        raise TranslateError("%s: growth factor %r is not a decimal literal" % (what, lit))
    if f <= 0:
        raise TranslateError("%s: growth factor %r" % (what, lit))
    return f.numerator, f.denominator

def _one(pattern, text, what, flags=0):
    ms = re.findall(pattern, text, flags)
    if len(ms) != 1:
        raise TranslateError("%s: pattern matched %d times (expected exactly 1)" % (what, len(ms)))
    return ms[0]

_CAST = r"\(\s*(?:XMLSize_t|unsigned\s+int)\s*\)"

def _quarter_growth(body, var, what):
    """`(XMLSize_t)(<var> * F)` possibly as  `<var> ? (XMLSize_t)(<var> * F) : N`; returns (num, den, zeroInit or None)"""
    v = re.escape(var)
    m = re.search(r"=\s*(?:%s|oldCap)\s*\?\s*%s\s*\(\s*(?:%s|oldCap)\s*\*\s*([0-9.]+)\s*\)\s*:\s*(\d+)\s*;" % (v, _CAST, v), body)
    if m:
        n, d = _frac(m.group(1), what)
        return n, d, int(m.group(2))
    m = re.search(r"=\s*%s\s*\(\s*%s\s*\*\s*([0-9.]+)\s*\)\s*;" % (_CAST, v), body)
    if m:
        n, d = _frac(m.group(1), what)
        return n, d, None
    raise TranslateError("%s: growth expression over %s not recognised" % (what, var))

def _opt(v):
    return "none" if v is None else "(some %d)" % v

def _message_tables(rel):
    t = strip_c_comments(src(rel))
    out = []
    for m in re.finditer(r"const\s+XMLCh\s+(\w+)\s*\[\s*\]\s*\[\s*(\d+)\s*\]\s*=\s*\{", t):
        name, dim = m.group(1), int(m.group(2))
        i = m.end(); depth = 1; j = i
        while depth and j < len(t):
            if t[j] == "{": depth += 1
            elif t[j] == "}": depth -= 1
            j += 1
        body = t[i:j - 1]
        rows = re.findall(r"\{([^{}]*)\}", body)
        if re.sub(r"\{[^{}]*\}", "", body).replace(",", "").strip():
            raise TranslateError("unparsed text in %s of %s" % (name, rel))
        msgs = []
        for r in rows:
            vals = [c_int(x) for x in r.split(",") if x.strip()]
            if not vals or vals[-1] != 0 or 0 in vals[:-1]:
                raise TranslateError("%s: row not a NUL-terminated string" % name)
            if len(vals) > dim:
                raise TranslateError("%s: row longer than the declared dimension %d" % (name, dim))
            msgs.append(vals[:-1])
        ms = re.search(r"const\s+unsigned\s+int\s+%sSize\s*=\s*(\d+)\s*;" % re.escape(name), t)
        if not ms:
            raise TranslateError("%sSize not found" % name)
        out.append((name, dim, int(ms.group(1)), msgs))
    if [o[0] for o in out] != ["gXMLErrArray", "gXMLValidityArray", "gXMLExceptArray", "gXMLDOMMsgArray"]:
        raise TranslateError("message tables changed: %r" % [o[0] for o in out])
    return out

ERRTEXT_FILES = ["internal/XMLScanner.cpp", "framework/XMLValidator.cpp", "validators/schema/XSDErrorReporter.cpp",
                 "util/XMLException.cpp", "dom/DOMException.cpp", "dom/impl/DOMLSSerializerImpl.cpp",
                 "dom/impl/DOMNormalizer.cpp", "xinclude/XIncludeUtils.cpp"]

def _errtext_sites():
    """every `const XMLSize_t N = K; XMLCh errText[N + D];` together with the size argument of the loadMsg calls that fill it"""
    sites = []
    for rel in ERRTEXT_FILES:
        t = strip_c_comments(src(rel))
        decls = list(re.finditer(r"XMLCh\s+errText\s*\[([^\]]*)\]\s*;", t))
        calls = list(re.finditer(r"loadMsg\s*\(\s*[^,()]+(?:\([^()]*\))?[^,()]*,\s*errText\s*,\s*(\w+)", t))
        if not decls or not calls:
            raise TranslateError("%s: no errText buffer / loadMsg call found" % rel)
        for k, d in enumerate(decls):
            expr = d.group(1).strip()
            m = re.fullmatch(r"(\w+)(?:\s*\+\s*(\d+))?", expr)
            if not m:
                raise TranslateError("%s: errText dimension %r not recognised" % (rel, expr))
            name, plus = m.group(1), int(m.group(2) or 0)
            cm = None
            for c in re.finditer(r"const\s+(?:XMLSize_t|unsigned\s+int)\s+%s\s*=\s*(\d+)\s*;" % re.escape(name), t[:d.start()]):
                cm = c
            if name.isdigit():
                kval, plus = int(name), plus
                name = None
            elif cm is None:
                raise TranslateError("%s: constant %s not found" % (rel, name))
            else:
                kval = int(cm.group(1))
            end = decls[k + 1].start() if k + 1 < len(decls) else len(t)
            mine = [c for c in calls if d.end() <= c.start() < end]
            if not mine:
                raise TranslateError("%s: errText buffer #%d is never filled by loadMsg" % (rel, k))
            for c in mine:
                arg = c.group(1)
                if arg.isdigit():
                    passed = int(arg)
                elif name is not None and arg == name:
                    passed = kval
                else:
                    raise TranslateError("%s: loadMsg size argument %r is not the buffer's constant" % (rel, arg))
                sites.append((rel, k, (kval if name is not None else 0) + plus if name is not None else kval + plus, passed))
    return sites

@translate.register("SafetyConsts")
def gen_safety_consts():
    out = HEADER + "namespace XV.Gen.Safety\n\n"
    # ---- XMLBuffer
    rel = "framework/XMLBuffer.hpp"; h = strip_c_comments(src(rel))
    cap = _one(r"XMLBuffer\s*\(\s*const\s+XMLSize_t\s+capacity\s*=\s*(\d+)", h, "XMLBuffer default capacity")
    slack = _one(r"manager->allocate\s*\(\s*\(\s*capacity\s*\+\s*(\d+)\s*\)\s*\*\s*sizeof\s*\(\s*XMLCh\s*\)\s*\)", h, "XMLBuffer ctor allocation")
    _one(r"if\s*\(\s*fIndex\s*==\s*fCapacity\s*\)\s*ensureCapacity\s*\(\s*1\s*\)\s*;\s*fBuffer\s*\[\s*fIndex\s*\+\+\s*\]\s*=\s*toAppend\s*;", h, "XMLBuffer::append(XMLCh)")
    if len(re.findall(r"if\s*\(\s*fIndex\s*\+\s*count\s*>=\s*fCapacity\s*\)\s*\{\s*ensureCapacity\s*\(\s*count\s*\)\s*;\s*\}\s*memcpy\s*\(\s*&fBuffer\s*\[\s*fIndex\s*\]\s*,\s*chars\s*,\s*count\s*\*\s*sizeof\s*\(\s*XMLCh\s*\)\s*\)\s*;\s*fIndex\s*\+=\s*count\s*;", h)) != 2:
        raise TranslateError("XMLBuffer::append(chars[,count]) guard/copy shape changed")
    rel = "framework/XMLBuffer.cpp"; c = strip_c_comments(src(rel))
    body = _func_body_c01(c, r"void\s+XMLBuffer::ensureCapacity\s*\(", rel)
    mul = _one(r"XMLSize_t\s+newCap\s*=\s*\(\s*fIndex\s*\+\s*extraNeeded\s*\)\s*\*\s*(\d+)\s*;", body, "XMLBuffer::ensureCapacity newCap")
    slack2 = _one(r"allocate\s*\(\s*\(\s*newCap\s*\+\s*(\d+)\s*\)\s*\*\s*sizeof\s*\(\s*XMLCh\s*\)\s*\)", body, "XMLBuffer::ensureCapacity allocation")
    _one(r"if\s*\(\s*newCap\s*>\s*fCapacity\s*\)", body, "XMLBuffer::ensureCapacity realloc test")
    _one(r"if\s*\(\s*fFullHandler\s*&&\s*\(\s*newCap\s*>\s*fFullSize\s*\)\s*\)", body, "XMLBuffer::ensureCapacity full-handler test")
    if len(re.findall(r"fIndex\s*\+\s*extraNeeded\s*<=\s*fFullSize", body)) != 2 or len(re.findall(r"newCap\s*=\s*fFullSize\s*;", body)) != 2:
        raise TranslateError("XMLBuffer::ensureCapacity full-handler branch changed")
    out += "-- framework/XMLBuffer.{hpp,cpp}\n"
    out += "def xmlBufferDefaultCap : Nat := %s\ndef xmlBufferCtorSlack : Nat := %s\ndef xmlBufferGrowMul : Nat := %s\ndef xmlBufferGrowSlack : Nat := %s\n\n" % (cap, slack, mul, slack2)
    # ---- ElemStack / WFElemStack
    rel = "internal/ElemStack.cpp"; c = strip_c_comments(src(rel))
    k = c.find("WFElemStack::WFElemStack")
    if k < 0:
        raise TranslateError("WFElemStack constructor not found")
    es, wf = c[:k], c[k:]
    es_init = _one(r"fStackCapacity\s*\(\s*(\d+)\s*\)", es, "ElemStack initial stack capacity")
    wf_init = _one(r"fStackCapacity\s*\(\s*(\d+)\s*\)", wf, "WFElemStack initial stack capacity")
    wf_map0 = _one(r"fMapCapacity\s*\(\s*(\d+)\s*\)", wf, "WFElemStack initial map capacity")
    for what, txt, need in (("ElemStack", es, 2), ("WFElemStack", wf, 2)):
        if len(re.findall(r"if\s*\(\s*fStackTop\s*==\s*fStackCapacity\s*\)\s*expandStack\s*\(\s*\)\s*;", txt)) != need:
            raise TranslateError(what + ": push guard `fStackTop == fStackCapacity` changed")
    if len(re.findall(r"fMapCount\s*==\s*\w+->fMapCapacity\s*\)\s*expandMap", es)) != 2:
        raise TranslateError("ElemStack::addPrefix/addGlobalPrefix guard changed")
    _one(r"if\s*\(\s*curRow->fChildCount\s*==\s*curRow->fChildCapacity\s*\)", es, "ElemStack::addChild guard")
    _one(r"if\s*\(\s*\(\s*unsigned\s+int\s*\)\s*curRow->fTopPrefix\s*\+\s*1\s*==\s*fMapCapacity\s*\)\s*expandMap\s*\(\s*\)\s*;", wf, "WFElemStack::addPrefix guard")
    rows = []
    rows.append(("elemStack", int(es_init)) + _quarter_growth(_func_body_c01(es, r"void\s+ElemStack::expandStack\s*\(", rel), "fStackCapacity", "ElemStack::expandStack"))
    rows.append(("elemMap", 0) + _quarter_growth(_func_body_c01(es, r"void\s+ElemStack::expandMap\s*\(", rel), "oldCap", "ElemStack::expandMap"))
    rows.append(("elemChild", 0) + _quarter_growth(_func_body_c01(es, r"XMLSize_t\s+ElemStack::addChild\s*\(", rel), "curRow->fChildCapacity", "ElemStack::addChild"))
    rows.append(("wfElemStack", int(wf_init)) + _quarter_growth(_func_body_c01(wf, r"void\s+WFElemStack::expandStack\s*\(", rel), "fStackCapacity", "WFElemStack::expandStack"))
    rows.append(("wfElemMap", int(wf_map0)) + _quarter_growth(_func_body_c01(wf, r"void\s+WFElemStack::expandMap\s*\(", rel), "fMapCapacity", "WFElemStack::expandMap"))
    rel = "validators/schema/NamespaceScope.cpp"; ns = strip_c_comments(src(rel))
    ns_inits = set(re.findall(r"fStackCapacity\s*\(\s*(\d+)\s*\)", ns))
    if len(ns_inits) != 1:
        raise TranslateError("NamespaceScope initial stack capacity: %r" % sorted(ns_inits))
    if len(re.findall(r"if\s*\(\s*fStackTop\s*==\s*fStackCapacity\s*\)\s*expandStack\s*\(\s*\)\s*;", ns)) != 1:
        raise TranslateError("NamespaceScope::increaseDepth guard changed")
    if len(re.findall(r"fMapCount\s*==\s*\w+->fMapCapacity\s*\)\s*expandMap", ns)) != 1:
        raise TranslateError("NamespaceScope::addPrefix guard changed")
    rows.append(("nsScopeStack", int(ns_inits.pop())) + _quarter_growth(_func_body_c01(ns, r"void\s+NamespaceScope::expandStack\s*\(", rel), "fStackCapacity", "NamespaceScope::expandStack"))
    rows.append(("nsScopeMap", 0) + _quarter_growth(_func_body_c01(ns, r"void\s+NamespaceScope::expandMap\s*\(", rel), "oldCap", "NamespaceScope::expandMap"))
    out += "-- internal/ElemStack.cpp, validators/schema/NamespaceScope.cpp: (initial capacity, growth numerator, denominator, capacity used when the old capacity is 0)\n"
    out += "structure Quarter where\n  init : Nat\n  num : Nat\n  den : Nat\n  zeroInit : Option Nat\n  deriving Repr, DecidableEq\n\n"
    for nm, init, n, d, z in rows:
        out += "def %s : Quarter := ⟨%d, %d, %d, %s⟩\n" % (nm, init, n, d, _opt(z))
    out += "def quarters : List (String × Quarter) := [%s]\n\n" % ", ".join('("%s", %s)' % (r[0], r[0]) for r in rows)
    # ---- RangeToken
    rel = "util/regx/RangeToken.cpp"; c = strip_c_comments(src(rel))
    rinit = _one(r"const\s+unsigned\s+int\s+RangeToken::INITIALSIZE\s*=\s*(\d+)\s*;", c, "RangeToken::INITIALSIZE")
    _one(r"fMaxCount\s*\(\s*INITIALSIZE\s*\)", c, "RangeToken ctor fMaxCount")
    body = _func_body_c01(c, r"void\s+RangeToken::expand\s*\(", rel)
    _one(r"unsigned\s+int\s+newMax\s*=\s*fElemCount\s*\+\s*length\s*;", body, "RangeToken::expand newMax")
    f = _one(r"unsigned\s+int\s+minNewMax\s*=\s*\(\s*unsigned\s+int\s*\)\s*\(\s*\(\s*double\s*\)\s*fElemCount\s*\*\s*([0-9.]+)\s*\)\s*;", body, "RangeToken::expand minNewMax")
    _one(r"if\s*\(\s*newMax\s*<\s*minNewMax\s*\)\s*newMax\s*=\s*minNewMax\s*;", body, "RangeToken::expand max")
    addb = _func_body_c01(c, r"void\s+RangeToken::addRange\s*\(", rel)
    g = re.search(r"if\s*\(\s*fElemCount\s*\+\s*(\d+)\s*(>=|>)\s*fMaxCount\s*\)\s*\{\s*expand\s*\(\s*(\d+)\s*\)\s*;", addb)
    if not g:
        raise TranslateError("RangeToken::addRange growth guard changed")
    n, d = _frac(f, "RangeToken::expand")
    out += "-- util/regx/RangeToken.cpp\n"
    out += "def rangeTokenInit : Nat := %s\ndef rangeTokenNum : Nat := %d\ndef rangeTokenDen : Nat := %d\n" % (rinit, n, d)
    out += "def rangeTokenGuardAdd : Nat := %s\ndef rangeTokenGuardStrict : Bool := %s\ndef rangeTokenExpandBy : Nat := %s\n\n" % (g.group(1), "true" if g.group(2) == ">" else "false", g.group(3))
    # ---- ValueVectorOf / BaseRefVectorOf
    rel = "util/ValueVectorOf.c"; c = strip_c_comments(src(rel))
    body = _func_body_c01(c, r"ValueVectorOf<TElem>::\s*ensureExtraCapacity\s*\(", rel)
    _one(r"XMLSize_t\s+newMax\s*=\s*fCurCount\s*\+\s*length\s*;", body, "ValueVectorOf newMax")
    _one(r"if\s*\(\s*newMax\s*>\s*fMaxCount\s*\)", body, "ValueVectorOf test")
    f = _one(r"XMLSize_t\s+minNewMax\s*=\s*\(\s*XMLSize_t\s*\)\s*\(\s*\(\s*double\s*\)\s*fCurCount\s*\*\s*([0-9.]+)\s*\)\s*;", body, "ValueVectorOf minNewMax")
    _one(r"if\s*\(\s*newMax\s*<\s*minNewMax\s*\)\s*newMax\s*=\s*minNewMax\s*;", body, "ValueVectorOf max")
    _one(r"ensureExtraCapacity\s*\(\s*1\s*\)\s*;\s*fElemList\s*\[\s*fCurCount\s*\+\+\s*\]\s*=\s*toAdd\s*;", c, "ValueVectorOf::addElement")
    n, d = _frac(f, "ValueVectorOf")
    out += "-- util/ValueVectorOf.c, util/BaseRefVectorOf.c\ndef valueVectorNum : Nat := %d\ndef valueVectorDen : Nat := %d\n" % (n, d)
    rel = "util/BaseRefVectorOf.c"; c = strip_c_comments(src(rel))
    body = _func_body_c01(c, r"BaseRefVectorOf<TElem>::\s*ensureExtraCapacity\s*\(", rel)
    _one(r"XMLSize_t\s+newMax\s*=\s*fCurCount\s*\+\s*length\s*;", body, "BaseRefVectorOf newMax")
    _one(r"if\s*\(\s*newMax\s*<=\s*fMaxCount\s*\)\s*return\s*;", body, "BaseRefVectorOf test")
    dv = _one(r"if\s*\(\s*newMax\s*<\s*fMaxCount\s*\+\s*fMaxCount\s*/\s*(\d+)\s*\)\s*newMax\s*=\s*fMaxCount\s*\+\s*fMaxCount\s*/\s*\1\s*;", body, "BaseRefVectorOf growth")
    out += "def refVectorHalfDiv : Nat := %s\n\n" % dv
    # ---- DOMBuffer
    rel = "dom/impl/DOMStringPool.hpp"; h = strip_c_comments(src(rel))
    dcap = _one(r"DOMBuffer\s*\(\s*DOMDocumentImpl\s*\*\s*doc\s*,\s*XMLSize_t\s+capacity\s*=\s*(\d+)\s*\)", h, "DOMBuffer default capacity")
    if len(re.findall(r"if\s*\(\s*fIndex\s*\+\s*count\s*>=\s*fCapacity\s*\)\s*expandCapacity\s*\(\s*count(?:\s*,\s*true)?\s*\)\s*;\s*memcpy\s*\(\s*&fBuffer\s*\[\s*fIndex\s*\]", h)) != 3:
        raise TranslateError("DOMBuffer::append* guard/copy shape changed")
    rel = "dom/impl/DOMStringPool.cpp"; c = strip_c_comments(src(rel))
    body = _func_body_c01(c, r"void\s+DOMBuffer::expandCapacity\s*\(", rel)
    f = _one(r"const\s+XMLSize_t\s+newCap\s*=\s*\(\s*XMLSize_t\s*\)\s*\(\s*\(\s*fIndex\s*\+\s*extraNeeded\s*\)\s*\*\s*([0-9.]+)\s*\)\s*;", body, "DOMBuffer::expandCapacity newCap")
    ds = _one(r"allocate\s*\(\s*\(\s*newCap\s*\+\s*(\d+)\s*\)\s*\*\s*sizeof\s*\(\s*XMLCh\s*\)\s*\)", body, "DOMBuffer::expandCapacity allocation")
    _one(r"memcpy\s*\(\s*newBuf\s*,\s*fBuffer\s*,\s*fCapacity\s*\*\s*sizeof\s*\(\s*XMLCh\s*\)\s*\)", body, "DOMBuffer::expandCapacity copy")
    n, d = _frac(f, "DOMBuffer")
    out += "-- dom/impl/DOMStringPool.{hpp,cpp}\ndef domBufferDefaultCap : Nat := %s\ndef domBufferNum : Nat := %d\ndef domBufferDen : Nat := %d\ndef domBufferSlack : Nat := %s\n\n" % (dcap, n, d, ds)
    # ---- character references
    out += "-- scanCharRef accumulators: radix constants and the overflow guard (none = the loop has no guard)\n"
    for nm, rel, sig in (("xmlScanner", "internal/XMLScanner.cpp", r"bool\s+XMLScanner::scanCharRef\s*\("),
                         ("dtdScanner", "validators/DTD/DTDScanner.cpp", r"bool\s+DTDScanner::scanCharRef\s*\(")):
        body = _func_body_c01(strip_c_comments(src(rel)), sig, rel)
        _one(r"unsigned\s+int\s+value\s*=\s*0\s*;", body, nm + " accumulator type")
        r0 = _one(r"unsigned\s+int\s+radix\s*=\s*(\d+)\s*;", body, nm + " default radix")
        r1 = set(re.findall(r"radix\s*=\s*(\d+)\s*;", body)) - {r0}
        if len(r1) != 1:
            raise TranslateError(nm + ": hexadecimal radix assignment changed")
        m = re.search(r"value\s*=\s*\(\s*value\s*\*\s*radix\s*\)\s*\+\s*nextVal\s*;(.*?)gotOne\s*=\s*true", body, re.S)
        if not m:
            raise TranslateError(nm + ": accumulator statement changed")
        _one(r"if\s*\(\s*nextVal\s*>=\s*radix\s*\)", body, nm + " digit/radix test")
        g = re.search(r"^\s*if\s*\(\s*value\s*>\s*(0[xX][0-9a-fA-F]+|\d+)\s*\)\s*\{[^{}]*return\s+false\s*;[^{}]*\}", m.group(1))
        fin = re.search(r"if\s*\(\s*value\s*>=\s*(0x[0-9a-fA-F]+)\s*&&\s*value\s*<=\s*(0x[0-9a-fA-F]+)\s*\)(.*?)else\s+if\s*\(\s*value\s*<=\s*(0x[0-9a-fA-F]+)\s*\)", body, re.S)
        if not fin:
            raise TranslateError(nm + ": final range tests changed")
        sur = re.search(r"value\s*-=\s*(0x[0-9a-fA-F]+)\s*;\s*\w+\s*=\s*XMLCh\s*\(\s*\(\s*value\s*>>\s*(\d+)\s*\)\s*\+\s*(0x[0-9a-fA-F]+)\s*\)\s*;\s*second\s*=\s*XMLCh\s*\(\s*\(\s*value\s*&\s*(0x[0-9a-fA-F]+)\s*\)\s*\+\s*(0x[0-9a-fA-F]+)\s*\)\s*;", fin.group(3))
        if not sur:
            raise TranslateError(nm + ": surrogate split changed")
        out += "def %sRadixDec : Nat := %s\ndef %sRadixHex : Nat := %s\ndef %sGuard : Option Nat := %s\n" % (nm, r0, nm, r1.pop(), nm, _opt(int(g.group(1), 0) if g else None))
        out += "def %sPairLo : Nat := %d\ndef %sPairHi : Nat := %d\ndef %sSingleMax : Nat := %d\n" % (nm, int(fin.group(1), 16), nm, int(fin.group(2), 16), nm, int(fin.group(4), 16))
        out += "def %sSurr : List Nat := [%s]\n" % (nm, ", ".join(str(int(x, 0)) for x in sur.groups()))
    out += "\n"
    # ---- error text buffers
    sites = _errtext_sites()
    out += "-- every `XMLCh errText[...]` filled by loadMsg: (file, ordinal in file, array length, maxChars passed to loadMsg)\n"
    out += "def errTextSites : List (String × Nat × Nat × Nat) := [\n" + ",\n".join('  ("%s", %d, %d, %d)' % s for s in sites) + "]\n\n"
    rel = "util/XMLString.cpp"
    body = _func_body_c01(strip_c_comments(src(rel)), r"XMLSize_t\s+XMLString::replaceTokens\s*\(", rel)
    guarded = len(re.findall(r"curOutInd\s*<\s*maxChars", body))
    # 3 = outer loop, plain-copy loop, replacement-copy loop; a 4th guards the escaped-brace copy
    if guarded not in (3, 4):
        raise TranslateError("XMLString::replaceTokens: %d output guards (expected 3 or 4)" % guarded)
    _one(r"errText\s*\[\s*curOutInd\s*\]\s*=\s*0\s*;", body, "replaceTokens terminator")
    out += "-- util/XMLString.cpp replaceTokens: is the copy of a brace that does not start a {0}..{3} token guarded by curOutInd < maxChars?\n"
    out += "def replaceTokensBraceGuarded : Bool := %s\n\n" % ("true" if guarded == 4 else "false")
    rel = "util/MsgLoaders/InMemory/InMemMsgLoader.cpp"
    lb = _func_body_c01(strip_c_comments(src(rel)), r"bool\s+InMemMsgLoader::loadMsg\s*\(", rel)
    _one(r"XMLCh\s*\*\s*endPtr\s*=\s*toFill\s*\+\s*maxChars\s*;", lb, "InMemMsgLoader::loadMsg end pointer")
    _one(r"while\s*\(\s*\*srcPtr\s*&&\s*\(\s*outPtr\s*<\s*endPtr\s*\)\s*\)", lb, "InMemMsgLoader::loadMsg copy loop")
    # ---- DOM document heap
    rel = "dom/impl/DOMDocumentImpl.cpp"; c = strip_c_comments(src(rel))
    vals = {}
    for nm in ("kInitialHeapAllocSize", "kMaxHeapAllocSize", "kMaxSubAllocationSize"):
        vals[nm] = int(_one(r"static\s+XMLSize_t\s+%s\s*=\s*(0x[0-9a-fA-F]+|\d+)\s*;" % nm, c, nm), 0)
    body = _func_body_c01(c, r"void\s*\*\s*DOMDocumentImpl::allocate\s*\(", rel)
    big = re.search(r"if\s*\(\s*amount\s*>\s*kMaxSubAllocationSize\s*(\)|\|\|\s*\(\s*amount\s*>\s*fFreeBytesRemaining\s*&&\s*\(\s*fHeapAllocSize\s*<\s*sizeOfHeader\s*\|\|\s*amount\s*>\s*fHeapAllocSize\s*-\s*sizeOfHeader\s*\)\s*\)\s*\))", body)
    if not big:
        raise TranslateError("DOMDocumentImpl::allocate big-block test changed")
    routed = big.group(1) != ")"
    _one(r"if\s*\(\s*amount\s*>\s*fFreeBytesRemaining\s*\)", body, "DOMDocumentImpl::allocate refill test")
    clamp = bool(re.search(r"allocate\s*\(\s*fHeapAllocSize\s*\)", body)) is False
    _one(r"fFreePtr\s*\+=\s*amount\s*;\s*fFreeBytesRemaining\s*-=\s*amount\s*;", body, "DOMDocumentImpl::allocate carve")
    sb = _func_body_c01(c, r"void\s+DOMDocumentImpl::setMemoryAllocationBlockSize\s*\(", rel)
    _one(r"if\s*\(\s*size\s*>\s*kMaxSubAllocationSize\s*\)\s*fHeapAllocSize\s*=\s*size\s*;", sb, "setMemoryAllocationBlockSize")
    out += "-- dom/impl/DOMDocumentImpl.cpp\n"
    out += "def domInitialHeap : Nat := %d\ndef domMaxHeap : Nat := %d\ndef domMaxSub : Nat := %d\n" % (vals["kInitialHeapAllocSize"], vals["kMaxHeapAllocSize"], vals["kMaxSubAllocationSize"])
    out += "-- does allocate() size a fresh block independently of the request (plain `allocate(fHeapAllocSize)`)?\n"
    out += "def domAllocateBlockUnclamped : Bool := %s\n" % ("false" if clamp else "true")
    out += "-- does allocate() hand a request that a fresh block could not hold to the system allocator (big-block path)?\n"
    out += "def domAllocateRoutesMisfit : Bool := %s\n\n" % ("true" if routed else "false")
    # ---- XMLReader: raw buffer size and the UCS-4 BOM removal loop
    rel = "internal/XMLReader.hpp"; h = strip_c_comments(src(rel))
    m = re.search(r"kRawBufSize\s*=\s*(\d+)\s*\*\s*(\d+)", h)
    if not m:
        raise TranslateError("kRawBufSize not found")
    rel = "internal/XMLReader.cpp"; c = strip_c_comments(src(rel))
    body = _func_body_c01(c, r"void\s+XMLReader::doInitDecode\s*\(", rel)
    lm = re.search(r"for\s*\(\s*XMLSize_t\s+i\s*=\s*0\s*;\s*i\s*<\s*fRawBytesAvail\s*(?:-\s*(\d+)\s*)?;\s*i\+\+\s*\)\s*fRawByteBuf\s*\[\s*i\s*\]\s*=\s*fRawByteBuf\s*\[\s*i\s*\+\s*(\d+)\s*\]\s*;\s*fRawBytesAvail\s*-=\s*(\d+)\s*;", body)
    if not lm:
        raise TranslateError("XMLReader::doInitDecode UCS-4 BOM removal loop changed")
    out += "-- internal/XMLReader.{hpp,cpp}: for (i = 0; i < fRawBytesAvail - slack; i++) buf[i] = buf[i + shift]\n"
    out += "def rawBufSize : Nat := %d\ndef ucs4BomLoopSlack : Nat := %d\ndef ucs4BomLoopShift : Nat := %d\ndef ucs4BomLen : Nat := %d\n\n" % (
        int(m.group(1)) * int(m.group(2)), int(lm.group(1) or 0), int(lm.group(2)), int(lm.group(3)))
    out += "end XV.Gen.Safety\n"
    return out


@translate.register("SafetyMsgs")
def gen_safety_msgs():
    out = HEADER + "namespace XV.Gen.SafetyMsgs\n\n"
    tabs = _message_tables("util/MsgLoaders/InMemory/XercesMessages_en_US.hpp")
    out += "-- util/MsgLoaders/InMemory/XercesMessages_en_US.hpp: each message packed little-endian in base 65536\n"
    out += "-- (first code unit = lowest digit; code units are non-zero, so the number determines the text)\n"
    out += "def unpack : Nat → Nat → List Nat\n  | 0, _ => []\n  | fuel + 1, n => if n = 0 then [] else (n % 65536) :: unpack fuel (n / 65536)\n\n"
    for name, dim, size, msgs in tabs:
        packed = [sum(v << (16 * k) for k, v in enumerate(ms)) for ms in msgs]
        out += "def %sDim : Nat := %d\ndef %sSize : Nat := %d\n" % (name, dim, name, size)
        out += "def %sPacked : List Nat := [\n" % name + ",\n".join("  " + str(v) for v in packed) + "]\n"
        out += "def %s : List (List Nat) := %sPacked.map (unpack %sDim)\n" % (name, name, name)
    out += "def messageTables : List (String × Nat × Nat × List (List Nat)) := [%s]\n\n" % ", ".join('("%s", %sDim, %sSize, %s)' % (t[0], t[0], t[0], t[0]) for t in tabs)
    out += "end XV.Gen.SafetyMsgs\n"
    return out


# ---- C04 (builder) ----
# ---- C04 (builder) ----
# ------------------------------------------------------------------ reader constants (C01, C04)
def _const_product(expr, where):
    """Evaluate `16 * 1024`-style products of integer literals (nothing else is accepted)."""
    val = 1
    for tok in expr.split("*"):
        val *= c_int(tok)
    if val <= 0:
        raise TranslateError("non-positive constant in %s: %r" % (where, expr))
    return val

def _xmlch_const(text, name, rel):
    m = re.search(r"const\s+XMLCh\s+%s\s*=\s*(?:XMLCh\s*\(\s*)?(0[xX][0-9A-Fa-f]+|\d+)" % re.escape(name), text)
    if not m:
        raise TranslateError("XMLCh constant %s not found in %s" % (name, rel))
    return c_int(m.group(1))

def _byte_array(text, name, rel):
    """`fgX[] = { 0x3C, (char)0xEF, ... };` -> ints (casts dropped)."""
    t = strip_c_comments(text)
    m = re.search(r"\b%s\s*\[\s*\]\s*=\s*\{([^}]*)\}" % re.escape(name), t)
    if not m:
        raise TranslateError("array %s not found in %s" % (name, rel))
    vals = []
    for tok in m.group(1).split(","):
        tok = re.sub(r"\(\s*(?:char|XMLByte)\s*\)", "", tok).strip()
        if tok:
            vals.append(c_int(tok))
    return vals

def _size_const(text, name, rel):
    m = re.search(r"\b%s\s*=\s*(\d+)\s*;" % re.escape(name), strip_c_comments(text))
    if not m:
        raise TranslateError("constant %s not found in %s" % (name, rel))
    return int(m.group(1))

@translate.register("ReaderConsts")
def gen_reader_consts():
    rel = "internal/XMLReader.hpp"
    t = strip_c_comments(src(rel))
    vals = {}
    for nm in ("kCharBufSize", "kRawBufSize"):
        m = re.search(r"\b%s\s*=\s*([0-9xXa-fA-F\s\*]+?)\s*[,}]" % nm, t)
        if not m:
            raise TranslateError("%s not found in %s" % (nm, rel))
        vals[nm] = _const_product(m.group(1), nm)
    # buffers really have these sizes
    for arr, sz in (("fCharBuf", "kCharBufSize"), ("fCharSizeBuf", "kCharBufSize"), ("fRawByteBuf", "kRawBufSize")):
        if not re.search(r"\b%s\s*\[\s*%s\s*\]" % (arr, sz), t):
            raise TranslateError("%s is no longer declared with size %s in %s" % (arr, sz, rel))
    # default low-water mark: XMLReader/ReaderMgr default arguments and the scanners' member initialiser
    lws = set(int(x) for x in re.findall(r"lowWaterMark\s*=\s*(\d+)", t))
    rm = strip_c_comments(src("internal/ReaderMgr.hpp"))
    lws |= set(int(x) for x in re.findall(r"lowWaterMark\s*=\s*(\d+)", rm))
    sc = strip_c_comments(src("internal/XMLScanner.cpp"))
    sc_l = set(int(x) for x in re.findall(r"fLowWaterMark\s*\(\s*(\d+)\s*\)", sc))
    if not sc_l:
        raise TranslateError("fLowWaterMark initialiser not found in internal/XMLScanner.cpp")
    lws |= sc_l
    if len(lws) != 1:
        raise TranslateError("low-water mark defaults disagree: %s" % sorted(lws))
    vals["lowWaterMark"] = lws.pop()
    # the refill test of xcodeMoreChars and the request of refreshRawBuffer have the modelled shape
    rc = strip_c_comments(src("internal/XMLReader.cpp"))
    if not re.search(r"needMode\s*\|\|\s*bytesLeft\s*==\s*0\s*\|\|\s*bytesLeft\s*<\s*fLowWaterMark", rc):
        raise TranslateError("xcodeMoreChars refill test changed shape in internal/XMLReader.cpp")
    if not re.search(r"&fRawByteBuf\[bytesLeft\]\s*,\s*kRawBufSize\s*-\s*bytesLeft", rc):
        raise TranslateError("refreshRawBuffer read request changed shape in internal/XMLReader.cpp")
    if not re.search(r"kCharBufSize\s*-\s*spareChars", rc):
        raise TranslateError("refreshCharBuffer room computation changed shape in internal/XMLReader.cpp")
    ud_rel = "util/XMLUniDefs.hpp"
    ud = strip_c_comments(src(ud_rel))
    chars = {nm: _xmlch_const(ud, nm, ud_rel) for nm in
             ("chLF", "chCR", "chNEL", "chLineSeparator", "chCloseAngle", "chSpace", "chHTab",
              "chUnicodeMarker", "chSwappedUnicodeMarker")}
    # the EOL pre-test mask of getNextChar: ~(chCR|chLF|chNEL|chLineSeparator) on 16 bits
    if not re.search(r"chGotten\s*&\s*\(XMLCh\)\s*~\(chCR\|chLF\|chNEL\|chLineSeparator\)", t):
        raise TranslateError("getNextChar EOL pre-test changed shape in %s" % rel)
    rg_rel = "framework/XMLRecognizer.cpp"
    rg = src(rg_rel)
    out = HEADER + "namespace XV.Gen.ReaderConsts\n\n"
    for k in ("kCharBufSize", "kRawBufSize", "lowWaterMark"):
        out += "def %s : Nat := %d\n" % (k, vals[k])
    out += "\n"
    for k, v in chars.items():
        out += "def %s : Nat := %d\n" % (k, v)
    out += "def eolMask : Nat := %d\n\n" % (0xFFFF & ~(chars["chCR"] | chars["chLF"] | chars["chNEL"] | chars["chLineSeparator"]))
    for nm, ln in (("fgASCIIPre", "fgASCIIPreLen"), ("fgUTF16BPre", "fgUTF16PreLen"), ("fgUTF16LPre", "fgUTF16PreLen"),
                   ("fgUTF8BOM", "fgUTF8BOMLen"), ("fgEBCDICPre", "fgEBCDICPreLen"),
                   ("fgUCS4BPre", "fgUCS4PreLen"), ("fgUCS4LPre", "fgUCS4PreLen")):
        arr = _byte_array(rg, nm, rg_rel)
        n = _size_const(rg, ln, rg_rel)
        if len(arr) != n:
            raise TranslateError("%s has %d entries but %s = %d" % (nm, len(arr), ln, n))
        out += lean_list(nm, [a & 0xFF for a in arr]) + "\n"
    out += "end XV.Gen.ReaderConsts\n"
    return out
# ---- C15 (builder) ----
# ------------------------------------------------------------------ C15: scanner field / assignment sets
import json as _json, os as _os
RESET_CALL_RE = re.compile(r"^(reset\w*|removeAll\w*|clear\w*|flush\w*)$")

@translate.register("ScannerFields")
def gen_scanner_fields():
    """Data members of the scanner classes, where each is assigned (constructor / scanReset closure / setters / scanning
    code) - from the clang AST - plus the hand-reviewed classification in tools/c15_fields.json, emitted as Lean data."""
    import scanner_ast as sa
    try:
        d = sa.extract()
    except sa.AstError as e:
        raise TranslateError("ScannerFields: " + str(e))
    rev_path = _os.path.join(_os.path.dirname(_os.path.abspath(__file__)), "c15_fields.json")
    try:
        rev = _json.load(open(rev_path))
    except (OSError, ValueError) as e:
        raise TranslateError("ScannerFields: cannot read c15_fields.json: %s" % e)
    base = d["XMLScanner"]
    names = sorted({f for c in d.values() for f in c["fields"]})
    ident = {n: i for i, n in enumerate(names)}
    def ids(xs, universe=None):
        return sorted({ident[x] for x in xs if x in ident and (universe is None or x in universe)})
    # the three entry points that start a scan must bump the sequence id before scanReset
    bump = []
    for cls in sa.DERIVED:
        m = d[cls]["methods"].get("scanDocument")
        if m is None:
            raise TranslateError("ScannerFields: %s::scanDocument not found" % cls)
        bump.append((cls + "::scanDocument", "fSequenceId" in m["assigned"] and "scanReset" in m["selfcalls"]))
    for mn in ("scanFirst", "scanReset(token)"):
        m = base["methods"].get(mn)
        if m is None:
            raise TranslateError("ScannerFields: XMLScanner::%s not found" % mn)
        bump.append(("XMLScanner::" + mn, "fSequenceId" in m["assigned"]))
    out = [HEADER.rstrip("\n"),
           "-- from clang++-14 -ast-dump=json over src/xercesc/internal/{XML,IG,WF,DG,SG}XMLScanner.{hpp,cpp} and tools/c15_fields.json",
           "namespace XV.Gen.ScannerFields", "",
           "structure ClassInfo where",
           "  name : String",
           "  fields : List Nat                      -- data members, own and inherited from XMLScanner (ids index fieldNames)",
           "  ctorInit : List Nat                    -- constructor initialiser lists, constructor bodies, commonInit()",
           "  resetAssigned : List Nat               -- assigned in scanReset(const InputSource&) or a same-object method it calls",
           "  resetCalled : List Nat                 -- re-initialised there through reset*/removeAll*/clear*/flush* member calls or element writes",
           "  resetAssignedFromNonConfig : List Nat  -- subset of resetAssigned whose right-hand side reads object state (is not a constant)",
           "  setterAssigned : List Nat              -- assigned by a public set*/cacheGrammarFromParse/useCachedGrammarInParse",
           "  scanAssigned : List Nat                -- assigned by any other method (scanning code, loadGrammar, ...)",
           "  configFields : List Nat                -- reviewed classification (tools/c15_fields.json), restricted to this class",
           "  perParseFields : List Nat",
           "  scratchFields : List Nat",
           "  knownReinitialisedElsewhere : List Nat -- reviewed exceptions with reasons in the JSON file",
           "  knownUnreset : List Nat                -- recorded defects",
           "  knownConfigOverwrite : List Nat        -- recorded defects",
           "", "def fieldNames : List String := [" + ", ".join('"%s"' % n for n in names) + "]", ""]
    cls_names = []
    for cls in sa.DERIVED:
        c = d[cls]
        fields = base["fields"] + c["fields"]
        if len(set(fields)) != len(fields):
            raise TranslateError("ScannerFields: %s redeclares an inherited member" % cls)
        fset = set(fields)
        def lookup(m):
            return c["methods"].get(m) or base["methods"].get(m)
        if "scanReset" not in c["methods"]:
            raise TranslateError("ScannerFields: %s::scanReset(const InputSource&) not found" % cls)
        seen, todo = set(), ["scanReset"]
        A, C, NC = set(), set(), set()
        calls = set()
        while todo:
            m = todo.pop()
            if m in seen:
                continue
            seen.add(m)
            f = lookup(m)
            if not f:
                continue
            A |= set(f["assigned"])
            C |= set(f["touched"])
            for fld, meth in f["called"]:
                if RESET_CALL_RE.match(meth):
                    C.add(fld); calls.add("%s.%s" % (fld, meth))
            for fld, reads in f["rhs"].items():
                if reads:
                    NC.add(fld)
            todo += list(f["selfcalls"])
        closure = seen
        ctor, setter, scan = set(), set(), set()
        for owner in (base, c):
            for m, f in owner["methods"].items():
                if m in ("<ctor>",) or m in sa.INIT_METHODS:
                    ctor |= set(f["assigned"])
                elif m in ("<dtor>",) or m in sa.TEARDOWN or m in closure:
                    continue
                elif sa.SETTER_RE.match(m) and m in owner["public_methods"]:
                    setter |= set(f["assigned"])
                else:
                    scan |= set(f["assigned"])
        else_ = dict(rev["elsewhere"].get("*", {})); else_.update(rev["elsewhere"].get(cls, {}))
        lean = cls
        cls_names.append(lean)
        out.append("-- %s: scanReset closure = %s" % (cls, ", ".join(sorted(closure & (set(c["methods"]) | set(base["methods"]))))))
        out.append("-- %s: reset calls = %s" % (cls, ", ".join(sorted(calls))))
        def L(xs):
            return "[" + ", ".join(str(i) for i in xs) + "]"
        out.append("def %s : ClassInfo where" % lean)
        out.append('  name := "%s"' % cls)
        out.append("  fields := " + L(ids(fields)))
        out.append("  ctorInit := " + L(ids(ctor, fset)))
        out.append("  resetAssigned := " + L(ids(A, fset)))
        out.append("  resetCalled := " + L(ids(C, fset)))
        out.append("  resetAssignedFromNonConfig := " + L(ids(A & NC, fset)))
        out.append("  setterAssigned := " + L(ids(setter, fset)))
        out.append("  scanAssigned := " + L(ids(scan, fset)))
        out.append("  configFields := " + L(ids(rev["config"], fset)))
        out.append("  perParseFields := " + L(ids(rev["perParse"], fset)))
        out.append("  scratchFields := " + L(ids(rev["scratch"], fset)))
        out.append("  knownReinitialisedElsewhere := " + L(ids(else_, fset)))
        out.append("  knownUnreset := " + L(ids(rev.get("knownUnreset", {}), fset)))
        out.append("  knownConfigOverwrite := " + L(ids(rev.get("knownConfigOverwrite", {}).get(cls, {}), fset)))
        out.append("")
    out.append("def classes : List ClassInfo := [" + ", ".join(cls_names) + "]")
    out.append("")
    out.append("/-- scan entry points, and whether each increments fSequenceId (scanDocument: and then calls scanReset) -/")
    out.append("def seqBumpedBy : List (String × Bool) := [" + ", ".join('("%s", %s)' % (n, "true" if b else "false") for n, b in bump) + "]")
    out.append("def fieldId (n : String) : Nat := fieldNames.idxOf n")
    out.append("")
    out.append("end XV.Gen.ScannerFields")
    return "\n".join(out) + "\n"
# ---- C03 (builder) ----


# ------------------------------------------------------------------ C03: normalisation constants
def _body_of_c03(text, qual, rel):
    """body of the function whose definition header contains `qual(` (arguments may contain parentheses)"""
    m = re.search(r"\b%s\s*\(" % re.escape(qual), text)
    while m:
        i = m.end(); depth = 1
        while depth and i < len(text):
            if text[i] == "(": depth += 1
            elif text[i] == ")": depth -= 1
            i += 1
        mm = re.match(r"\s*(?:const\s*)?\{", text[i:])
        if mm:
            j = i + mm.end(); k = j; depth = 1
            while depth and k < len(text):
                if text[k] == "{": depth += 1
                elif text[k] == "}": depth -= 1
                k += 1
            return text[j:k - 1]
        m = re.search(r"\b%s\s*\(" % re.escape(qual), text[i:])
        if m:
            m = re.compile(r"\b%s\s*\(" % re.escape(qual)).search(text, i)
    raise TranslateError("function %s not found in %s" % (qual, rel))

@translate.register("NormConsts")
def gen_norm_consts():
    out = HEADER + "namespace XV.Gen.NormConsts\n\n"
    # attribute type enum
    rel = "framework/XMLAttDef.hpp"
    t = strip_c_comments(src(rel))
    m = re.search(r"enum\s+AttTypes\s*\{(.*?)\}\s*;", t, flags=re.S)
    if not m:
        raise TranslateError("enum AttTypes not found in " + rel)
    vals, nxt = {}, 0
    for item in m.group(1).split(","):
        item = item.strip()
        if not item:
            continue
        mm = re.fullmatch(r"(\w+)(?:\s*=\s*(-?\w+))?", item)
        if not mm:
            raise TranslateError("%s: cannot read enumerator %r" % (rel, item))
        v = int(mm.group(2), 0) if mm.group(2) else nxt
        vals[mm.group(1)] = v
        nxt = v + 1
    order = ["CData", "ID", "IDRef", "IDRefs", "Entity", "Entities", "NmToken", "NmTokens", "Notation", "Enumeration"]
    for nm in order:
        if nm not in vals or vals[nm] < 0:
            raise TranslateError("%s: enumerator %s missing" % (rel, nm))
        out += "def att%s : Nat := %d\n" % (nm, vals[nm])
    out += "\n"
    # characters
    syms = unidefs()
    for nm in ("chCR", "chLF", "chNEL", "chLineSeparator", "chSpace", "chHTab"):
        if nm not in syms:
            raise TranslateError("util/XMLUniDefs.hpp: %s not found" % nm)
        out += "def %s : Nat := %d\n" % (nm, syms[nm])
    out += "\n"
    # escape marker and the shape of the normalisers
    rel = "internal/IGXMLScanner2.cpp"
    s = strip_c_comments(src(rel))
    basic = _body_of_c03(s, "IGXMLScanner::basicAttrValueScan", rel)
    mk = set(re.findall(r"if\s*\(\s*escaped\s*\)\s*toFill\.append\s*\(\s*(0x[0-9A-Fa-f]+)\s*\)", basic))
    if len(mk) != 1:
        raise TranslateError("%s: basicAttrValueScan no longer appends one escape marker when `escaped`: %s" % (rel, sorted(mk)))
    marker = int(mk.pop(), 16)
    nav = _body_of_c03(s, "IGXMLScanner::normalizeAttValue", rel)
    nrv = _body_of_c03(s, "IGXMLScanner::normalizeAttRawValue", rel)
    if not re.search(r"case\s+0x%X\s*:" % marker, nav, flags=re.I) or not re.search(r"nextCh\s*==\s*0x%X" % marker, nav, flags=re.I):
        raise TranslateError("%s: normalizeAttValue no longer tests the escape marker 0x%X in both branches" % (rel, marker))
    if not re.search(r"nextCh\s*==\s*0x%X" % marker, nrv, flags=re.I):
        raise TranslateError("%s: normalizeAttRawValue no longer tests the escape marker 0x%X" % (rel, marker))
    if not re.search(r"type\s*==\s*XMLAttDef::CData\s*\|\|\s*type\s*>\s*XMLAttDef::Enumeration", nav):
        raise TranslateError("%s: normalizeAttValue no longer selects the CDATA branch by `type == CData || type > Enumeration`" % rel)
    if not re.search(r"case\s+0x09\s*:\s*case\s+0x0A\s*:\s*case\s+0x0D\s*:", nav, flags=re.I):
        raise TranslateError("%s: normalizeAttValue CDATA branch no longer maps 0x09/0x0A/0x0D to a space" % rel)
    out += "def escapeMarker : Nat := %d\n\n" % marker
    # reader buffer
    rel = "internal/XMLReader.hpp"
    r = strip_c_comments(src(rel))
    m = re.search(r"kCharBufSize\s*=\s*(\d+)\s*\*\s*(\d+)", r)
    if not m:
        raise TranslateError("%s: kCharBufSize not found" % rel)
    out += "def kCharBufSize : Nat := %d\n" % (int(m.group(1)) * int(m.group(2)))
    # handleEOL still has its three cases
    rel = "internal/XMLReader.cpp"
    h = _body_of_c03(strip_c_comments(src(rel)), "XMLReader::handleEOL", rel)
    for pat, what in ((r"case\s+chCR\s*:", "case chCR"), (r"case\s+chLF\s*:", "case chLF"), (r"case\s+chNEL\s*:\s*case\s+chLineSeparator\s*:", "case chNEL/chLineSeparator"),
                      (r"fCharBuf\s*\[\s*fCharIndex\s*\]\s*==\s*chLF", "look-ahead for LF"), (r"refreshCharBuffer\s*\(\s*\)", "refill before the look-ahead")):
        if not re.search(pat, h):
            raise TranslateError("%s: handleEOL: %s not found" % (rel, what))
    out += "\nend XV.Gen.NormConsts\n"
    return out
# ---- C01 follow-up (builder) ----
# ------------------------------------------------------------------ C01: AbstractDOMParser members that point into a document
@translate.register("DomParserFields")
def gen_dom_parser_fields():
    """Data members of AbstractDOMParser (from the class definition), which of them are raw pointers to DOM node classes
    (= point into the heap of the document being built), and the members assigned by reset() and the same-object methods it
    calls.  Textual and path-insensitive, like C15's ScannerFields (which covers the scanner classes)."""
    rel_h, rel_c = "parsers/AbstractDOMParser.hpp", "parsers/AbstractDOMParser.cpp"
    h = strip_c_comments(src(rel_h)); c = strip_c_comments(src(rel_c))
    m = re.search(r"class\s+PARSERS_EXPORT\s+AbstractDOMParser\b.*?\n\};", h, re.S)
    if not m:
        raise TranslateError("class AbstractDOMParser not found in " + rel_h)
    cls = m.group(0)
    members = []
    for mm in re.finditer(r"^[ \t]*((?:const\s+)?[A-Za-z_][\w:]*(?:\s*<[^;()]*>)?(?:\s*[*&])*)\s+(f[A-Z]\w*)\s*;", cls, re.M):
        ty = re.sub(r"\s+", "", mm.group(1))
        members.append((mm.group(2), ty))
    names = [n for n, _ in members]
    if len(names) != len(set(names)) or len(members) < 15:
        raise TranslateError("AbstractDOMParser data members not recognised (%d found)" % len(members))
    for need in ("fCurrentParent", "fCurrentNode", "fCurrentEntity", "fDocument", "fDocumentType", "fDocumentVector", "fScanner"):
        if need not in names:
            raise TranslateError("AbstractDOMParser member %s not found" % need)
    methods = set(re.findall(r"\bAbstractDOMParser::(\w+)\s*\(", c))
    def closure(start):
        seen, todo, assigned, nulled = [], [start], [], []
        while todo:
            fn = todo.pop()
            if fn in seen:
                continue
            seen.append(fn)
            body = _func_body_c01(c, r"\bvoid\s+AbstractDOMParser::%s\s*\(" % re.escape(fn), rel_c)
            for a in re.findall(r"\b(f[A-Z]\w*)\s*=(?!=)", body):
                if a in names and a not in assigned:
                    assigned.append(a)
            for a in re.findall(r"\b(f[A-Z]\w*)\s*=\s*(?:0|NULL|nullptr)\s*;", body):
                if a in names and a not in nulled:
                    nulled.append(a)
            for callee in re.findall(r"(?<![\w>.:])(?:this->)?(\w+)\s*\(", body):
                if callee in methods and callee not in seen and callee != fn and re.search(r"\bvoid\s+AbstractDOMParser::%s\s*\(" % re.escape(callee), c):
                    todo.append(callee)
        return seen, assigned, nulled
    rseen, rassigned, rnulled = closure("reset")
    _, rd_assigned, _ = closure("resetDocument")
    rd_body = _func_body_c01(c, r"\bvoid\s+AbstractDOMParser::resetDocument\s*\(", rel_c)
    pr_body = _func_body_c01(c, r"\bvoid\s+AbstractDOMParser::parseReset\s*\(", rel_c)
    calls_reset = lambda b: bool(re.search(r"(?<![\w>.:])(?:this->)?reset\s*\(\s*\)", b))
    # every scanner's scanReset(const InputSource&) announces the new document to the document handler
    sites = []
    for cls_name, files in (("IGXMLScanner", ["internal/IGXMLScanner2.cpp"]), ("WFXMLScanner", ["internal/WFXMLScanner.cpp"]),
                            ("DGXMLScanner", ["internal/DGXMLScanner.cpp"]), ("SGXMLScanner", ["internal/SGXMLScanner.cpp"]),
                            ("XSAXMLScanner", ["internal/XSAXMLScanner.cpp"])):
        t = strip_c_comments(src(files[0]))
        body = _func_body_c01(t, r"\bvoid\s+%s::scanReset\s*\(\s*const\s+InputSource" % cls_name, files[0])
        sites.append((cls_name, bool(re.search(r"fDocHandler\s*->\s*resetDocument\s*\(\s*\)", body))))
    out = HEADER + "namespace XV.Gen.DomParserFields\n\n"
    out += "structure Member where\n  name : String\n  type : String\n  docPointer : Bool   -- raw pointer to a DOM node class: points into a document's heap\n  deriving Repr, DecidableEq\n\n"
    out += "-- parsers/AbstractDOMParser.hpp\ndef members : List Member := [\n"
    out += ",\n".join('  ⟨"%s", "%s", %s⟩' % (n, ty.replace('"', ''), "true" if re.fullmatch(r"DOM\w+\*", ty) else "false") for n, ty in members) + "]\n\n"
    out += "-- parsers/AbstractDOMParser.cpp: reset() and the same-object methods it calls; members they assign\n"
    out += "def resetClosure : List String := [%s]\n" % ", ".join('"%s"' % x for x in rseen)
    out += "def assignedInReset : List String := [%s]\n" % ", ".join('"%s"' % x for x in rassigned)
    out += "def assignedNullInReset : List String := [%s]\n" % ", ".join('"%s"' % x for x in rnulled)
    out += "def assignedInResetDocument : List String := [%s]\n" % ", ".join('"%s"' % x for x in rd_assigned)
    out += "def resetDocumentCallsReset : Bool := %s\ndef parseResetCallsReset : Bool := %s\n" % (
        "true" if calls_reset(rd_body) else "false", "true" if calls_reset(pr_body) else "false")
    out += "-- internal/*Scanner*.cpp: does scanReset(const InputSource&) call fDocHandler->resetDocument()?\n"
    out += "def scanResetAnnounces : List (String × Bool) := [%s]\n\n" % ", ".join('("%s", %s)' % (n, "true" if b else "false") for n, b in sites)
    out += "end XV.Gen.DomParserFields\n"
    return out


# ------------------------------------------------------------------ C15: parser-class field / assignment sets
PARSER_SETTER_RE = re.compile(r"^(set\w+|use\w+|install\w+|remove\w+|cacheGrammarFromParse)$")

@translate.register("ParserFields")
def gen_parser_fields():
    """Data members of AbstractDOMParser / XercesDOMParser / DOMLSParserImpl / SAXParser / SAX2XMLReaderImpl and where each is
    assigned (constructor / the reset events resetDocument()+resetDocType() and their same-object callees / public setters / any
    other method) - from the clang AST - plus the hand-reviewed classification tools/c15_parser_fields.json, as Lean data."""
    import scanner_ast as sa
    try:
        d = sa.extract_parsers()
    except sa.AstError as e:
        raise TranslateError("ParserFields: " + str(e))
    rev_path = _os.path.join(_os.path.dirname(_os.path.abspath(__file__)), "c15_parser_fields.json")
    try:
        rev = _json.load(open(rev_path))
    except (OSError, ValueError) as e:
        raise TranslateError("ParserFields: cannot read c15_parser_fields.json: %s" % e)
    base = d["AbstractDOMParser"]
    names = sorted({f for c in d.values() for f in c["fields"]})
    ident = {n: i for i, n in enumerate(names)}
    def ids(xs, universe):
        return sorted({ident[x] for x in xs if x in ident and x in universe})
    def L(xs):
        return "[" + ", ".join(str(i) for i in xs) + "]"
    out = [HEADER.rstrip("\n"),
           "-- from clang++-14 -ast-dump=json over src/xercesc/parsers/{AbstractDOMParser,XercesDOMParser,DOMLSParserImpl,SAXParser,SAX2XMLReaderImpl}.{hpp,cpp}",
           "-- and tools/c15_parser_fields.json",
           "namespace XV.Gen.ParserFields", "",
           "structure PClassInfo where",
           "  name : String",
           "  fields : List Nat              -- data members, own and inherited from AbstractDOMParser (ids index fieldNames)",
           "  ctorInit : List Nat            -- constructor initialiser lists, constructor bodies, initialize()",
           "  resetAssigned : List Nat       -- assigned in resetDocument()/resetDocType() or a same-object method they call",
           "  resetCalled : List Nat         -- re-initialised there through reset*/removeAll*/clear*/flush* member calls",
           "  entryReset : List Nat          -- cleared that way at the start of EVERY parse entry point (parse/parseURI/parseWithContext)",
           "  setterAssigned : List Nat      -- assigned by a public set*/use*/install*/remove*/cacheGrammarFromParse",
           "  otherAssigned : List Nat       -- assigned by any other method (callbacks, parse, ...)",
           "  configFields : List Nat        -- reviewed classification (tools/c15_parser_fields.json), restricted to this class",
           "  perParseFields : List Nat",
           "  scratchFields : List Nat",
           "  knownReinitialisedElsewhere : List Nat",
           "  configWrittenElsewhere : List Nat",
           "", "def fieldNames : List String := [" + ", ".join('"%s"' % n for n in names) + "]", ""]
    cls_names = []
    for cls in ("XercesDOMParser", "DOMLSParserImpl", "SAXParser", "SAX2XMLReaderImpl"):
        c = d[cls]
        isdom = "AbstractDOMParser" in c["bases"]
        owners = ([base] if isdom else []) + [c]
        fields = [f for o in owners for f in o["fields"]]
        if len(set(fields)) != len(fields):
            raise TranslateError("ParserFields: %s redeclares an inherited member" % cls)
        fset = set(fields)
        def lookup(m):
            return c["methods"].get(m) or (base["methods"].get(m) if isdom else None)
        if not lookup("resetDocument"):
            raise TranslateError("ParserFields: %s::resetDocument not found" % cls)
        seen, todo, A, C, calls = set(), ["resetDocument", "resetDocType"], set(), set(), set()
        while todo:
            m = todo.pop()
            if m in seen:
                continue
            seen.add(m)
            f = lookup(m)
            if not f:
                continue
            A |= set(f["assigned"]); C |= set(f["touched"])
            for fld, meth in f["called"]:
                if RESET_CALL_RE.match(meth):
                    C.add(fld); calls.add("%s.%s" % (fld, meth))
            todo += list(f["selfcalls"])
        entry = None
        if cls == "DOMLSParserImpl":
            for m in ("parse", "parseURI", "parseWithContext"):
                f = c["methods"].get(m)
                if not f:
                    raise TranslateError("ParserFields: DOMLSParserImpl::%s not found" % m)
                e = {fld for fld, meth in f["called"] if RESET_CALL_RE.match(meth)}
                entry = e if entry is None else entry & e
        ctor, setter, other = set(), set(), set()
        for o in owners:
            for m, f in o["methods"].items():
                if m in ("<ctor>", "initialize"):
                    ctor |= set(f["assigned"])
                elif m in ("<dtor>", "cleanUp") or m in seen:
                    continue
                elif PARSER_SETTER_RE.match(m) and m in o["public_methods"]:
                    setter |= set(f["assigned"])
                else:
                    other |= set(f["assigned"])
        else_ = dict(rev["elsewhere"].get("*", {})); else_.update(rev["elsewhere"].get(cls, {}))
        cwe = dict(rev["configWrittenElsewhere"].get("*", {})); cwe.update(rev["configWrittenElsewhere"].get(cls, {}))
        cls_names.append(cls)
        out.append("-- %s: reset closure = %s; reset calls = %s" % (cls, ", ".join(sorted(seen)), ", ".join(sorted(calls))))
        out.append("def %s : PClassInfo where" % cls)
        out.append('  name := "%s"' % cls)
        out.append("  fields := " + L(ids(fields, fset)))
        out.append("  ctorInit := " + L(ids(ctor, fset)))
        out.append("  resetAssigned := " + L(ids(A, fset)))
        out.append("  resetCalled := " + L(ids(C, fset)))
        out.append("  entryReset := " + L(ids(entry or [], fset)))
        out.append("  setterAssigned := " + L(ids(setter, fset)))
        out.append("  otherAssigned := " + L(ids(other, fset)))
        out.append("  configFields := " + L(ids(rev["config"], fset)))
        out.append("  perParseFields := " + L(ids(rev["perParse"], fset)))
        out.append("  scratchFields := " + L(ids(rev["scratch"], fset)))
        out.append("  knownReinitialisedElsewhere := " + L(ids(else_, fset)))
        out.append("  configWrittenElsewhere := " + L(ids(cwe, fset)))
        out.append("")
    out.append("def classes : List PClassInfo := [" + ", ".join(cls_names) + "]")
    out.append("def fieldId (n : String) : Nat := fieldNames.idxOf n")
    out.append("")
    out.append("end XV.Gen.ParserFields")
    return "\n".join(out) + "\n"


# ------------------------------------------------------------------ C19: settings copied by XMLScanner::setParseSettings
@translate.register("ScannerCopy")
def gen_scanner_copy():
    """useScanner() / the SAX2 scanner-name property create a new scanner and copy the user's settings with
    XMLScanner::setParseSettings.  Emitted: the setters that function calls (in order) and every public setter-like
    method XMLScanner.hpp declares."""
    relc, relh = "internal/XMLScanner.cpp", "internal/XMLScanner.hpp"
    c = strip_c_comments(src(relc)); h = strip_c_comments(src(relh))
    m = re.search(r"void\s+XMLScanner::setParseSettings\s*\(\s*XMLScanner\s*\*\s*const\s+(\w+)\s*\)\s*\{(.*?)\n\}", c, flags=re.S)
    if not m:
        raise TranslateError("XMLScanner::setParseSettings not found in " + relc)
    ref = m.group(1)
    copied = re.findall(r"^\s*(\w+)\s*\(\s*%s\s*->" % re.escape(ref), m.group(2), flags=re.M)
    if len(copied) < 5:
        raise TranslateError("setParseSettings: copy list not recognised")
    setters = sorted(set(re.findall(r"\bvoid\s+(set[A-Z]\w*|cacheGrammarFromParse|useCachedGrammarInParse)\s*\(", h)))
    if "setDisableDefaultEntityResolution" not in setters or len(setters) < 20:
        raise TranslateError("XMLScanner.hpp: setter declarations not recognised")
    def ll(name, xs):
        return "def %s : List String := [\n%s]\n" % (name, ",\n".join("  " + ", ".join('"%s"' % x for x in xs[k:k + 4]) for k in range(0, len(xs), 4)))
    return HEADER + "namespace XV.Gen.ScannerCopy\n\n" + ll("copied", copied) + "\n" + ll("setters", setters) + "\nend XV.Gen.ScannerCopy\n"
