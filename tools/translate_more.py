"""Further Gen-module generators (one function per module, registered with @translate.register)."""
import re
import translate
from translate import src, array_init, lean_list, strip_c_comments, c_int, TranslateError, HEADER


# ------------------------------------------------------------------ single-byte code pages
BYTE_TABLE_FILES = [("Win1252", "util/XMLWin1252Transcoder.cpp"), ("Ebcdic037", "util/XMLEBCDICTranscoder.cpp"),
                    ("Ibm1047", "util/XMLIBM1047Transcoder.cpp"), ("Ibm1140", "util/XMLIBM1140Transcoder.cpp")]

def _to_table(text, rel):
    t = strip_c_comments(text)
    m = re.search(r"\bgToTable\s*\[\s*\]\s*=\s*\{", t)
    if not m:
        raise TranslateError("gToTable not found in " + rel)
    i = m.end(); depth = 1; j = i
    while depth and j < len(t):
        if t[j] == "{": depth += 1
        elif t[j] == "}": depth -= 1
        j += 1
    body = t[i:j-1]
    recs = re.findall(r"\{\s*([^,{}]+)\s*,\s*([^,{}]+)\s*\}", body)
    if not recs:
        raise TranslateError("no records in gToTable of " + rel)
    leftover = re.sub(r"\{\s*[^,{}]+\s*,\s*[^,{}]+\s*\}", "", body).replace(",", "").strip()
    if leftover:
        raise TranslateError("unparsed text in gToTable of %s: %r" % (rel, leftover[:40]))
    m2 = re.search(r"\bgToTableSz\s*=\s*([^;]+);", t)
    if not m2:
        raise TranslateError("gToTableSz not found in " + rel)
    sz = m2.group(1).strip()
    declared = len(recs) if "sizeof" in sz else c_int(sz)
    return [(c_int(a), c_int(b)) for a, b in recs], declared

@translate.register("ByteTables")
def gen_byte_tables():
    out = HEADER + "namespace XV.Gen.ByteTables\n\n"
    out += "structure Table where\n  name : String\n  fromTable : List Nat\n  toTable : List (Nat × Nat)\n  declaredToSize : Nat\n\n"
    names = []
    for nm, rel in BYTE_TABLE_FILES:
        text = src(rel)
        fr = array_init(text, "gFromTable", rel)
        if len(fr) != 256:
            raise TranslateError("%s gFromTable has %d entries" % (rel, len(fr)))
        to, declared = _to_table(text, rel)
        out += lean_list("from" + nm, fr)
        out += "def to%s : List (Nat × Nat) := [\n" % nm
        out += ",\n".join("  " + ", ".join("(%d, %d)" % p for p in to[k:k+8]) for k in range(0, len(to), 8)) + "]\n"
        out += "def tbl%s : Table := ⟨\"%s\", from%s, to%s, %d⟩\n\n" % (nm, nm, nm, nm, declared)
        names.append("tbl" + nm)
    out += "def all : List Table := [%s]\n\nend XV.Gen.ByteTables\n" % ", ".join(names)
    return out


# ------------------------------------------------------------------ encoding recogniser prefixes
@translate.register("Recognizer")
def gen_recognizer():
    rel = "framework/XMLRecognizer.cpp"
    t = re.sub(r"\(\s*char\s*\)", "", src(rel))
    out = HEADER + "namespace XV.Gen.Recognizer\n\n"
    for nm, ln in (("fgASCIIPre", "fgASCIIPreLen"), ("fgEBCDICPre", "fgEBCDICPreLen"), ("fgUTF16BPre", "fgUTF16PreLen"),
                   ("fgUTF16LPre", "fgUTF16PreLen"), ("fgUCS4BPre", "fgUCS4PreLen"), ("fgUCS4LPre", "fgUCS4PreLen"),
                   ("fgUTF8BOM", "fgUTF8BOMLen")):
        v = array_init(t, nm, rel)
        m = re.search(r"\b%s\s*=\s*(\d+)\s*;" % ln, strip_c_comments(t))
        if not m:
            raise TranslateError("%s not found in %s" % (ln, rel))
        if int(m.group(1)) != len(v):
            raise TranslateError("%s = %s but %s has %d bytes" % (ln, m.group(1), nm, len(v)))
        out += lean_list(nm, v) + "\n"
    h = strip_c_comments(src("framework/XMLRecognizer.hpp"))
    m = re.search(r"enum\s+Encodings\s*\{(.*?)\}", h, re.S)
    if not m:
        raise TranslateError("enum Encodings not found")
    names = []
    for part in m.group(1).split(","):
        part = part.strip()
        mm = re.match(r"(\w+)\s*=\s*(\d+)$", part)
        if mm:
            names.append((mm.group(1), int(mm.group(2))))
    want = ["EBCDIC", "UCS_4B", "UCS_4L", "US_ASCII", "UTF_8", "UTF_16B", "UTF_16L", "XERCES_XMLCH"]
    got = [n for n, v in names if n in want]
    if got != want or [v for n, v in names if n in want] != list(range(8)):
        raise TranslateError("enum Encodings changed: %r" % names)
    out += "end XV.Gen.Recognizer\n"
    return out
