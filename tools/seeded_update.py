#!/usr/bin/env python3
"""seeded_update.py <PID-n> <yes|no> <route text> : update check_result of an archived seeded change"""
import json, sys, os
d = os.path.join(os.path.dirname(os.path.abspath(__file__)), "..", "seeded", sys.argv[1], "meta.json")
m = json.load(open(d))
m["check_result"] = {"caught": sys.argv[2] == "yes", "route": sys.argv[3]}
json.dump(m, open(d, "w"), indent=1)
print(sys.argv[1], m["check_result"])
