"""Extraction of scanner-class facts from the clang AST (used by the `ScannerFields` generator).

For every scanner class: the list of data members (own + inherited from XMLScanner), the members named in
constructor initialiser lists / assigned in constructors and commonInit(), the members assigned or reset through
a member call on every path-insensitive walk of `scanReset(const InputSource&)` and the methods of the same
object it calls (transitively), the members assigned by public setters, and the members assigned by any other
method (scanning code).  Everything comes from `clang++-14 -Xclang -ast-dump=json`; nothing is typed by hand.

Results are cached in .work keyed by the sha256 of the source texts involved, so an edited source re-extracts."""
import hashlib, json, os, re, subprocess
from concurrent.futures import ThreadPoolExecutor
import common

INTERNAL = "internal"
CLASSES = {   # class -> (header, [cpp files])
    "XMLScanner":   ("XMLScanner.hpp",   ["XMLScanner.cpp"]),
    "IGXMLScanner": ("IGXMLScanner.hpp", ["IGXMLScanner.cpp", "IGXMLScanner2.cpp"]),
    "WFXMLScanner": ("WFXMLScanner.hpp", ["WFXMLScanner.cpp"]),
    "DGXMLScanner": ("DGXMLScanner.hpp", ["DGXMLScanner.cpp"]),
    "SGXMLScanner": ("SGXMLScanner.hpp", ["SGXMLScanner.cpp"]),
}
DERIVED = ["IGXMLScanner", "WFXMLScanner", "DGXMLScanner", "SGXMLScanner"]
# a public XMLScanner/derived method counts as a *setter* when its name matches:
SETTER_RE = re.compile(r"^(set[A-Z]\w*|cacheGrammarFromParse|useCachedGrammarInParse|incrementErrorCount)$")
INIT_METHODS = {"commonInit"}
TEARDOWN = {"cleanUp"}

class AstError(Exception):
    pass

def _path(name):
    return os.path.join(common.REPO, "src", "xercesc", INTERNAL, name)

def _cfg_inc():
    for d in (os.path.join(common.BUILD, "src"), "/repo/_build/src"):
        if os.path.exists(os.path.join(d, "xercesc", "util", "Xerces_autoconf_config.hpp")):
            return d
    raise AstError("no configured build tree with Xerces_autoconf_config.hpp")

def _dump(path, filt):
    cmd = ["clang++-14", "-std=gnu++17", "-fsyntax-only", "-I" + os.path.join(common.REPO, "src"), "-I" + _cfg_inc(),
           "-Xclang", "-ast-dump=json", "-Xclang", "-ast-dump-filter=" + filt, path]
    p = subprocess.run(cmd, stdout=subprocess.PIPE, stderr=subprocess.PIPE)
    if p.returncode != 0:
        raise AstError("clang failed on %s: %s" % (path, p.stderr.decode(errors="replace")[-600:]))
    s = p.stdout.decode(errors="replace")
    dec = json.JSONDecoder()
    i, objs = 0, []
    n = len(s)
    while i < n:
        while i < n and s[i].isspace():
            i += 1
        if i >= n:
            break
        o, i = dec.raw_decode(s, i)
        objs.append(o)
    return objs

def _class_of(mangled):
    """second length-prefixed component of an Itanium nested name: _ZN[K]<n>xercesc_x_y<m>Class..."""
    if not mangled:
        return None
    m = re.match(r"^_ZNK?", mangled)
    if not m:
        return None
    i = m.end()
    parts = []
    while len(parts) < 2:
        m2 = re.match(r"\d+", mangled[i:])
        if not m2:
            return None
        n = int(m2.group(0))
        i += m2.end()
        parts.append(mangled[i:i + n])
        i += n
    return parts[1] if parts[0].startswith("xercesc") else None

def _strip(e):
    while e and e.get("kind") in ("ParenExpr", "ImplicitCastExpr", "CStyleCastExpr", "CXXStaticCastExpr",
                                   "ExprWithCleanups", "MaterializeTemporaryExpr", "CXXReinterpretCastExpr",
                                   "CXXConstCastExpr", "CXXFunctionalCastExpr"):
        inner = e.get("inner") or []
        if not inner:
            return e
        e = inner[0]
    return e

def _this_member(e):
    """name of field if e is `this->f` (possibly through casts), else None"""
    e = _strip(e)
    if e and e.get("kind") == "MemberExpr":
        base = _strip((e.get("inner") or [None])[0])
        if base and base.get("kind") == "CXXThisExpr":
            return e.get("name")
    return None

def _root_member(e):
    """field f when e is this->f, this->f[i], *this->f, this->f->x, this->f.x ... (writes into the member's object)"""
    e = _strip(e)
    while e:
        f = _this_member(e)
        if f:
            return f
        k = e.get("kind")
        if k in ("ArraySubscriptExpr", "MemberExpr", "UnaryOperator"):
            e = _strip((e.get("inner") or [None])[0])
        else:
            return None
    return None

def _walk(node, facts):
    k = node.get("kind")
    inner = node.get("inner") or []
    if k in ("BinaryOperator", "CompoundAssignOperator") and (node.get("opcode", "").endswith("=") and node.get("opcode") not in ("==", "!=", "<=", ">=")):
        f = _this_member(inner[0]) if inner else None
        if f:
            facts["assigned"].add(f)
            rhs = inner[1] if len(inner) > 1 else None
            facts["rhs"].setdefault(f, set()).update(_reads(rhs))
        else:
            r = _root_member(inner[0]) if inner else None
            if r:
                facts["touched"].add(r)
    elif k == "UnaryOperator" and node.get("opcode") in ("++", "--"):
        f = _this_member(inner[0]) if inner else None
        if f:
            facts["assigned"].add(f)
            facts["rhs"].setdefault(f, set()).add(f)
    elif k == "CXXOperatorCallExpr" and len(inner) >= 2:
        callee = _strip(inner[0])
        if callee and callee.get("kind") == "DeclRefExpr" and (callee.get("referencedDecl") or {}).get("name") == "operator=":
            f = _this_member(inner[1])
            if f:
                facts["assigned"].add(f)
    elif k == "CXXMemberCallExpr" and inner:
        callee = _strip(inner[0])
        if callee and callee.get("kind") == "MemberExpr":
            obj = _strip((callee.get("inner") or [None])[0])
            mname = callee.get("name")
            if obj and obj.get("kind") == "CXXThisExpr":
                facts["selfcalls"].add(mname)
            else:
                f = _this_member(obj)
                if f:
                    facts["called"].add((f, mname))
    elif k == "CXXDeleteExpr":
        pass
    for c in inner:
        if isinstance(c, dict):
            _walk(c, facts)

def _reads(node):
    out = set()
    def go(n):
        if not isinstance(n, dict):
            return
        f = _this_member(n) if n.get("kind") == "MemberExpr" else None
        if f:
            out.add(f)
        for c in n.get("inner") or []:
            go(c)
    go(node)
    return out

def _new_facts():
    return {"assigned": set(), "touched": set(), "called": set(), "selfcalls": set(), "rhs": {}}

def _method_facts(o):
    facts = _new_facts()
    for c in o.get("inner") or []:
        if c.get("kind") == "CXXCtorInitializer":
            fd = c.get("anyInit")
            if fd and fd.get("kind") == "FieldDecl":
                facts["assigned"].add(fd.get("name"))
        elif c.get("kind") in ("CompoundStmt", "CXXTryStmt"):
            _walk(c, facts)
    return facts

def _has_body(o):
    return any(c.get("kind") in ("CompoundStmt", "CXXTryStmt") for c in o.get("inner") or [])

def _extract_class(cls, spec=None):
    if spec is None:
        hdr, cpps = CLASSES[cls]
        sub = INTERNAL
    else:
        sub, hdr, cpps = spec
    _p = lambda name: os.path.join(common.REPO, "src", "xercesc", sub, name)
    res = {"fields": [], "types": {}, "public_methods": set(), "methods": {}}
    objs = _dump(_p(hdr), cls)
    rec = [o for o in objs if o.get("kind") == "CXXRecordDecl" and o.get("name") == cls and o.get("completeDefinition")]
    if len(rec) != 1:
        raise AstError("class %s: expected one complete definition, found %d" % (cls, len(rec)))
    access = "private"
    for x in rec[0].get("inner") or []:
        k = x.get("kind")
        if k == "AccessSpecDecl":
            access = x.get("access")
        elif k == "FieldDecl":
            res["fields"].append(x["name"])
            res["types"][x["name"]] = (x.get("type") or {}).get("qualType", "?")
        elif k in ("CXXMethodDecl",) and access == "public":
            res["public_methods"].add(x.get("name"))
    res["bases"] = [b["type"]["qualType"].split("::")[-1] for b in rec[0].get("bases") or []]
    if not res["fields"]:
        raise AstError("class %s: no data members found" % cls)
    def add_methods(objs):
        for o in objs:
            if o.get("kind") not in ("CXXMethodDecl", "CXXConstructorDecl", "CXXDestructorDecl"):
                continue
            if not _has_body(o) or _class_of(o.get("mangledName")) != cls:
                continue
            nm = o.get("name")
            if o.get("kind") == "CXXConstructorDecl":
                nm = "<ctor>"
            elif o.get("kind") == "CXXDestructorDecl":
                nm = "<dtor>"
            sig = (o.get("type") or {}).get("qualType", "")
            key = nm if nm != "scanReset" else ("scanReset(token)" if "XMLPScanToken" in sig else "scanReset")
            f = _method_facts(o)
            if key in res["methods"]:      # overloads / several constructors: union
                g = res["methods"][key]
                for kk in ("assigned", "touched", "called", "selfcalls"):
                    g[kk] |= f[kk]
                for a, b in f["rhs"].items():
                    g["rhs"].setdefault(a, set()).update(b)
            else:
                res["methods"][key] = f
    add_methods(objs)                       # inline definitions in the header
    for cpp in cpps:
        add_methods(_dump(_p(cpp), cls + "::"))
    return res

def _ser(x):
    if isinstance(x, set):
        return sorted(_ser(i) for i in x)
    if isinstance(x, tuple):
        return list(x)
    if isinstance(x, dict):
        return {k: _ser(v) for k, v in x.items()}
    if isinstance(x, list):
        return [_ser(i) for i in x]
    return x

PARSER_CLASSES = {   # class -> (directory, header, [cpp files])
    "AbstractDOMParser": ("parsers", "AbstractDOMParser.hpp", ["AbstractDOMParser.cpp"]),
    "XercesDOMParser":   ("parsers", "XercesDOMParser.hpp",   ["XercesDOMParser.cpp"]),
    "DOMLSParserImpl":   ("parsers", "DOMLSParserImpl.hpp",   ["DOMLSParserImpl.cpp"]),
    "SAXParser":         ("parsers", "SAXParser.hpp",         ["SAXParser.cpp"]),
    "SAX2XMLReaderImpl": ("parsers", "SAX2XMLReaderImpl.hpp", ["SAX2XMLReaderImpl.cpp"]),
}

def extract_group(tag, classes):
    """-> dict class -> {fields, types, bases, public_methods, methods{name -> {assigned, touched, called, selfcalls, rhs}}} (JSON-able),
    cached in .work keyed by the sha256 of the sources involved"""
    h = hashlib.sha256()
    h.update(open(os.path.abspath(__file__), "rb").read())
    for cls, (sub, hdr, cpps) in sorted(classes.items()):
        for f in [hdr] + cpps:
            try:
                h.update(open(os.path.join(common.REPO, "src", "xercesc", sub, f), "rb").read())
            except OSError as e:
                raise AstError("cannot read %s: %s" % (f, e))
    key = h.hexdigest()[:24]
    cdir = os.path.join(common.WORK, "astcache")
    os.makedirs(cdir, exist_ok=True)
    cpath = os.path.join(cdir, "%s-%s.json" % (tag, key))
    if os.path.exists(cpath):
        try:
            return json.load(open(cpath))
        except ValueError:
            pass
    names = list(classes)
    with ThreadPoolExecutor(max_workers=5) as ex:
        rs = list(ex.map(lambda c: _extract_class(c, classes[c]), names))
    out = {c: _ser(r) for c, r in zip(names, rs)}
    tmp = cpath + ".%d" % os.getpid()
    with open(tmp, "w") as f:
        json.dump(out, f)
    os.replace(tmp, cpath)
    return out

def extract_parsers():
    return extract_group("parser", PARSER_CLASSES)

def extract():
    """the scanner classes"""
    return extract_group("scanner", {c: (INTERNAL, hdr, cpps) for c, (hdr, cpps) in CLASSES.items()})
