#!/usr/bin/env python3
"""Entry point of every MANIFEST command:  check.py Cxx --tier quick|thorough | --replay <path>

Life-cycle (DESIGN.md 2.2): build /repo's working tree -> translate -> re-check theorems ->
axiom audit -> correspondence (model driver vs real library) -> on any break, search for a concrete
failing input judged by the executable Spec -> evidence -> exit code."""
import argparse, importlib, json, os, re, sys, time, traceback
sys.path.insert(0, os.path.dirname(os.path.abspath(__file__)))
import common
from common import log, VERIF, LEAN
import translate
try:
    import translate_more  # noqa: F401
except ImportError:
    pass

class Ctx:
    def __init__(self, pid, tier, seed):
        self.pid, self.tier, self.seed = pid, tier, seed
        self.rng = common.SplitMix(seed * 1000003 + int(pid[1:]))
        self.violations = []     # dicts: key, what, replay(obj), concrete(bool)
        self.stats = {}
        self.samples = []
        self.notes = []
    def thorough(self):
        return self.tier == "thorough"

def theorem_at(lean_file, line_no):
    """name of the theorem/def enclosing a line of a Lean file"""
    name = None
    try:
        for i, l in enumerate(open(lean_file), 1):
            m = re.match(r"\s*(?:@\[[^\]]*\]\s*)?(?:private\s+|protected\s+)?(theorem|lemma|def|example|instance)\s+([^\s:({\[]+)?", l)
            if m:
                name = m.group(2) or "example@%d" % i
            if i >= line_no:
                break
    except OSError:
        pass
    return name

def failing_theorems(out):
    res = []
    for m in re.finditer(r"error: (?:\S*?)(XV/[\w/]+\.lean):(\d+):(\d+): (.*)", out):
        f, ln = m.group(1), int(m.group(2))
        res.append({"file": f, "line": ln, "theorem": theorem_at(os.path.join(LEAN, f), ln),
                    "message": m.group(4)[:300]})
    return res

def replay_path(pid, tag):
    d = os.path.join(common.WORK, "replay")
    os.makedirs(d, exist_ok=True)
    return os.path.join(d, "%s-%s.json" % (pid, tag))

def main():
    ap = argparse.ArgumentParser()
    ap.add_argument("pid")
    ap.add_argument("--tier", default=os.environ.get("VERIF_TIER", "quick"), choices=["quick", "thorough"])
    ap.add_argument("--replay")
    a = ap.parse_args()
    seed = int(os.environ.get("VERIF_SEED", "1"))
    pid = a.pid
    mod = importlib.import_module("props." + pid.lower())
    ctx = Ctx(pid, a.tier, seed)
    t0 = time.time()
    try:
        rc = run_check(ctx, mod, a.replay)
    except common.InfraError as e:
        print("INFRA-ERROR %s: %s" % (pid, e))
        sys.exit(2)
    sys.exit(rc)

def run_check(ctx, mod, replay):
    t0 = time.time()
    pid = ctx.pid
    broken = []   # proof obligations / ties that no longer check
    common.build_lib()
    # -- translate
    terrs = translate.translate(set(mod.GEN))
    for k, v in terrs.items():
        broken.append({"kind": "translator", "name": k, "detail": v})
    # -- driver (model side) must build for anything else to work
    ok, out = common.lake_build(["xvdriver"])
    if not ok:
        if terrs:
            # model cannot be regenerated from the changed source
            pass
        else:
            bt = failing_theorems(out)
            gen_related = any("Gen" in b["file"] for b in bt) or "XV/Gen" in out
            if not gen_related:
                raise common.InfraError("driver does not build:\n" + out[-3000:])
            broken.append({"kind": "translator", "name": "generated model does not compile", "detail": out[-1500:]})
    driver_ok = ok
    if replay:
        return mod.replay(ctx, replay)
    # -- theorems
    obligations = list(mod.THEOREMS)
    discharged = 0
    axioms = {}
    pok, pout = common.lake_build([mod.LEAN_MODULE])
    if pok:
        axioms, aout = common.audit_axioms(mod.LEAN_MODULE, obligations)
        for t in obligations:
            ax = axioms.get(t)
            if ax is None:
                broken.append({"kind": "theorem", "name": t, "detail": "theorem missing from " + mod.LEAN_MODULE})
            elif not set(ax) <= common.ALLOWED_AXIOMS:
                broken.append({"kind": "axiom", "name": t, "detail": "depends on " + ", ".join(ax)})
            else:
                discharged += 1
    else:
        fts = failing_theorems(pout)
        if not fts:
            fts = [{"file": "?", "line": 0, "theorem": None, "message": pout[-600:]}]
        for ft in fts:
            broken.append({"kind": "theorem", "name": ft["theorem"] or "?", "file": ft["file"], "line": ft["line"],
                           "detail": ft["message"]})
    hits = common.grep_forbidden()
    for h in hits:
        broken.append({"kind": "forbidden", "name": h, "detail": "forbidden construct in Lean sources"})
    if ctx.thorough() and pok:
        with common.Lock("lake"):
            p = common.run(["lake", "env", "leanchecker", mod.LEAN_MODULE], cwd=LEAN, timeout=3000)
        ctx.stats["leanchecker_rc"] = p.returncode
        if p.returncode != 0:
            broken.append({"kind": "leanchecker", "name": mod.LEAN_MODULE,
                           "detail": (p.stdout + p.stderr).decode(errors="replace")[-500:]})
    # -- correspondence
    if driver_ok:
        mod.correspondence(ctx)      # appends to ctx.violations (concrete or not)
    # -- broken obligations: search for a concrete failing input
    unexplained = []
    for b in broken:
        found = None
        try:
            found = mod.search(ctx, b) if driver_ok or b["kind"] == "translator" else None
        except common.InfraError:
            raise
        except Exception as e:   # search trouble must not hide the broken obligation
            ctx.notes.append("search error: %r" % e)
            log(traceback.format_exc())
        if found:
            found.setdefault("replay", {})["broken_obligation"] = b
            ctx.violations.append(found)
        else:
            unexplained.append(b)
    if unexplained:
        _known = {f["key"] for f in common.load_findings() if f.get("property") == pid and f.get("status") == "open"}
        # a known finding was already there before the obligation broke: it explains nothing
        have_concrete = any(v.get("concrete") and v["key"] not in _known for v in ctx.violations)
        names = ", ".join("%s %s" % (b["kind"], b["name"]) for b in unexplained)
        if not have_concrete:
            ctx.violations.append({"key": "broken:" + common.sha(names), "concrete": False,
                                   "what": "no longer checks: %s (%s)" % (names, unexplained[0]["detail"][:300]),
                                   "replay": {"broken": unexplained}})
        else:
            ctx.notes.append("also broken (explained by the concrete violation above): " + names)
    # -- known findings
    known = {f["key"]: f for f in common.load_findings() if f.get("property") == pid and f.get("status") == "open"}
    nviol = 0
    seen = set()
    lines = []
    for v in ctx.violations:
        if v["key"] in seen:
            continue
        seen.add(v["key"])
        if v["key"] in known and v.get("concrete"):
            lines.append("KNOWN-FINDING: property=%s %s" % (pid, known[v["key"]]["what"]))
            continue
        nviol += 1
        path = replay_path(pid, common.sha(v["key"]))
        with open(path, "w") as f:
            json.dump({"property": pid, "key": v["key"], "what": v["what"], "concrete": bool(v.get("concrete")),
                       "seed": ctx.seed, "tier": ctx.tier, "replay": v["replay"]}, f, indent=1)
        tail = "" if v.get("concrete") else " no-failing-input-found"
        lines.append("VIOLATION property=%s replay=%s%s" % (pid, path, tail))
        log("violation:", v["what"][:400])
    wall = time.time() - t0
    cov = {"obligations": len(obligations), "discharged": discharged,
           "checker_cmd": "cd lean && lake build %s && lake env lean <#print axioms of each theorem>%s" % (
               mod.LEAN_MODULE, " && lake env leanchecker " + mod.LEAN_MODULE if ctx.thorough() else ""),
           "trusted_base": ["Lean 4.33.0 kernel", "axioms: " + ", ".join(sorted({a for v in axioms.values() if v for a in v}) or ["none"]),
                            "tools/translate.py (tables regenerated from /repo sources; read back through the library API)",
                            "correspondence harness + generators (harness/, tools/props/%s.py)" % pid.lower()] + list(getattr(mod, "TRUSTED", [])),
           "theorems": {t: axioms.get(t) for t in obligations},
           "broken": broken,
           "samples": ctx.samples[:12] or ["(no correspondence cases ran)"],
           "rule": getattr(mod, "RULE", ""),
           "evaluations": int(ctx.stats.get("evaluations", 0)),
           "distinct_nontrivial": int(ctx.stats.get("distinct_nontrivial", 0)),
           "exhaustive": bool(ctx.stats.get("exhaustive", False)),
           "stats": ctx.stats, "notes": ctx.notes}
    common.write_evidence(pid, ctx.tier, ctx.seed, cov, list(getattr(mod, "ASSUMPTIONS", [])), wall, nviol)
    for l in lines:
        print(l)
    print("%s %s: theorems %d/%d, correspondence %s cases, %d violation(s), %.1fs" % (
        pid, ctx.tier, discharged, len(obligations), ctx.stats.get("evaluations", 0), nviol, wall))
    return 1 if nviol else 0

if __name__ == "__main__":
    main()
