"""C16 per-class op-list translator: Gen/SerializeOps.lean.

For every `X::serialize(XSerializeEngine&)` in /repo/src, every static helper pair `storeNAME/loadNAME(.. XSerializeEngine& ..)`
and every `XTemplateSerializer::storeObject/loadObject` overload pair, the body is parsed (brace matching + a small
statement parser: blocks, if/else chains, switch, for/while, return) and projected twice: the operations executed when
`serEng.isStoring()` and those executed when loading.  Conditionals and loops are kept as structure.

Operation atoms:  prim T (`<<`/`>>` with T from a cast, a local declaration, the member's declared type, a constant's
declaration; unknown -> unk#id of the expression text), size/int64/uint64, str/strL (writeString/readString without /
with buffer length), raw, obj C (pointer to serialisable class C), tmpl K (XTemplateSerializer on container type K),
call H (paired helper storeH/loadH), base C (`C::serialize(serEng)`), member C (`fX.serialize` / `fX->serialize`),
tmplTag (needToStoreObject/needToLoadObject).

Normalisations (all here, none in the Lean `Symmetric`):
  N1 statements without an engine operation are dropped (assignments, allocations, deletes, setXXX/derived values,
     getContentModel(), registerObject, ...); a conditional or loop without engine operations disappears.
  N2 an `if` whose explicit branches all end in `return` and that has no `else` takes the rest of the block as its else branch.
  N3 a load-only helper without a store counterpart (XMLNumber::loadNumber) is inlined at its call site.
  N4 `Base::serialize(serEng)` is kept as `base` in the per-class lists and inlined in the `flat` lists that the theorem
     uses for instantiable classes (abstract classes may rely on their derivatives, e.g. the number-type word that
     Decimal/Double/Float/DateTime validators write and AbstractNumericFacetValidator reads).
A body that cannot be parsed, or a statement that mentions the engine but matches no pattern, makes the method *uncovered*:
it is listed in the evidence and `all_classes_symmetric` fails for it (it is emitted with an `unparsed` atom on one side only).
"""
import glob, os, re
import translate
import common
from translate import strip_c_comments, TranslateError, HEADER

PRIMS = {"XMLByte": "byte", "XMLCh": "xmlch", "char": "char", "short": "short", "int": "int", "unsigned int": "uint",
         "long": "long", "unsigned long": "ulong", "float": "float", "double": "double", "bool": "bool",
         "unsigned short": "ushort?", "XMLSize_t": "ulong", "XMLFileLoc": "ulong", "XMLFilePos": "ulong",
         "XMLInt32": "int", "XMLUInt32": "uint", "XMLInt64": "long", "XMLUInt64": "ulong",
         "XSerializeEngine::XSerializedObjectId_t": "uint", "XSerializedObjectId_t": "uint"}
PRIM_IDS = ["byte", "xmlch", "char", "short", "int", "uint", "long", "ulong", "float", "double", "bool"]

class Uncovered(Exception):
    pass

# ------------------------------------------------------------------------------------------------ corpus
class Corpus:
    def __init__(self):
        self.files = {}
        root = os.path.join(common.REPO, "src", "xercesc")
        for pat in ("**/*.cpp", "**/*.hpp", "**/*.c"):
            for f in glob.glob(os.path.join(root, pat), recursive=True):
                try:
                    t = open(f, encoding="latin-1").read()
                except OSError:
                    continue
                self.files[os.path.relpath(f, root)] = preprocess(strip_c_comments(t))
        if not self.files:
            raise TranslateError("no sources under " + root)
        self.all_hpp = "\n".join(t for f, t in sorted(self.files.items()) if f.endswith(".hpp"))
        self.all_text = "\n".join(t for f, t in sorted(self.files.items()))
        self._classes = {}
        self._enum_names = None
        self._enumerators = None
        self._class_index = None
        self._const = {}

    def class_info(self, name):
        """(bases, members{name: type}) of class `name` from its definition in a header (or .cpp)."""
        if name in self._classes:
            return self._classes[name]
        info = ([], {})
        if self._class_index is None:
            self._class_index = {}
            for mm in re.finditer(r"\b(?:class|struct)\s+(?:\w+_EXPORT\s+)?(\w+)\s*(?:final\s*)?(:[^{;]*)?\{", self.all_text):
                self._class_index.setdefault(mm.group(1), mm)
        m = self._class_index.get(name)
        if m:
            bases = []
            if m.group(2):
                for b in m.group(2)[1:].split(","):
                    b = re.sub(r"\b(public|protected|private|virtual)\b", "", b).strip()
                    if b:
                        bases.append(b)
            i = m.end() - 1
            j = match_brace(self.all_text, i)
            body = self.all_text[i + 1:j]
            info = (bases, parse_members(body))
        self._classes[name] = info
        return info

    def member_type(self, cls, member):
        seen = set()
        todo = [cls]
        while todo:
            c = todo.pop(0)
            if c in seen:
                continue
            seen.add(c)
            bases, mem = self.class_info(c)
            if member in mem:
                return mem[member]
            todo += bases
        return None

    def ancestors(self, cls):
        out, todo = [], list(self.class_info(cls)[0])
        while todo:
            c = todo.pop(0)
            if c not in out:
                out.append(c)
                todo += self.class_info(c)[0]
        return out

    def is_enum_type(self, ty):
        if self._enum_names is None:
            self._enum_names = set(re.findall(r"\benum\s+(\w+)\s*\{", self.all_text))
        return ty.split("::")[-1] in self._enum_names

    def is_enumerator(self, name):
        if self._enumerators is None:
            s = set()
            for m in re.finditer(r"\benum\s*\w*\s*\{([^}]*)\}", self.all_text):
                for e in m.group(1).split(","):
                    e = e.split("=")[0].strip()
                    if e:
                        s.add(e)
            self._enumerators = s
        return name.split("::")[-1] in self._enumerators

    def const_type(self, name):
        if name not in self._const:
            self._const[name] = self._const_type(name)
        return self._const[name]

    def _const_type(self, name):
        nm = name.split("::")[-1]
        m = re.search(r"\b(?:static\s+)?const\s+([\w\s:]+?)\s+(?:\w+::)?%s\s*=" % re.escape(nm), self.all_text)
        if m:
            return " ".join(m.group(1).split())
        m = re.search(r"\bstatic\s+const\s+([\w\s:]+?)\s+%s\s*;" % re.escape(nm), self.all_text)
        if m:
            return " ".join(m.group(1).split())
        return None

def preprocess(t):
    """drop preprocessor lines; of #if/#ifdef..#else..#endif keep the branch taken when no project macro is defined
    (`#ifndef`/`#if !defined` guards keep their body)"""
    out = []
    stack = []   # each: [keeping_now, parent_keeping, seen_else]
    for line in t.split("\n"):
        s = line.strip()
        if s.startswith("#"):
            d = s[1:].strip()
            keep_parent = all(x[0] for x in stack)
            if d.startswith("ifndef") or re.match(r"if\s*!\s*defined", d):
                stack.append([True, keep_parent])
            elif d.startswith("ifdef") or d.startswith("if"):
                stack.append([bool(re.match(r"if\s+1\b", d)), keep_parent])
            elif d.startswith("else"):
                if stack:
                    stack[-1][0] = not stack[-1][0]
            elif d.startswith("elif"):
                if stack:
                    stack[-1][0] = False
            elif d.startswith("endif"):
                if stack:
                    stack.pop()
            # continuation lines of #define
            out.append("")
            continue
        out.append(line if all(x[0] for x in stack) else "")
    # remove bodies of multi-line #define (lines ending in backslash after a #define were already blanked only for
    # the first line): blank any line that ends with a backslash or follows one
    res, cont = [], False
    src_lines = t.split("\n")
    for k, line in enumerate(out):
        raw = src_lines[k]
        if cont or raw.strip().startswith("#"):
            cont = raw.rstrip().endswith("\\")
            res.append("")
            continue
        res.append(line)
    return "\n".join(res)

def match_brace(t, i, open_="{", close="}"):
    d, j, n = 0, i, len(t)
    while j < n:
        c = t[j]
        if c == open_:
            d += 1
        elif c == close:
            d -= 1
            if d == 0:
                return j
        elif c == '"' or c == "'":
            q = c
            j += 1
            while j < n and t[j] != q:
                if t[j] == "\\":
                    j += 1
                j += 1
        j += 1
    raise Uncovered("unbalanced %s" % open_)

def split_top(text, sep=";", angle=False):
    """split at `sep` outside of (), {}, []; with angle=True also outside <> (parameter lists, template types)"""
    parts, d, cur, i, n = [], 0, [], 0, len(text)
    while i < n:
        c = text[i]
        if c in "({[" or (angle and c == "<"):
            d += 1
        elif c in ")}]" or (angle and c == ">"):
            d -= 1
        elif c == '"' or c == "'":
            q = c
            cur.append(c)
            i += 1
            while i < n and text[i] != q:
                if text[i] == "\\":
                    cur.append(text[i]); i += 1
                cur.append(text[i]); i += 1
        if c == sep and d == 0:
            parts.append("".join(cur)); cur = []
        else:
            cur.append(c)
        i += 1
    parts.append("".join(cur))
    return parts

def norm_type(t):
    t = re.sub(r"\b(const|mutable|static|volatile|inline|register)\b", " ", t)
    t = t.replace("&", " ")
    t = re.sub(r"\s+", " ", t).strip()
    t = re.sub(r"\s*\*\s*", "*", t)
    t = re.sub(r"\s*<\s*", "<", t); t = re.sub(r"\s*>\s*", ">", t); t = re.sub(r"\s*,\s*", ",", t)
    return t

def parse_members(body):
    """member declarations at depth 0 of a class body"""
    # blank nested braces (inline function bodies, nested classes/enums)
    flat, d = [], 0
    i, n = 0, len(body)
    while i < n:
        c = body[i]
        if c == "{":
            d += 1
        elif c == "}":
            d -= 1
            if d == 0:
                flat.append(";")
            i += 1
            continue
        if d == 0:
            flat.append(c)
        i += 1
    mem = {}
    for st in "".join(flat).split(";"):
        st = re.sub(r"\b(public|private|protected)\s*:", " ", st).strip()
        if not st or "(" in st or st.startswith(("friend", "typedef", "using", "enum", "class", "struct")):
            continue
        m = re.match(r"^(.*?[\s\*&>])(\w+)\s*(\[[^\]]*\])?\s*(?:=.*)?$", st, re.S)
        if not m:
            continue
        ty, nm = norm_type(m.group(1)), m.group(2)
        if ty:
            mem[nm] = ty
    return mem

# ------------------------------------------------------------------------------------------------ statement parser
def skip_ws(t, i):
    n = len(t)
    while i < n and t[i].isspace():
        i += 1
    return i

def parse_stmt(t, i):
    """returns (stmt, next_index); stmt is a tuple"""
    i = skip_ws(t, i)
    n = len(t)
    if i >= n:
        return None, i
    if t[i] == "{":
        j = match_brace(t, i)
        return ("block", parse_block(t[i + 1:j])), j + 1
    if t[i] == ";":
        return ("empty",), i + 1
    m = re.match(r"(if|for|while|switch)\b\s*\(", t[i:])
    if m:
        kw = m.group(1)
        p = i + m.end() - 1
        q = match_brace(t, p, "(", ")")
        head = t[p + 1:q]
        if kw == "switch":
            k = skip_ws(t, q + 1)
            if t[k] != "{":
                raise Uncovered("switch without block")
            e = match_brace(t, k)
            return ("switch", head, parse_cases(t[k + 1:e])), e + 1
        body, k = parse_stmt(t, q + 1)
        if kw == "if":
            k2 = skip_ws(t, k)
            if re.match(r"else\b", t[k2:]):
                els, k3 = parse_stmt(t, k2 + 4)
                return ("if", head, body, els), k3
            return ("if", head, body, None), k
        return ("loop", head, body), k
    if re.match(r"do\b", t[i:]):
        raise Uncovered("do-while")
    if re.match(r"(try|catch|goto)\b", t[i:]):
        raise Uncovered("try/catch/goto")
    # simple statement up to ';' at depth 0
    d, j = 0, i
    while j < n:
        c = t[j]
        if c in "({[":
            d += 1
        elif c in ")}]":
            d -= 1
        elif c == '"' or c == "'":
            q = c
            j += 1
            while j < n and t[j] != q:
                if t[j] == "\\":
                    j += 1
                j += 1
        elif c == ";" and d == 0:
            break
        j += 1
    text = " ".join(t[i:j].split())
    if re.match(r"return\b", text):
        return ("return", text[6:].strip()), j + 1
    if re.match(r"break\b", text):
        return ("break",), j + 1
    if re.match(r"continue\b", text):
        raise Uncovered("continue")
    return ("stmt", text), j + 1

def parse_block(t):
    out, i = [], 0
    while True:
        s, i = parse_stmt(t, i)
        if s is None:
            break
        out.append(s)
    return out

def parse_cases(t):
    """list of statement lists, one per group of consecutive labels; `break` terminates a case"""
    # find labels at depth 0
    labels, d, i, n = [], 0, 0, len(t)
    while i < n:
        c = t[i]
        if c in "({[":
            d += 1
        elif c in ")}]":
            d -= 1
        elif d == 0:
            m = re.match(r"(case\b(?:[^:]|::)*?:(?!:)|default\s*:)", t[i:])
            if m and (i == 0 or not (t[i - 1].isalnum() or t[i - 1] == "_")):
                labels.append((i, i + m.end()))
                i += m.end()
                continue
        i += 1
    if not labels:
        raise Uncovered("switch without labels")
    cases = []
    for k, (a, b) in enumerate(labels):
        end = labels[k + 1][0] if k + 1 < len(labels) else n
        cases.append(parse_block(t[b:end]))
    # fall-through: a case whose statements do not end in break/return continues into the next
    res = []
    for k in range(len(cases)):
        body, j = [], k
        while j < len(cases):
            body += cases[j]
            if body and body[-1][0] in ("break", "return"):
                break
            j += 1
        res.append([s for s in body if s[0] != "break"])
    return res

def chain_all_return(s):
    """if / else-if chain without a final else whose explicit branches all end in return"""
    if s[0] != "if" or not always_returns(s[2]):
        return False
    if s[3] is None:
        return True
    return s[3][0] == "if" and chain_all_return(s[3])

def attach_rest(s, rest):
    if s[3] is None:
        return ("if", s[1], s[2], rest)
    return ("if", s[1], s[2], attach_rest(s[3], rest))

def always_returns(s):
    if s is None:
        return False
    k = s[0]
    if k == "return":
        return True
    if k == "block":
        return bool(s[1]) and always_returns(s[1][-1])
    if k == "if":
        return s[3] is not None and always_returns(s[2]) and always_returns(s[3])
    return False

# ------------------------------------------------------------------------------------------------ op extraction
class Ctx:
    def __init__(self, corpus, cls, eng, body, names):
        self.corpus, self.cls, self.eng, self.body, self.names = corpus, cls, eng, body, names
        self.params = {}

    def local_type(self, name):
        if name in self.params:
            return self.params[name]
        m = re.search(r"(?:^|[;{}(:)])\s*((?:const\s+)?(?:unsigned\s+)?[\w:]+(?:\s*<[^;=()]*>)?)\s*((?:(?:[\*&]|const)\s*)*)\b%s\s*(?:=|;|\[)" % re.escape(name), self.body)
        if m:
            ty = norm_type(m.group(1) + m.group(2))
            if ty not in ("return", "delete", "else", "case", "new"):
                return ty
        return None

def expr_prim_type(ctx, expr):
    """type atom for an expression streamed with << or >>: ('prim', id) | ('obj', cls) | ('unk', text)"""
    e = expr.strip()
    while e.startswith("(") and match_brace(e, 0, "(", ")") == len(e) - 1 and not re.match(r"\(\s*(?:const\s+)?(?:unsigned\s+)?[\w:]+\s*[\*&]*\s*\)", e):
        e = e[1:-1].strip()
    m = re.match(r"\(\s*((?:const\s+)?(?:unsigned\s+)?[\w:]+(?:\s*<[^()]*>)?\s*[\*&]*)\s*\)\s*(.+)$", e)
    if m:
        return type_atom(ctx, norm_type(m.group(1)), e)
    m = re.match(r"^(\w+)\s*(\[[^\]]*\])?$", e)
    if m:
        nm = m.group(1)
        ty = ctx.local_type(nm) or ctx.corpus.member_type(ctx.cls, nm) if ctx.cls else ctx.local_type(nm)
        if ty is None and ctx.cls:
            ty = ctx.corpus.member_type(ctx.cls, nm)
        if ty is None:
            ty = ctx.corpus.const_type(nm)
        if ty is None and ctx.corpus.is_enumerator(nm):
            return ("prim", "int")
        if ty is not None:
            return type_atom(ctx, ty, e)
    m = re.match(r"^([\w:]+)$", e)
    if m:
        ty = ctx.corpus.const_type(e)
        if ty:
            return type_atom(ctx, ty, e)
        if ctx.corpus.is_enumerator(e):
            return ("prim", "int")
    return ("unk", " ".join(e.split()))

def type_atom(ctx, ty, expr):
    if ty.endswith("*"):
        base = ty[:-1]
        if "*" in base or "<" in base:
            return ("unk", expr)
        return ("obj", base.split("::")[-1])
    if ty in PRIMS and not PRIMS[ty].endswith("?"):
        return ("prim", PRIMS[ty])
    if ctx.corpus.is_enum_type(ty):
        return ("prim", "int")
    return ("unk", " ".join(expr.split()))

def container_kind(ctx, expr):
    """container type of the first argument of storeObject / loadObject(&x ...)"""
    e = expr.strip().lstrip("&").strip()
    m = re.match(r"^\(\s*([^()]*<[^()]*>\s*\*?)\s*\)", e)     # cast
    if m:
        return norm_type(m.group(1)).rstrip("*")
    m = re.match(r"^(\w+)$", e)
    ty = None
    if m:
        ty = ctx.local_type(e) or (ctx.corpus.member_type(ctx.cls, e) if ctx.cls else None)
    if not ty:
        raise Uncovered("container type of %s unknown" % expr)
    return ty.rstrip("*")

def stmt_ops(ctx, text, mode):
    """engine operations of one simple statement -> list of atoms; [] if the statement does not touch the engine"""
    eng = ctx.eng
    if not eng:
        return []
    # accessors that move no data
    text = re.sub(r"\b%s\s*\.\s*(getMemoryManager|getStringPool|getGrammarPool|getStorerLevel|lookupStorePool|lookupLoadPool)\s*\([^()]*\)" % re.escape(eng), "ENGINE_ACCESSOR", text)
    text = re.sub(r"\b%s\s*\.\s*fGrammarPool\b" % re.escape(eng), "ENGINE_ACCESSOR", text)
    if not re.search(r"\b%s\b" % re.escape(eng), text):
        return []
    t = text
    # ---- member-function style
    m = re.match(r"^%s\s*\.\s*(\w+)\s*\((.*)\)$" % re.escape(eng), t)
    if m:
        fn, args = m.group(1), [a.strip() for a in split_top(m.group(2), ",")]
        table = {"writeSize": "size", "readSize": "size", "writeInt64": "int64", "readInt64": "int64",
                 "writeUInt64": "uint64", "readUInt64": "uint64"}
        if fn in table:
            if (fn.startswith("write")) != (mode == "store"):
                raise Uncovered("%s in the %s branch" % (fn, mode))
            return [(table[fn],)]
        if fn in ("writeString", "readString"):
            if (fn == "writeString") != (mode == "store"):
                raise Uncovered("%s in the %s branch" % (fn, mode))
            full = len(args) == (3 if fn == "writeString" else 4)
            if full and not re.search(r"to(Write|Read)BufferLen|true", args[-1]):
                full = False
            if len(args) not in (1, 2, 3, 4):
                raise Uncovered("string call arity: " + t)
            if fn == "readString" and len(args) == 2:
                return [("str",)]
            return [("strL",) if full else ("str",)]
        if fn in ("write", "read"):
            if (fn == "write") != (mode == "store"):
                raise Uncovered("%s in the %s branch" % (fn, mode))
            if len(args) == 2:
                return [("raw",)]
            raise Uncovered("write/read with %d args" % len(args))
        if fn == "registerObject":
            return []
        if fn in ("needToStoreObject", "needToLoadObject"):
            return [("tmplTag",)]
        if fn in ("getMemoryManager", "getGrammarPool", "getStringPool", "isStoring", "isLoading", "getStorerLevel"):
            return []
        raise Uncovered("engine call not understood: " + t)
    # ---- operator style:  eng << a << b ;  eng >> a
    m = re.match(r"^%s\s*(<<|>>)(.*)$" % re.escape(eng), t, re.S)
    if m:
        op = m.group(1)
        if (op == "<<") != (mode == "store"):
            raise Uncovered("operator%s in the %s branch" % (op, mode))
        rest = t[len(eng):].strip()
        parts, d, cur, i = [], 0, [], 0
        while i < len(rest):
            if rest.startswith(op, i) and d == 0:
                parts.append("".join(cur)); cur = []; i += 2; continue
            c = rest[i]
            if c in "([{":
                d += 1
            elif c in ")]}":
                d -= 1
            cur.append(c); i += 1
        parts.append("".join(cur))
        ops = []
        for p in parts[1:]:
            a = expr_prim_type(ctx, p)
            ops.append(a)
        return ops
    # ---- XTemplateSerializer
    m = re.match(r"^XTemplateSerializer\s*::\s*(storeObject|loadObject)\s*\((.*)\)$", t)
    if m:
        if (m.group(1) == "storeObject") != (mode == "store"):
            raise Uncovered("%s in the %s branch" % (m.group(1), mode))
        args = [a.strip() for a in split_top(m.group(2), ",")]
        if args[-1] != eng:
            raise Uncovered("template call without engine as last argument: " + t)
        return [("tmpl", container_kind(ctx, args[0]))]
    # ---- Base::serialize(eng) / x.serialize(eng) / x->serialize(eng)
    m = re.match(r"^([\w:]+)\s*::\s*serialize\s*\(\s*%s\s*\)$" % re.escape(eng), t)
    if m:
        return [("base", m.group(1).split("::")[-1])]
    m = re.match(r"^(\w+)\s*(\.|->)\s*serialize\s*\(\s*%s\s*\)$" % re.escape(eng), t)
    if m:
        ty = ctx.local_type(m.group(1)) or (ctx.corpus.member_type(ctx.cls, m.group(1)) if ctx.cls else None)
        if not ty:
            raise Uncovered("type of %s unknown" % m.group(1))
        return [("member", ty.rstrip("*").split("::")[-1])]
    # ---- helper calls   [lhs =] [Cls::]storeNAME(.. eng ..) / loadNAME(.. eng ..)
    m = re.match(r"^(?:[\w\*\s\(\)&:\[\]>-]+?=\s*)?(?:\(\s*[\w:\s\*]+\)\s*)?((?:\w+\s*::\s*)*)(store|load)(\w+)\s*\((.*)\)$", t)
    if m:
        args = [a.strip() for a in split_top(m.group(4), ",")]
        if eng in args:
            if (m.group(2) == "store") != (mode == "store"):
                raise Uncovered("%s%s in the %s branch" % (m.group(2), m.group(3), mode))
            return [("call", m.group(3))]
    raise Uncovered("statement mentions the engine but is not understood: " + t)

def conv(ctx, stmts, mode):
    """statement list -> op tree (list of atoms / ('cond', [branches]) / ('loop', body))"""
    out = []
    for k, s in enumerate(stmts):
        kind = s[0]
        if kind in ("empty", "break"):
            continue
        if kind == "return":
            out += stmt_ops(ctx, s[1], mode) if s[1] else []
            out.append(("ret",))
            return out
        if kind == "stmt":
            out += stmt_ops(ctx, s[1], mode)
        elif kind == "block":
            sub = conv(ctx, s[1], mode)
            out += sub
            if sub and sub[-1] == ("ret",):
                return out
        elif kind == "if":
            head = s[1]
            eng = re.escape(ctx.eng) if ctx.eng else "$^"
            mm = re.match(r"^\s*(!?)\s*%s\s*\.\s*(isStoring|isLoading)\s*\(\s*\)\s*$" % eng, head)
            if mm:
                storing_branch = (mm.group(2) == "isStoring") != bool(mm.group(1))
                take = s[2] if storing_branch == (mode == "store") else s[3]
                if take is not None:
                    sub = conv(ctx, [take], mode)
                    out += sub
                    if sub and sub[-1] == ("ret",):
                        return out
                continue
            pre = []
            head = re.sub(r"\b%s\s*\.\s*(getMemoryManager|getStringPool|getGrammarPool|getStorerLevel|lookupStorePool|lookupLoadPool)\s*\([^()]*\)" % eng, "ENGINE_ACCESSOR", head)
            head = re.sub(r"\b%s\s*\.\s*fGrammarPool\b" % eng, "ENGINE_ACCESSOR", head)
            if ctx.eng and re.search(r"\b%s\b" % eng, head):
                hm = re.match(r"^\s*(!?)\s*%s\s*\.\s*(needToStoreObject|needToLoadObject)\s*\(.*\)\s*$" % eng, head, re.S)
                if not hm or hm.group(1):
                    raise Uncovered("condition uses the engine: " + " ".join(head.split()))
                if (hm.group(2) == "needToStoreObject") != (mode == "store"):
                    raise Uncovered("%s in the %s branch" % (hm.group(2), mode))
                pre = [("tmplTag",)]
            if chain_all_return(s) and k + 1 < len(stmts):
                s = attach_rest(s, ("block", list(stmts[k + 1:])))   # N2
                th = conv(ctx, [s[2]], mode)
                el = conv(ctx, [s[3]], mode)
                out += pre
                out.append(("cond", [th, el]))
                out.append(("ret",))
                return out
            th = conv(ctx, [s[2]], mode)
            if s[3] is not None:
                el = conv(ctx, [s[3]], mode)
            else:
                el = []
            out += pre
            out.append(("cond", [th, el]))
        elif kind == "switch":
            if ctx.eng and re.search(r"\b%s\b" % re.escape(ctx.eng), s[1]):
                raise Uncovered("switch on the engine")
            brs = [conv(ctx, c, mode) for c in s[2]]
            # a switch without default has an implicit empty branch
            brs.append([])
            out.append(("cond", brs))
        elif kind == "loop":
            if ctx.eng and re.search(r"\b%s\b" % re.escape(ctx.eng), s[1]):
                raise Uncovered("loop header uses the engine")
            body = conv(ctx, [s[2]], mode)
            if any(x == ("ret",) for x in body):
                raise Uncovered("return inside a loop")
            out.append(("loop", body))
    return out

def strip_ret(tree):
    """drop `ret` markers (a trailing return) and empty structure (N1)"""
    out = []
    for x in tree:
        if x == ("ret",):
            continue
        if x[0] == "cond":
            brs = [strip_ret(b) for b in x[1]]
            if all(not b for b in brs):
                continue
            # deduplicate identical branches, keep order
            uniq = []
            for b in brs:
                if b not in uniq:
                    uniq.append(b)
            if len(uniq) == 1:
                out += uniq[0]          # all branches identical: no choice
            else:
                out.append(("cond", uniq))
        elif x[0] == "loop":
            b = strip_ret(x[1])
            if b:
                out.append(("loop", b))
        else:
            out.append(x)
    return out

def has_early_ret(tree, top=True):
    """a `ret` that is not in tail position of the whole function would cut the paths: not supported beyond N2"""
    for k, x in enumerate(tree):
        if x == ("ret",) and k != len(tree) - 1:
            return True
        if x[0] == "cond":
            last = k == len(tree) - 1 or (k == len(tree) - 2 and tree[-1] == ("ret",))
            for b in x[1]:
                if any(y == ("ret",) for y in b) and not last:
                    return True
                if has_early_ret(b, False):
                    return True
    return False

# ------------------------------------------------------------------------------------------------ functions
def find_functions(corpus):
    """all function definitions that take an XSerializeEngine&: (qualified name, class, params text, body, file)"""
    res = []
    pat = re.compile(r"([\w:\*&<>\s]*?)\b((?:\w+\s*::\s*)?\w+)\s*\(([^;{}()]*XSerializeEngine\s*&[^;{}()]*)\)\s*(const\s*)?\{")
    for f, t in sorted(corpus.files.items()):
        if not f.endswith(".cpp"):
            continue
        for m in pat.finditer(t):
            i = m.end() - 1
            try:
                j = match_brace(t, i)
            except Uncovered:
                continue
            name = re.sub(r"\s+", "", m.group(2))
            cls = name.split("::")[0] if "::" in name else None
            res.append((name, cls, " ".join(m.group(3).split()), t[i + 1:j], f))
    return res

def engine_param(params):
    m = re.search(r"XSerializeEngine\s*&\s*(\w*)", params)
    return m.group(1) if m and m.group(1) else None

def param_types(params):
    out = {}
    for p in split_top(params, ",", True):
        p = p.strip()
        m = re.match(r"^(.*?[\s\*&>])(\w+)$", p, re.S)
        if m:
            out[m.group(2)] = norm_type(m.group(1))
    return out

def translate_function(corpus, cls, params, body, inline, modes=("store", "load")):
    eng = engine_param(params)
    res = {}
    stmts = parse_block(body)
    for mode in modes:
        ctx = Ctx(corpus, cls, eng, body, None)
        ctx.params = param_types(params)
        tree = conv(ctx, stmts, mode)
        if has_early_ret(tree):
            raise Uncovered("early return not in tail position")
        tree = strip_ret(tree)
        res[mode] = inline_calls(tree, inline, mode)
    return res

def inline_calls(tree, inline, mode):
    out = []
    for x in tree:
        if x[0] == "call" and (mode, x[1]) in inline:
            out += inline[(mode, x[1])]
        elif x[0] == "cond":
            out.append(("cond", [inline_calls(b, inline, mode) for b in x[1]]))
        elif x[0] == "loop":
            out.append(("loop", inline_calls(x[1], inline, mode)))
        else:
            out.append(x)
    return out

def extract_all():
    corpus = Corpus()
    funcs = find_functions(corpus)
    classes, helpers_s, helpers_l, tmpl_s, tmpl_l = {}, {}, {}, {}, {}
    for name, cls, params, body, f in funcs:
        short = name.split("::")[-1]
        if short == "serialize" and cls:
            classes[cls] = (params, body, f)
        elif cls == "XTemplateSerializer" and short in ("storeObject", "loadObject"):
            first = split_top(params, ",", True)[0]
            kind = norm_type(re.sub(r"\b\w+\s*$", "", first.strip())).rstrip("*")
            (tmpl_s if short == "storeObject" else tmpl_l)[kind] = (params, body, f)
        elif cls in ("XSerializeEngine", "XProtoType"):
            continue
        elif short.startswith("store"):
            helpers_s[short[5:]] = (cls, params, body, f)
        elif short.startswith("load"):
            helpers_l[short[4:]] = (cls, params, body, f)
    if len(classes) < 40:
        raise TranslateError("only %d serialize methods found" % len(classes))
    uncovered = []
    # N3: unpaired helpers are inlined
    inline = {}
    for nm, (cls, params, body, f) in helpers_l.items():
        if nm not in helpers_s:
            try:
                inline[("load", nm)] = translate_function(corpus, cls, params, body, {}, ("load",))["load"]
            except Uncovered as e:
                uncovered.append(("load" + nm, str(e)))
    for nm, (cls, params, body, f) in helpers_s.items():
        if nm not in helpers_l:
            try:
                inline[("store", nm)] = translate_function(corpus, cls, params, body, {}, ("store",))["store"]
            except Uncovered as e:
                uncovered.append(("store" + nm, str(e)))
    entries = []   # dict(kind, name, store, load, concrete, bases, file)
    concrete = set(re.findall(r"IMPL_XSERIALIZABLE_TOCREATE\s*\(\s*(\w+)\s*\)", "\n".join(
        open(os.path.join(common.REPO, "src", "xercesc", f), encoding="latin-1").read() for f in corpus.files if f.endswith(".cpp"))))
    for cls in sorted(classes):
        params, body, f = classes[cls]
        try:
            r = translate_function(corpus, cls, params, body, inline)
            entries.append(dict(kind="class", name=cls, store=r["store"], load=r["load"], concrete=cls in concrete,
                                bases=corpus.ancestors(cls), file=f))
        except Uncovered as e:
            uncovered.append((cls + "::serialize", str(e)))
            entries.append(dict(kind="class", name=cls, store=[("unparsed",)], load=[], concrete=cls in concrete,
                                bases=corpus.ancestors(cls), file=f))
    for nm in sorted(set(helpers_s) & set(helpers_l)):
        cs, ps, bs, fs = helpers_s[nm]
        cl, pl, bl, fl = helpers_l[nm]
        try:
            st = translate_function(corpus, cs, ps, bs, inline, ("store",))["store"]
            ld = translate_function(corpus, cl, pl, bl, inline, ("load",))["load"]
            entries.append(dict(kind="helper", name=nm, store=st, load=ld, concrete=True, bases=[], file=fs))
        except Uncovered as e:
            uncovered.append(("store/load" + nm, str(e)))
            entries.append(dict(kind="helper", name=nm, store=[("unparsed",)], load=[], concrete=True, bases=[], file=fs))
    for kind in sorted(set(tmpl_s) | set(tmpl_l)):
        if kind not in tmpl_s or kind not in tmpl_l:
            uncovered.append(("XTemplateSerializer<%s>" % kind, "store/load overload without counterpart"))
            entries.append(dict(kind="tmpl", name=kind, store=[("unparsed",)], load=[], concrete=True, bases=[], file="internal/XTemplateSerializer.cpp"))
            continue
        try:
            st = translate_function(corpus, None, tmpl_s[kind][0], tmpl_s[kind][1], inline, ("store",))["store"]
            ld = translate_function(corpus, None, tmpl_l[kind][0], tmpl_l[kind][1], inline, ("load",))["load"]
            entries.append(dict(kind="tmpl", name=kind, store=st, load=ld, concrete=True, bases=[], file="internal/XTemplateSerializer.cpp"))
        except Uncovered as e:
            uncovered.append(("XTemplateSerializer<%s>" % kind, str(e)))
            entries.append(dict(kind="tmpl", name=kind, store=[("unparsed",)], load=[], concrete=True, bases=[], file="internal/XTemplateSerializer.cpp"))
    return corpus, entries, uncovered

# ------------------------------------------------------------------------------------------------ Lean emission
class Ids:
    def __init__(self):
        self.m = {}
    def get(self, s):
        if s not in self.m:
            self.m[s] = len(self.m) + 1
        return self.m[s]

def lean_tree(tree, ids):
    parts = []
    for x in tree:
        k = x[0]
        if k == "prim":
            parts.append(".atom (.prim .%s)" % x[1])
        elif k == "unk":
            parts.append(".atom (.prim (.unk %d))" % ids["unk"].get(x[1]))
        elif k in ("size", "int64", "uint64", "str", "strL", "raw", "tmplTag", "unparsed"):
            parts.append(".atom .%s" % k)
        elif k == "obj":
            parts.append(".atom (.obj %d)" % ids["cls"].get(x[1]))
        elif k == "base":
            parts.append(".atom (.base %d)" % ids["cls"].get(x[1]))
        elif k == "member":
            parts.append(".atom (.member %d)" % ids["cls"].get(x[1]))
        elif k == "tmpl":
            parts.append(".atom (.tmpl %d)" % ids["tmpl"].get(x[1]))
        elif k == "call":
            parts.append(".atom (.call %d)" % ids["call"].get(x[1]))
        elif k == "cond":
            parts.append(".cond (alts [%s])" % ", ".join(lean_tree(b, ids) for b in x[1]))
        elif k == "loop":
            parts.append(".loop %s" % lean_tree(x[1], ids))
        else:
            raise TranslateError("unknown op " + repr(x))
    return "(ops [%s])" % ", ".join(parts)

def flatten_bases(entries):
    """N4: op trees with `base C` replaced by C's own (flattened) tree"""
    by = {e["name"]: e for e in entries if e["kind"] == "class"}
    memo = {}
    def flat(name, mode, stack=()):
        if (name, mode) in memo:
            return memo[(name, mode)]
        if name in stack or name not in by:
            return None
        def go(tree):
            out = []
            for x in tree:
                if x[0] == "base":
                    sub = flat(x[1], mode, stack + (name,))
                    if sub is None:
                        out.append(x)
                    else:
                        out += sub
                elif x[0] == "cond":
                    out.append(("cond", [go(b) for b in x[1]]))
                elif x[0] == "loop":
                    out.append(("loop", go(x[1])))
                else:
                    out.append(x)
            return out
        r = go(by[name][mode])
        memo[(name, mode)] = r
        return r
    for e in entries:
        if e["kind"] == "class":
            e["flat_store"] = flat(e["name"], "store")
            e["flat_load"] = flat(e["name"], "load")
        else:
            e["flat_store"], e["flat_load"] = e["store"], e["load"]

LEAN_PRELUDE = '''
/-- primitive type of an `operator<<` / `operator>>` operand; `unk n` = type not determined, n identifies the operand text -/
inductive PTy
  | byte | xmlch | char | short | int | uint | long | ulong | float | double | bool | unk (id : Nat)
  deriving DecidableEq, Repr

inductive Atom
  | prim (t : PTy) | size | int64 | uint64 | str | strL | raw
  | obj (cls : Nat) | tmpl (kind : Nat) | call (helper : Nat) | base (cls : Nat) | member (cls : Nat)
  | tmplTag | unparsed | loopBegin | loopEnd
  deriving DecidableEq, Repr

mutual
  inductive Op
    | atom (a : Atom) | cond (bs : Alts) | loop (body : Ops)
  inductive Ops
    | nil | cons (o : Op) (r : Ops)
  inductive Alts
    | nil | cons (b : Ops) (r : Alts)
end

def ops : List Op → Ops
  | [] => .nil
  | o :: r => .cons o (ops r)

def alts : List Ops → Alts
  | [] => .nil
  | b :: r => .cons b (alts r)

structure Entry where
  id : Nat             -- class id for classes; helper id / container-kind id otherwise
  concrete : Bool      -- IMPL_XSERIALIZABLE_TOCREATE (always true for helpers and template overloads)
  bases : List Nat     -- ancestor class ids (classes only)
  store : Ops          -- as written in the method (`base` calls kept)
  load : Ops
  flatStore : Ops      -- `base` calls replaced by the base class's operations
  flatLoad : Ops
'''

@translate.register("SerializeOps")
def gen_serialize_ops():
    corpus, entries, uncovered = extract_all()
    flatten_bases(entries)
    ids = {"cls": Ids(), "tmpl": Ids(), "call": Ids(), "unk": Ids()}
    for e in entries:                      # stable ids: classes first, in name order
        if e["kind"] == "class":
            ids["cls"].get(e["name"])
    out = HEADER + "-- per-class store/load operation lists of every serialize(XSerializeEngine&), helper pair and\n" \
                   "-- XTemplateSerializer overload pair (tools/translate_serops.py)\nnamespace XV.Gen.SerializeOps\n" + LEAN_PRELUDE + "\n"
    defs = {"class": [], "helper": [], "tmpl": []}
    n = 0
    for e in entries:
        n += 1
        dn = "e%d" % n
        if e["kind"] == "class":
            eid = ids["cls"].get(e["name"])
        elif e["kind"] == "helper":
            eid = ids["call"].get(e["name"])
        else:
            eid = ids["tmpl"].get(e["name"])
        bases = [ids["cls"].get(b) for b in e["bases"]]
        out += "/-- %s %s (%s) -/\ndef %s : Entry := {\n  id := %d, concrete := %s, bases := [%s],\n  store := %s,\n  load := %s,\n  flatStore := %s,\n  flatLoad := %s }\n\n" % (
            e["kind"], e["name"], e["file"], dn, eid, "true" if e["concrete"] else "false", ", ".join(map(str, bases)),
            lean_tree(e["store"], ids), lean_tree(e["load"], ids), lean_tree(e["flat_store"], ids), lean_tree(e["flat_load"], ids))
        defs[e["kind"]].append(dn)
    out += "def classes : List Entry := [%s]\n\n" % ", ".join(defs["class"])
    out += "def helpers : List Entry := [%s]\n\n" % ", ".join(defs["helper"])
    out += "def templates : List Entry := [%s]\n\n" % ", ".join(defs["tmpl"])
    # class hierarchy for polymorphic reads: (class id, ancestor ids) for every class id that occurs
    hier = []
    for name, cid in sorted(ids["cls"].m.items(), key=lambda kv: kv[1]):
        hier.append("(%d, [%s])" % (cid, ", ".join(str(ids["cls"].get(b)) for b in corpus.ancestors(name))))
    # ancestors may have introduced new ids; emit those too (no ancestors of their own needed beyond what is listed)
    out += "/-- (class id, ids of its ancestors) -/\ndef hierarchy : List (Nat × List Nat) := [\n  %s]\n\n" % ",\n  ".join(hier)
    for key, title in (("cls", "class"), ("tmpl", "container kind"), ("call", "helper pair"), ("unk", "operand of undetermined type")):
        out += "-- %s ids: %s\n" % (title, "; ".join("%d=%s" % (v, k) for k, v in sorted(ids[key].m.items(), key=lambda kv: kv[1])))
    out += "\n-- uncovered: %s\n" % ("; ".join("%s (%s)" % u for u in uncovered) or "none")
    out += "def uncoveredCount : Nat := %d\n" % len(uncovered)
    out += "\nend XV.Gen.SerializeOps\n"
    gen_serialize_ops.last = dict(entries=entries, uncovered=uncovered, ids={k: v.m for k, v in ids.items()})
    return out
