#!/bin/bash
# try_seeded.sh <PID> <patch.diff> : apply the seeded change to /repo, run the quick check, ALWAYS undo; evidence of this run is
# restored from git afterwards (evidence committed must come from the clean tree)
cd "$(dirname "$0")/.." || exit 2
pid=$1; patch=$2
git -C /repo diff --quiet || { echo "/repo not clean"; exit 2; }
git -C /repo apply "$patch" || { echo "APPLY-FAILED"; exit 2; }
python3 tools/check.py $pid > .work/logs/$pid.seeded.log 2>&1; rc=$?
git -C /repo checkout -- .
git checkout -- evidence/$pid.json 2>/dev/null
echo "$pid $(basename $(dirname $patch)) rc=$rc $(grep "$pid quick:" .work/logs/$pid.seeded.log)"
grep "^VIOLATION\|violation:" .work/logs/$pid.seeded.log | cut -c1-260
