#!/usr/bin/env python3
"""archive_seeded.py <PID> <n> <src-dir> <caught:yes|no> <route>  -> /verif/seeded/<PID>-<n>/"""
import json, os, shutil, sys
pid, n, src, caught, route = sys.argv[1:6]
V = os.path.dirname(os.path.dirname(os.path.abspath(__file__)))
dst = os.path.join(V, "seeded", "%s-%s" % (pid, n))
os.makedirs(dst, exist_ok=True)
for f in ("patch.diff", "demo.cpp", "notes.txt"):
    if os.path.exists(os.path.join(src, f)):
        shutil.copy(os.path.join(src, f), dst)
notes = open(os.path.join(src, "notes.txt")).read() if os.path.exists(os.path.join(src, "notes.txt")) else ""
meta = {"property": pid, "origin": "independent sub-agent given only the property text and a scratch worktree",
        "needs_to_manifest": notes[:1500],
        "confirmed_by_me": "tools/confirm_seeded.sh: patch applied in scratch worktree, library rebuilt, ctest 80/80 passed, demo FAIL on mutant, PASS on clean tree",
        "check_result": {"caught": caught == "yes", "route": route},
        "how_to_rerun": "git -C /repo apply seeded/%s-%s/patch.diff && python3 tools/check.py %s --tier quick; git -C /repo checkout -- ." % (pid, n, pid)}
json.dump(meta, open(os.path.join(dst, "meta.json"), "w"), indent=1)
print("archived", dst)
