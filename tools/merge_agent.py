#!/usr/bin/env python3
"""merge_agent.py <agent verif dir> <PID> [--force rel/path ...] : integrate a builder's copy into /verif"""
import filecmp, os, re, shutil, sys
A, PID = sys.argv[1].rstrip("/"), sys.argv[2]
force = set(sys.argv[4:]) if len(sys.argv) > 3 and sys.argv[3] == "--force" else set()
V = os.path.dirname(os.path.dirname(os.path.abspath(__file__)))
def rel_files(root, sub):
    out = []
    for d, _, fs in os.walk(os.path.join(root, sub)):
        if "/.lake" in d or "/Gen" in d or "__pycache__" in d: continue
        for f in fs:
            out.append(os.path.relpath(os.path.join(d, f), root))
    return out
for sub in ("lean/XV", "harness", "tools/props", "fixes", "corpus", "tools"):
    for r in rel_files(A, sub):
        if r in ("tools/translate_more.py", "tools/manifest.py", "tools/common.py", "tools/check.py", "tools/translate.py", "tools/setup.py") or r.endswith(".pyc"):
            continue
        if sub == "tools" and not r.startswith("tools/") : continue
        if sub == "tools" and os.path.dirname(r) != "tools": continue
        src, dst = os.path.join(A, r), os.path.join(V, r)
        if not os.path.exists(dst):
            os.makedirs(os.path.dirname(dst), exist_ok=True); shutil.copy(src, dst); print("new    ", r)
        elif not filecmp.cmp(src, dst, shallow=False):
            if r in force:
                shutil.copy(src, dst); print("forced ", r)
            else:
                print("DIFFERS", r, "(not copied)")
# translate_more additions
a = open(os.path.join(A, "tools/translate_more.py")).read().split("\n")
b = open(os.path.join(V, "tools/translate_more.py")).read().split("\n")
k = 0
while k < len(a) and k < len(b) and a[k] == b[k]: k += 1
adds = "\n".join(a[k:]).strip("\n")
regs = re.findall(r'@translate\.register\("(\w+)"\)', adds)
have = re.findall(r'@translate\.register\("(\w+)"\)', "\n".join(b))
# helper names already defined in /verif's file would silently override each other: rename them inside the new chunk
_existing = set(re.findall(r'(?m)^def (\w+)\(', "\n".join(b)))
for _n in sorted(set(re.findall(r'(?m)^def (\w+)\(', adds)) & _existing, key=len, reverse=True):
    adds = re.sub(r'\b%s\b' % re.escape(_n), "%s_%s" % (_n, PID.lower()), adds)
if adds and not all(r in have for r in regs):
    open(os.path.join(V, "tools/translate_more.py"), "w").write("\n".join(b).rstrip("\n") + "\n\n\n# ---- %s (builder) ----\n" % PID + adds + "\n")
    print("translate_more: appended generators", regs)
else:
    print("translate_more: nothing to add", regs)
# Main.lean
am = open(os.path.join(A, "lean/Main.lean")).read().split("\n")
mm = open(os.path.join(V, "lean/Main.lean")).read()
new_imports = [l for l in am if l.startswith("import ") and l not in mm]
new_arms = [l for l in am if re.match(r'\s*\| \["\w+"\] =>', l) and l.strip() not in mm]
if new_imports:
    last = [l for l in mm.split("\n") if l.startswith("import ")][-1]
    mm = mm.replace(last + "\n", last + "\n" + "\n".join(new_imports) + "\n", 1)
if new_arms:
    mm = mm.replace('  | ["utf8spec"] =>', "\n".join(new_arms) + '\n  | ["utf8spec"] =>', 1)
open(os.path.join(V, "lean/Main.lean"), "w").write(mm)
print("Main.lean: +%d imports, +%d arms" % (len(new_imports), len(new_arms)))
x = os.path.join(V, "lean/XV.lean"); s = open(x).read()
if "import XV.Props.%s\n" % PID not in s:
    open(x, "w").write(s + "import XV.Props.%s\n" % PID)
# manifest entry
am = open(os.path.join(A, "tools/manifest.py")).read()
mp = os.path.join(V, "tools/manifest.py"); ms = open(mp).read()
if ' "%s": dict(' % PID in am and ' "%s": dict(' % PID not in ms:
    i = am.index(' "%s": dict(' % PID); j = am.index('ref="4/%s"),' % PID, i) + len('ref="4/%s"),' % PID)
    ms = ms.replace("\n}\n", "\n" + am[i:j] + "\n}\n", 1)
    open(mp, "w").write(ms); print("manifest: CLAIMED entry added")
else:
    print("manifest: no entry taken (add by hand)")
