#!/bin/bash
# confirm_seeded.sh <worktree> <mutation-dir> : apply patch, build, ctest, demo must FAIL; revert, build, demo must PASS
W=$1; M=$2
set -u
cd $W || exit 2
git checkout -q -- . 
git apply $M/patch.diff || { echo "APPLY-FAILED"; exit 2; }
ninja -C $W/_build > $M/confirm_build.log 2>&1 || { echo "BUILD-FAILED"; git checkout -q -- .; exit 2; }
ctest --test-dir $W/_build -j8 --timeout 900 > $M/confirm_ctest.log 2>&1
CT=$(grep -c "100% tests passed" $M/confirm_ctest.log)
DEMO=$M/demo_confirm
g++ -std=gnu++17 -O1 -o $DEMO $M/demo.cpp -I$W/src -I$W/_build/src -L$W/_build/src -lxerces-c-4.0 -Wl,-rpath,$W/_build/src -pthread > $M/confirm_demo_build.log 2>&1 || { echo "DEMO-BUILD-FAILED"; git checkout -q -- .; exit 2; }
(cd $M && timeout 600 $DEMO > confirm_demo_mut.out 2>&1); RM=$?
git checkout -q -- .
ninja -C $W/_build >> $M/confirm_build.log 2>&1
(cd $M && timeout 600 $DEMO > confirm_demo_clean.out 2>&1); RC=$?
echo "$M ctest_all_pass=$CT demo_on_mutant_rc=$RM demo_on_clean_rc=$RC"
