"""C16 translator: Gen/SerConsts (engine constants + primitive operator descriptors extracted from
XSerializeEngine.cpp/.hpp) and Gen/SerializeOps (per-class store/load operation lists extracted from every
`X::serialize(XSerializeEngine&)` and the static store/load helper pairs).  See tools/props/c16.py."""
import glob, hashlib, json, os, re, subprocess, tempfile
import translate
import common
from translate import src, strip_c_comments, c_int, TranslateError, HEADER

# ------------------------------------------------------------------------------------------------
# helpers
def match_brace(t, i, open_="{", close="}"):
    """t[i] == open_; return index of the matching close."""
    d = 0
    j = i
    n = len(t)
    while j < n:
        c = t[j]
        if c == open_:
            d += 1
        elif c == close:
            d -= 1
            if d == 0:
                return j
        elif c == '"':
            j += 1
            while j < n and t[j] != '"':
                if t[j] == "\\":
                    j += 1
                j += 1
        elif c == "'":
            j += 1
            while j < n and t[j] != "'":
                if t[j] == "\\":
                    j += 1
                j += 1
        j += 1
    raise TranslateError("unbalanced %s at %d" % (open_, i))

def func_body(t, pattern, what):
    m = re.search(pattern, t)
    if not m:
        raise TranslateError("%s not found" % what)
    i = t.index("{", m.end())
    j = match_brace(t, i)
    return t[i + 1:j]

# ------------------------------------------------------------------------------------------------
# sizeof probe (the only numbers that do not appear in the source text: they come from the compiler)
SIZE_TYPES = ["XMLByte", "XMLCh", "char", "short", "int", "unsigned int", "long", "unsigned long", "float",
              "double", "bool", "XMLSize_t", "XMLInt64", "XMLUInt64", "XSerializeEngine::XSerializedObjectId_t"]
_size_cache = {}

def type_sizes():
    inc = [os.path.join(common.REPO, "src"), os.path.join(common.BUILD, "src")]
    key = common.REPO
    if key in _size_cache:
        return _size_cache[key]
    prog = "#include <xercesc/internal/XSerializeEngine.hpp>\n#include <cstdio>\nusing namespace XERCES_CPP_NAMESPACE;\n" \
           "int main(){unsigned int one=1;printf(\"{\\\"le\\\":%d\", (int)*(unsigned char*)&one);\n"
    for ty in SIZE_TYPES:
        prog += "printf(\",\\\"%s\\\":%%d\",(int)sizeof(%s));\n" % (ty, ty)
    prog += "printf(\"}\\n\");return 0;}\n"
    os.makedirs(common.WORK, exist_ok=True)
    d = tempfile.mkdtemp(dir=common.WORK, prefix="szprobe")
    try:
        cpp = os.path.join(d, "p.cpp"); exe = os.path.join(d, "p")
        open(cpp, "w").write(prog)
        p = subprocess.run(["clang++-14", "-std=gnu++17", "-O0", cpp, "-o", exe] + ["-I" + i for i in inc],
                           stdout=subprocess.PIPE, stderr=subprocess.PIPE)
        if p.returncode != 0:
            raise TranslateError("sizeof probe does not compile: " + p.stderr.decode(errors="replace")[-500:])
        out = subprocess.run([exe], stdout=subprocess.PIPE).stdout.decode()
        res = json.loads(out)
    finally:
        for f in glob.glob(os.path.join(d, "*")):
            os.unlink(f)
        os.rmdir(d)
    _size_cache[key] = res
    return res

# Lean identifier for a C++ primitive type
TY_ID = {"XMLByte": "byte", "XMLCh": "xmlch", "char": "char", "short": "short", "int": "int",
         "unsigned int": "uint", "long": "long", "unsigned long": "ulong", "float": "float", "double": "double",
         "bool": "bool", "XMLSize_t": "size", "XMLInt64": "int64", "XMLUInt64": "uint64"}

def sizeof_arg(expr, params, sizes, what):
    """expr is the argument text of a sizeof(...)"""
    e = " ".join(expr.split())
    if e in params:
        e = params[e]
    if e not in sizes:
        raise TranslateError("%s: sizeof(%s) of unknown type" % (what, expr))
    return sizes[e]

def prim_desc(body, params, sizes, what, flush):
    """Extract (chk, chkAligned, align, adv) from the body of one primitive operator/function."""
    chkfn = "checkAndFlushBuffer" if flush else "checkAndFillBuffer"
    m = re.search(r"\b%s\s*\(\s*(calBytesNeeded\s*\(\s*)?sizeof\s*\(([^)]*)\)\s*\)?\s*\)" % chkfn, body)
    if not m:
        raise TranslateError("%s: no %s(sizeof ..) call" % (what, chkfn))
    chk = sizeof_arg(m.group(2), params, sizes, what)
    chk_al = bool(m.group(1))
    other = "checkAndFillBuffer" if flush else "checkAndFlushBuffer"
    if re.search(r"\b%s\b" % other, body):
        raise TranslateError("%s: calls %s" % (what, other))
    als = re.findall(r"\balignBufCur\s*\(\s*sizeof\s*\(([^)]*)\)\s*\)", body)
    if len(als) > 1:
        raise TranslateError("%s: several alignBufCur calls" % what)
    align = sizeof_arg(als[0], params, sizes, what) if als else 0
    if re.search(r"\balignBufCur\s*\(", body) and not als:
        raise TranslateError("%s: alignBufCur with a non-sizeof argument" % what)
    advs = re.findall(r"\bfBufCur\s*\+=\s*sizeof\s*\(([^)]*)\)", body)
    if len(advs) != 1:
        raise TranslateError("%s: expected exactly one 'fBufCur += sizeof(..)', found %d" % (what, len(advs)))
    adv = sizeof_arg(advs[0], params, sizes, what)
    # the transferred datum: '*(T*)fBufCur = x', '*reinterpret_cast<T*>(fBufCur) = ...' or memcpy(.., sizeof(t))
    mm = re.search(r"memcpy\s*\([^;]*sizeof\s*\(([^)]*)\)\s*\)", body)
    if mm:
        xfer = sizeof_arg(mm.group(1), params, sizes, what)
    else:
        mm = re.search(r"reinterpret_cast\s*<\s*([\w\s:]+?)\s*\*\s*>\s*\(\s*fBufCur\s*\)", body) or \
             re.search(r"\*\s*\(\s*([\w\s:]+?)\s*\*\s*\)\s*fBufCur", body)
        if not mm:
            raise TranslateError("%s: no transfer through fBufCur recognised" % what)
        xfer = sizeof_arg(mm.group(1), params, sizes, what)
    # order: check, align, transfer, advance
    pos = [body.find(chkfn)]
    if als:
        pos.append(body.find("alignBufCur"))
    pos.append(mm.start())
    pos.append(body.find("fBufCur +="))
    if pos != sorted(pos):
        raise TranslateError("%s: statements not in the order check/align/transfer/advance" % what)
    return (chk, chk_al, align, adv, xfer)

@translate.register("SerConsts")
def gen_ser_consts():
    rel = "internal/XSerializeEngine.cpp"
    t = strip_c_comments(src(rel))
    h = strip_c_comments(src("internal/XSerializeEngine.hpp"))
    sizes = type_sizes()
    if sizes.get("le") != 1:
        raise TranslateError("big-endian target not modelled")
    sizes["XSerializedObjectId_t"] = sizes["XSerializeEngine::XSerializedObjectId_t"]
    out = HEADER + "-- engine constants and primitive-operator descriptors of XSerializeEngine\nnamespace XV.Gen.SerConsts\n\n"
    # ---- tags
    for nm in ("fgNullObjectTag", "fgNewClassTag", "fgTemplateObjTag", "fgClassMask", "fgMaxObjectCount"):
        m = re.search(r"\b%s\s*=\s*([0-9A-Fa-fxX]+)\s*;" % nm, t)
        if not m:
            raise TranslateError("%s not found in %s" % (nm, rel))
        out += "def %s : Nat := %d\n" % (nm, c_int(m.group(1)))
    m = re.search(r"typedef\s+unsigned\s+int\s+XSerializedObjectId_t\s*;", h)
    if not m:
        raise TranslateError("XSerializedObjectId_t is no longer 'unsigned int'")
    m = re.search(r"\bnoDataFollowed\s*=\s*\(\s*unsigned\s+long\s*\)\s*-\s*1\s*;", t)
    if not m:
        raise TranslateError("noDataFollowed is no longer (unsigned long)-1")
    out += "def noDataFollowed : Nat := %d\n" % (256 ** sizes["unsigned long"] - 1)
    bs = re.findall(r"XMLSize_t\s+bufSize\s*=\s*(\d+)", h)
    if len(bs) != 2 or bs[0] != bs[1]:
        raise TranslateError("default bufSize of the two constructors not found or different: %r" % bs)
    out += "def defaultBufSize : Nat := %d\n" % int(bs[0])
    for flag in ("toWriteBufferLen", "toReadBufferLen"):
        m = re.search(r"const\s+bool\s+XSerializeEngine::%s\s*=\s*(true|false)\s*;" % flag, t)
        if not m:
            raise TranslateError(flag + " not found")
        out += "def %s : Bool := %s\n" % (flag, m.group(1))
    # serialization level (CMakeLists.txt reads it from configure.ac)
    try:
        conf = open(os.path.join(common.REPO, "configure.ac"), encoding="latin-1").read()
    except OSError as e:
        raise TranslateError("configure.ac: %s" % e)
    m = re.search(r"^GRAMMAR_SERIALIZATION_LEVEL=(\d+)\s*$", conf, re.M)
    if not m:
        raise TranslateError("GRAMMAR_SERIALIZATION_LEVEL not found in configure.ac")
    out += "def serializationLevel : Nat := %d\n" % int(m.group(1))
    # ---- sizes
    out += "\n-- sizeof as seen by the compiler of this build (probe program)\n"
    for ty, ident in TY_ID.items():
        out += "def sz_%s : Nat := %d\n" % (ident, sizes[ty])
    out += "def sz_objectId : Nat := %d\n" % sizes["XSerializedObjectId_t"]
    # ---- alignAdjust / calBytesNeeded shape
    body = func_body(t, r"XSerializeEngine::alignAdjust\s*\(\s*XMLSize_t\s+size\s*\)\s*const", "alignAdjust")
    norm = "".join(body.split())
    if norm != "XMLSize_tremainder=(XMLSize_t)fBufCur%size;return(remainder==0)?0:(size-remainder);":
        raise TranslateError("alignAdjust body changed: " + norm)
    body = func_body(t, r"XSerializeEngine::calBytesNeeded\s*\(\s*XMLSize_t\s+size\s*\)\s*const", "calBytesNeeded")
    if "".join(body.split()) != "return(alignAdjust(size)+size);":
        raise TranslateError("calBytesNeeded body changed")
    body = func_body(t, r"XSerializeEngine::alignBufCur\s*\(\s*XMLSize_t\s+size\s*\)", "alignBufCur")
    if not "".join(body.split()).startswith("fBufCur+=alignAdjust(size);"):
        raise TranslateError("alignBufCur body changed")
    # ---- primitive operators
    out += ("\n/-- one primitive operator: `chk` = sizeof in checkAndFlush/FillBuffer, `chkAligned` = wrapped in\n"
            "calBytesNeeded, `align` = sizeof in alignBufCur (0: no call), `adv` = cursor advance, `xfer` = bytes moved -/\n"
            "structure PrimDesc where\n  chk : Nat\n  chkAligned : Bool\n  align : Nat\n  adv : Nat\n  xfer : Nat\n  deriving DecidableEq, Repr\n\n")
    descs = {}
    for flush, op, pre in ((True, "<<", "W"), (False, ">>", "R")):
        for m in re.finditer(r"XSerializeEngine\s*&\s*XSerializeEngine::operator%s\s*\(\s*([\w\s]+?)\s*(&?)\s*(\w+)\s*\)" % re.escape(op), t):
            ty, ref, par = " ".join(m.group(1).split()), m.group(2), m.group(3)
            if flush == bool(ref):
                raise TranslateError("operator%s(%s): unexpected parameter passing" % (op, ty))
            if ty not in TY_ID:
                raise TranslateError("operator%s for unknown type %s" % (op, ty))
            i = t.index("{", m.end())
            body = t[i + 1:match_brace(t, i)]
            what = "operator%s(%s)" % (op, ty)
            mm = re.fullmatch(r"\s*return\s+XSerializeEngine::operator%s\s*\(\s*\(\s*([\w\s]+?)\s*&?\s*\)\s*%s\s*\)\s*;\s*" % (re.escape(op), par), body)
            if mm:
                descs[(pre, ty)] = ("alias", " ".join(mm.group(1).split()))
                continue
            descs[(pre, ty)] = prim_desc(body, {par: ty}, sizes, what, flush)
        for fn, ty in (("Size", "XMLSize_t"), ("Int64", "XMLInt64"), ("UInt64", "XMLUInt64")):
            name = ("write" if flush else "read") + fn
            m = re.search(r"void\s+XSerializeEngine::%s\s*\(\s*%s\s*(&?)\s*(\w+)\s*\)" % (name, ty), t)
            if not m:
                raise TranslateError(name + " not found")
            i = t.index("{", m.end())
            body = t[i + 1:match_brace(t, i)]
            descs[(pre, ty)] = prim_desc(body, {m.group(2): ty}, sizes, name, flush)
    for (pre, ty), d in list(descs.items()):
        if d[0] == "alias":
            tgt = descs.get((pre, d[1]))
            if not tgt or tgt[0] == "alias":
                raise TranslateError("alias of %s not resolved" % ty)
            descs[(pre, ty)] = tgt
    for pre in ("W", "R"):
        for ty, ident in TY_ID.items():
            d = descs.get((pre, ty))
            if d is None:
                raise TranslateError("no %s operator for %s" % ("store" if pre == "W" else "load", ty))
            out += "def %s_%s : PrimDesc := ⟨%d, %s, %d, %d, %d⟩\n" % (pre, ident, d[0], "true" if d[1] else "false", d[2], d[3], d[4])
    # ---- DatatypeValidator::storeDV / loadDV: how "this validator is a built-in, write it by NAME" is decided
    dvt = strip_c_comments(src("validators/datatype/DatatypeValidator.cpp"))
    sbody = func_body(dvt, r"void\s+DatatypeValidator::storeDV\s*\(", "DatatypeValidator::storeDV")
    norm = "".join(sbody.split())
    ident = "if(dv==DatatypeValidatorFactory::getBuiltInRegistry()->get(dv->getTypeLocalName()))"
    byname = "if(DatatypeValidatorFactory::getBuiltInRegistry()->containsKey(dv->getTypeLocalName()))"
    if norm.count("serEng<<DV_BUILTIN;") != 1 or "serEng.writeString(dv->getTypeLocalName());" not in norm:
        raise TranslateError("storeDV: DV_BUILTIN branch no longer writes the local name once")
    pre = norm[:norm.index("serEng<<DV_BUILTIN;")]
    if pre.endswith(ident + "{"):
        test = 1
    elif pre.endswith(byname + "{"):
        test = 2
    else:
        raise TranslateError("storeDV: condition guarding DV_BUILTIN not recognised: ..." + pre[-120:])
    lbody = "".join(func_body(dvt, r"DatatypeValidator\s*\*\s*DatatypeValidator::loadDV\s*\(", "DatatypeValidator::loadDV").split())
    if "if(DV_BUILTIN==flag){XMLCh*dvName;serEng.readString(dvName);" not in lbody or \
       "returnDatatypeValidatorFactory::getBuiltInRegistry()->get(dvName);" not in lbody:
        raise TranslateError("loadDV: DV_BUILTIN branch no longer resolves the stored local name in the built-in registry")
    out += ("\n/-- how DatatypeValidator::storeDV decides to write a validator by NAME (DV_BUILTIN + local name; loadDV resolves the\n"
            "name in the built-in registry, which is keyed by local name only): 1 = identity test\n"
            "`dv == getBuiltInRegistry()->get(dv->getTypeLocalName())`, 2 = name test `containsKey(dv->getTypeLocalName())` -/\n"
            "def storeDVBuiltinTest : Nat := %d\n" % test)
    out += "\nend XV.Gen.SerConsts\n"
    return out

from translate_serops import *  # noqa: F401,F403,E402  (registers SerializeOps)
