#!/usr/bin/env python3
"""MANIFEST.setup_cmd: build everything from files on disk (offline)."""
import os, sys, glob
sys.path.insert(0, os.path.dirname(os.path.abspath(__file__)))
import common, translate
try:
    import translate_more  # noqa
except ImportError:
    pass

def main():
    common.build_lib()
    errs = translate.translate()
    for k, v in errs.items():
        print("translate error", k, v)
    ok, out = common.lake_build([])
    if not ok:
        print(out[-4000:])
        sys.exit(1)
    for src in sorted(glob.glob(os.path.join(common.HARN, "hx_*.cpp"))):
        common.build_harness(os.path.basename(src)[:-4])
    # C17: ThreadSanitizer flavour of the library + harness (separate build tree .work/build-tsan)
    try:
        from props import c17
        if c17.build_tsan(allow_cold=True):
            c17.build_tsan_harness()
    except Exception as e:       # the quick tier copes without the TSan flavour
        print("tsan flavour not built:", e)
    print("setup ok")

if __name__ == "__main__":
    main()
