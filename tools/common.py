"""Shared machinery for every check: paths, library build, harness build, lake build,
axiom audit, evidence, known findings, violation reporting."""
import fcntl, hashlib, json, os, re, subprocess, sys, time

VERIF = os.path.dirname(os.path.dirname(os.path.abspath(__file__)))
REPO = os.environ.get("VERIF_REPO", "/repo")
WORK = os.path.join(VERIF, ".work")
LEAN = os.path.join(VERIF, "lean")
GEN = os.path.join(LEAN, "XV", "Gen")
BUILD = os.path.join(WORK, "build-hooks")
HARN = os.path.join(VERIF, "harness")
HBIN = os.path.join(WORK, "hbin")
GUARD = "XERCES_VERIF_HOOKS"
NCPU = os.cpu_count() or 4
ALLOWED_AXIOMS = {"propext", "Classical.choice", "Quot.sound"}

SAN = "-fsanitize=address,undefined -fno-sanitize=vptr,function"
CXXFLAGS = f"-O1 -g1 {SAN} -D{GUARD}"

class InfraError(Exception):
    pass

def log(*a):
    print("[verif]", *a, file=sys.stderr, flush=True)

def run(cmd, cwd=None, env=None, timeout=None, check=False, input=None):
    e = dict(os.environ)
    if env:
        e.update(env)
    p = subprocess.run(cmd, cwd=cwd, env=e, timeout=timeout, input=input,
                       stdout=subprocess.PIPE, stderr=subprocess.PIPE,
                       shell=isinstance(cmd, str))
    if check and p.returncode != 0:
        raise InfraError("command failed (%d): %s\n%s\n%s" % (
            p.returncode, cmd, p.stdout.decode(errors="replace")[-3000:],
            p.stderr.decode(errors="replace")[-3000:]))
    return p

class Lock:
    def __init__(self, name):
        os.makedirs(WORK, exist_ok=True)
        self.path = os.path.join(WORK, name + ".lock")
    def __enter__(self):
        self.f = open(self.path, "w")
        fcntl.flock(self.f, fcntl.LOCK_EX)
        return self
    def __exit__(self, *a):
        fcntl.flock(self.f, fcntl.LOCK_UN)
        self.f.close()

# ---------------------------------------------------------------- library build
def build_lib():
    """Out-of-tree build of /repo's *working tree* with hooks + ASan/UBSan. Incremental."""
    with Lock("build-hooks"):
        t0 = time.time()
        if not os.path.exists(os.path.join(BUILD, "build.ninja")):
            os.makedirs(BUILD, exist_ok=True)
            run(["cmake", "-G", "Ninja", "-S", REPO, "-B", BUILD,
                 "-DCMAKE_BUILD_TYPE=None", "-DCMAKE_CXX_COMPILER=clang++-14",
                 "-DCMAKE_C_COMPILER=clang-14",
                 "-DCMAKE_CXX_FLAGS=" + CXXFLAGS, "-DCMAKE_C_FLAGS=-O1 -g1",
                 "-DCMAKE_SHARED_LINKER_FLAGS=" + SAN, "-DCMAKE_EXE_LINKER_FLAGS=" + SAN,
                 ], check=True)
        p = run(["ninja", "-C", BUILD, "-j", str(NCPU), "xerces-c"])
        if p.returncode != 0:
            raise InfraError("library does not build from /repo working tree:\n" +
                             p.stdout.decode(errors="replace")[-4000:])
        log("library build %.1fs" % (time.time() - t0))
    return BUILD

def lib_flags():
    return ["-I" + os.path.join(REPO, "src"), "-I" + os.path.join(BUILD, "src"),
            "-L" + os.path.join(BUILD, "src"), "-lxerces-c-4.0",
            "-Wl,-rpath," + os.path.join(BUILD, "src")]

def build_harness(name, extra=()):
    """Compile harness/<name>.cpp against the hooks build. Rebuilt when the source, the
    library binary or any xerces header is newer than the binary."""
    src = os.path.join(HARN, name + ".cpp")
    os.makedirs(HBIN, exist_ok=True)
    out = os.path.join(HBIN, name)
    with Lock("harness-" + name):
        lib = os.path.join(BUILD, "src", "libxerces-c-4.0.so")
        deps = [src, os.path.join(HARN, "hx_common.hpp")]
        newest = max(os.path.getmtime(d) for d in deps if os.path.exists(d))
        hdr_newest = 0.0
        for root, _, files in os.walk(os.path.join(REPO, "src", "xercesc")):
            for f in files:
                if f.endswith((".hpp", ".c", ".h")):
                    m = os.path.getmtime(os.path.join(root, f))
                    if m > hdr_newest:
                        hdr_newest = m
        if os.path.exists(out) and os.path.getmtime(out) >= max(newest, hdr_newest):
            return out
        t0 = time.time()
        cmd = ["clang++-14", "-std=gnu++17"] + CXXFLAGS.split() + ["-pthread", "-I" + HARN,
              src, "-o", out] + lib_flags() + list(extra)
        p = run(cmd)
        if p.returncode != 0:
            raise InfraError("harness %s does not compile:\n%s" % (name, p.stderr.decode(errors="replace")[-4000:]))
        log("harness %s built %.1fs" % (name, time.time() - t0))
    return out

HENV = {"ASAN_OPTIONS": "detect_leaks=0:abort_on_error=0:allocator_may_return_null=1",
        "UBSAN_OPTIONS": "print_stacktrace=0:halt_on_error=0"}

def run_harness(name, args=(), input=None, timeout=1800, env=None):
    exe = build_harness(name)
    e = dict(HENV)
    if env:
        e.update(env)
    p = None
    for _attempt in range(3):
        p = run([exe] + list(args), input=input, timeout=timeout, env=e)
        # SIGTERM comes from outside (another job's cleanup), never from the harness or a sanitizer: run again
        if p.returncode != -15:
            break
        log("harness %s was terminated by SIGTERM from outside; re-running" % name)
    return p

# ---------------------------------------------------------------- lean
def write_if_changed(path, text):
    os.makedirs(os.path.dirname(path), exist_ok=True)
    if os.path.exists(path):
        with open(path) as f:
            if f.read() == text:
                return False
    with open(path, "w") as f:
        f.write(text)
    return True

def lake_build(targets):
    """Returns (ok, output). Serialised: lake is not safe to run concurrently in one project."""
    with Lock("lake"):
        t0 = time.time()
        p = run(["lake", "build"] + list(targets), cwd=LEAN, timeout=3600)
        out = p.stdout.decode(errors="replace") + p.stderr.decode(errors="replace")
        log("lake build %s: rc=%d %.1fs" % (" ".join(targets), p.returncode, time.time() - t0))
        return p.returncode == 0, out

def driver_path():
    return os.path.join(LEAN, ".lake", "build", "bin", "xvdriver")

def run_driver(args, input=None, timeout=1800):
    p = run([driver_path()] + list(args), input=input, timeout=timeout)
    if p.returncode != 0:
        raise InfraError("xvdriver %s failed: %s" % (args, p.stderr.decode(errors="replace")[-2000:]))
    return p.stdout

FORBIDDEN = re.compile(r"\b(sorry|admit|native_decide|bv_decide|implemented_by|unsafe)\b|^\s*axiom\s|maxHeartbeats\s+0\b", re.M)

def strip_comments(src):
    # remove block comments (nested) and line comments
    out, i, depth = [], 0, 0
    while i < len(src):
        if src.startswith("/-", i):
            depth += 1; i += 2; continue
        if depth and src.startswith("-/", i):
            depth -= 1; i += 2; continue
        if depth:
            i += 1; continue
        if src.startswith("--", i):
            j = src.find("\n", i)
            i = len(src) if j < 0 else j
            continue
        out.append(src[i]); i += 1
    return "".join(out)

def grep_forbidden():
    hits = []
    for root, _, files in os.walk(os.path.join(LEAN, "XV")):
        for f in files:
            if f.endswith(".lean"):
                p = os.path.join(root, f)
                txt = strip_comments(open(p).read())
                # string literals may legitimately contain words; drop them
                txt = re.sub(r'"(\\.|[^"\\])*"', '""', txt)
                for m in FORBIDDEN.finditer(txt):
                    hits.append("%s: %s" % (os.path.relpath(p, LEAN), m.group(0).strip()))
    return hits

def audit_axioms(module, theorems):
    """#print axioms on each theorem; returns dict name -> list of axioms (or None if missing)."""
    src = "import %s\n" % module + "".join("#print axioms %s\n" % t for t in theorems)
    path = os.path.join(LEAN, "XV", "Audit_%s.lean" % module.replace(".", "_"))
    with open(path, "w") as f:
        f.write(src)
    try:
        with Lock("lake"):
            p = run(["lake", "env", "lean", path], cwd=LEAN, timeout=1800)
    finally:
        os.unlink(path)
    out = p.stdout.decode(errors="replace") + p.stderr.decode(errors="replace")
    res = {}
    for t in theorems:
        m = re.search(r"'%s' depends on axioms: \[([^\]]*)\]" % re.escape(t), out)
        if m:
            res[t] = [a.strip() for a in m.group(1).replace("\n", " ").split(",") if a.strip()]
        elif re.search(r"'%s' does not depend on any axioms" % re.escape(t), out):
            res[t] = []
        else:
            res[t] = None
    return res, out

# ---------------------------------------------------------------- prng
class SplitMix:
    def __init__(self, seed):
        self.s = seed & 0xFFFFFFFFFFFFFFFF
    def next(self):
        self.s = (self.s + 0x9E3779B97F4A7C15) & 0xFFFFFFFFFFFFFFFF
        z = self.s
        z = ((z ^ (z >> 30)) * 0xBF58476D1CE4E5B9) & 0xFFFFFFFFFFFFFFFF
        z = ((z ^ (z >> 27)) * 0x94D049BB133111EB) & 0xFFFFFFFFFFFFFFFF
        return z ^ (z >> 31)
    def below(self, n):
        return self.next() % n if n > 0 else 0
    def choice(self, xs):
        return xs[self.below(len(xs))]
    def chance(self, num, den):
        return self.below(den) < num

# ---------------------------------------------------------------- findings / evidence
def load_findings():
    p = os.path.join(VERIF, "known_findings.json")
    if not os.path.exists(p):
        return []
    return json.load(open(p)).get("findings", [])

def write_evidence(pid, tier, seed, coverage, assumptions, wall, violations):
    ev = {"property_id": pid, "tier": tier, "seed": seed, "level": "proof",
          "coverage": coverage, "assumptions": assumptions, "wall_s": round(wall, 2),
          "violations": violations}
    os.makedirs(os.path.join(VERIF, "evidence"), exist_ok=True)
    with open(os.path.join(VERIF, "evidence", pid + ".json"), "w") as f:
        json.dump(ev, f, indent=1, sort_keys=True)
        f.write("\n")

def sha(s):
    if isinstance(s, str):
        s = s.encode()
    return hashlib.sha256(s).hexdigest()[:16]

# ---------------------------------------------------------------- model vs implementation
def run_pair(area, harness, lines, harness_args=(), timeout=3000, env=None):
    """Feed the same case lines to the Lean model driver (`xvdriver <area>`) and to the C++ harness.
    Returns (model_lines, impl_lines, impl_stderr)."""
    data = ("\n".join(lines) + "\n").encode()
    m = run_driver([area], input=data, timeout=timeout).decode(errors="replace").split("\n")
    p = run_harness(harness, harness_args, input=data, timeout=timeout, env=env)
    i = p.stdout.decode(errors="replace").split("\n")
    if m and m[-1] == "":
        m.pop()
    if i and i[-1] == "":
        i.pop()
    err = p.stderr.decode(errors="replace")
    if p.returncode != 0 and len(i) < len(lines):
        i.append("CRASH rc=%d %s" % (p.returncode, sanitizer_summary(err)))
    while len(i) < len(lines):
        i.append("NO-OUTPUT")
    if len(m) != len(lines):
        raise InfraError("driver %s produced %d lines for %d cases" % (area, len(m), len(lines)))
    return m, i, err

def sanitizer_summary(err):
    for l in err.split("\n"):
        if "ERROR: AddressSanitizer" in l or "runtime error:" in l or "SUMMARY:" in l:
            return l.strip()[:300]
    return err.strip()[-200:]

def diff_pairs(lines, m, i):
    return [(k, lines[k], m[k], i[k]) for k in range(len(lines)) if m[k] != i[k]]

def run_lines_resilient(harness, lines, harness_args=(), timeout=3000, env=None, max_restarts=200):
    """Run a one-line-in/one-line-out harness; when it dies (crash, sanitizer abort, timeout) record
    `CRASH <summary>` for the case it died on and restart with the remaining cases."""
    out, crashes, pos = [], [], 0
    restarts = 0
    while pos < len(lines):
        data = ("\n".join(lines[pos:]) + "\n").encode()
        try:
            p = run_harness(harness, harness_args, input=data, timeout=timeout, env=env)
            got = p.stdout.decode(errors="replace").split("\n")
            rc, err = p.returncode, p.stderr.decode(errors="replace")
        except subprocess.TimeoutExpired as e:
            got = (e.stdout or b"").decode(errors="replace").split("\n")
            rc, err = -9, "TIMEOUT"
        if got and got[-1] == "":
            got.pop()
        # a partially written last line cannot be told apart from a full one only if the process died;
        # keep complete lines only when it died
        n_ok = min(len(got), len(lines) - pos)
        if rc != 0 and n_ok < len(lines) - pos:
            out += got[:n_ok]
            summ = "TIMEOUT" if err == "TIMEOUT" else sanitizer_summary(err)
            out.append("CRASH " + summ[:160])
            crashes.append((pos + n_ok, lines[pos + n_ok], summ))
            pos += n_ok + 1
            restarts += 1
            if restarts > max_restarts:
                out += ["CRASH (too many restarts)"] * (len(lines) - pos)
                break
        else:
            out += got[:n_ok]
            out += ["NO-OUTPUT"] * (len(lines) - pos - n_ok)
            pos = len(lines)
    return out, crashes
