"""C08 document tier, part 2: instance cases (exhaustive child sequences, valid-by-construction, single-rule
mutations), schema mutations, running model (Lean Spec driver) and implementation (hx_xsd), Spec-judged comparison."""
import os, re, threading
import common
from props import c08doc as D

XSNS = D.XS

# ----------------------------------------------------------------------------------------------- code names
_codes = {}
def code_name(c):
    """V17 -> AttNotDefinedForElement (from the library headers)"""
    if not _codes:
        for pre, f in (("V", "XMLValidityCodes.hpp"), ("E", "XMLErrorCodes.hpp")):
            try:
                txt = open(os.path.join(common.REPO, "src/xercesc/framework", f)).read()
            except OSError:
                continue
            for m in re.finditer(r"[,{]\s*(\w+)\s*=\s*(\d+)", txt):
                _codes.setdefault(pre + m.group(2), m.group(1))
    return _codes.get(c, c)

def hexs(s):
    return ".".join("%x" % b for b in s.encode())

# ----------------------------------------------------------------------------------------------- instance cases
def alphabet_for(M, inst, c, r):
    """child names for the exhaustive enumeration of type c: [(ns, name, declIndex|None)]"""
    out = []
    def add(x):
        if x not in out: out.append(x)
    for l in D.leaf_list(c["eff"], []):
        lf = M.leaves[l]
        if lf[0] == "d":
            ms = inst.members(lf[1])
            for j in ms[:3]:
                add((M.decls[j]["ns"], M.decls[j]["name"], j))
        else:
            cands = inst.wild_names(lf[1])
            dec = [x for x in cands if x[2] is not None]
            und = [x for x in cands if x[2] is None]
            if dec: add(r.choice(dec))
            if und: add(r.choice(und))
    foreign = [(3, 77, None), (0, 77, None), (1, 77, None)]
    add(r.choice(foreign))
    while len(out) > 5:
        out.pop(r.below(len(out) - 1))
    return out

def seqs(n, maxlen):
    out = []
    def go(pre, left):
        out.append(tuple(pre))
        if left:
            for s in range(n):
                pre.append(s); go(pre, left - 1); pre.pop()
    go([], maxlen)
    return out

def child_elem(M, inst, sym):
    ns, name, j = sym
    if j is None:
        return D.mk(ns, name)
    return inst.elem_for(j, 2, True)

def cases_for_type(M, inst, c, r, thorough, budget):
    """list of (kind, element) for the root declaration of tested type c"""
    rootk = c["root"]
    rd = M.decls[rootk]
    out = []
    def root_with(kids, text=None, attrs=None, **kw):
        e = D.mk(rd["ns"], rd["name"], attrs=inst.attrs_for(c) if attrs is None else attrs, kids=kids, text=text, **kw)
        return e
    if c["kind"] in "OM" and c["eff"] is not None:
        al = alphabet_for(M, inst, c, r)
        maxlen = 3 if len(al) > 3 else 4
        if thorough: maxlen += 1
        allseq = seqs(len(al), maxlen)
        if len(allseq) > budget:
            # keep all short ones, sample the longest layer
            short = [s for s in allseq if len(s) < maxlen]
            long_ = [s for s in allseq if len(s) == maxlen]
            keep = max(0, budget - len(short))
            step = max(1, len(long_) // max(1, keep))
            allseq = short + long_[r.below(step)::step][:keep]
        for s in allseq:
            out.append(("enum", root_with([child_elem(M, inst, al[i]) for i in s],
                                         text=(6 if c["kind"] == "M" and r.chance(1, 3) else None))))
    else:
        out.append(("enum", root_with([], text=None)))
        out.append(("enum", root_with([], text=4)))
        out.append(("enum", root_with([D.mk(1, D.N["e0"], text=3)], text=None)))
    # valid by construction (random words, random members, optional attributes)
    for _ in range(14 if thorough else 6):
        e = D.mk(rd["ns"], rd["name"])
        inst.fill(e, c, 0, False)
        out.append(("valid", e))
    # single-rule mutations
    for _ in range(30 if thorough else 12):
        e = D.mk(rd["ns"], rd["name"])
        inst.fill(e, c, 0, r.chance(1, 2))
        kind = mutate(M, inst, c, e, r)
        out.append(("mut:" + kind, e))
    # xsi:type on the root
    names = [(x["ns"], x["name"], x["id"]) for x in M.ctypes if x["name"] is not None] + [(1, 9001, D.ST1), (4, 1, D.STRING)]
    for (tns, tl, tid) in names:
        if M.is_ct(tid):
            x = M.ctypes[tid]
            related = tid == c["id"] or x["base"] == c["id"] or c.get("base") == tid
            if not related and not r.chance(1, 3):
                continue
            e = D.mk(rd["ns"], rd["name"], xsitype=(tns, tl))
            inst.fill(e, x, 0, True)
        else:
            if not r.chance(1, 2): continue
            e = D.mk(rd["ns"], rd["name"], xsitype=(tns, tl), text=3)
        out.append(("xsitype", e))
    e = D.mk(rd["ns"], rd["name"], xsitype=(1, 999)); inst.fill(e, c, 0, True)
    out.append(("xsitype-unknown", e))
    # restrictions with prohibited attribute uses: the prohibited attribute present / absent (with and without a
    # wildcard that would admit it)
    for x in M.ctypes:
        if x["base"] == c["id"] and x["deriv"] == "r" and x["name"] is not None:
            for u in x["uses_eff"]:
                if u["use"] == "p":
                    for present in (True, False):
                        e = D.mk(rd["ns"], rd["name"], xsitype=(x["ns"], x["name"]))
                        inst.fill(e, x, 0, True)
                        e["attrs"] = [a for a in e["attrs"] if (a[0], a[1]) != (u["ns"], u["name"])]
                        if present:
                            e["attrs"].append((u["ns"], u["name"], u["vc"][1] if u["vc"][0] == "f" else 2))
                        out.append(("prohibited-attr", e))
    # xsi:nil on the root
    e = D.mk(rd["ns"], rd["name"], nil=True, attrs=inst.attrs_for(c)); out.append(("nil", e))
    e = D.mk(rd["ns"], rd["name"], nil=False); inst.fill(e, c, 0, True); out.append(("nil", e))
    e = D.mk(rd["ns"], rd["name"], nil=True); inst.fill(e, c, 0, True); out.append(("nil", e))
    return out

MUTS = ["attr-drop-required", "attr-prohibited", "attr-wrong-fixed", "attr-undeclared", "attr-foreign", "attr-global",
        "abstract-head", "blocked-subst", "blocked-ext-subst", "child-del", "child-ins", "child-swap", "child-dup",
        "text-toggle", "nil-child", "nil-child-content", "nil-not-nillable", "child-xsitype", "fixed-elem", "undeclared-child",
        "deep-attr", "deep-child"]

def all_elems(e, acc):
    acc.append(e)
    for k in e["kids"]: all_elems(k, acc)
    return acc

def mutate(M, inst, c, e, r):
    kind = r.choice(MUTS)
    N = D.N
    def gname(n): return (1, N[n])
    if kind == "attr-drop-required":
        req = [u for u in c["uses_eff"] if u["use"] == "r"]
        if req:
            u = r.choice(req)
            e["attrs"] = [a for a in e["attrs"] if (a[0], a[1]) != (u["ns"], u["name"])]
    elif kind == "attr-prohibited":
        pro = [u for u in c["uses_eff"] if u["use"] == "p"]
        if pro:
            u = r.choice(pro); e["attrs"].append((u["ns"], u["name"], 2))
        else:
            kind = "attr-undeclared"; e["attrs"].append((0, 19, 2))
    elif kind == "attr-wrong-fixed":
        fx = [u for u in c["uses_eff"] if u["vc"][0] == "f" and u["use"] != "p"]
        if fx:
            u = r.choice(fx)
            e["attrs"] = [a for a in e["attrs"] if (a[0], a[1]) != (u["ns"], u["name"])] + [(u["ns"], u["name"], u["vc"][1] + 1)]
    elif kind == "attr-undeclared":
        e["attrs"].append((0, 19, 2))
    elif kind == "attr-foreign":
        e["attrs"].append((r.choice([3, 2, 1]), 18, 2))
    elif kind == "attr-global":
        if not any((a[0], a[1]) == (2, 5) for a in e["attrs"]):
            e["attrs"].append((2, 5, r.choice([9, 8])))
    elif kind in ("abstract-head", "blocked-subst", "blocked-ext-subst"):
        want = {"abstract-head": ("h", "h"), "blocked-subst": ("hb", "mb"), "blocked-ext-subst": ("hx", r.choice(["mx1", "mx2"]))}[kind]
        for k in e["kids"]:
            if (k["ns"], k["name"]) in (gname(want[0]),) or (kind == "abstract-head" and (k["ns"], k["name"]) in (gname("m1"), gname("m2"), gname("m3"))):
                j = M.gdecl(1, N[want[1]])
                x = inst.elem_for(j, 2, True)
                k.clear(); k.update(x)
                break
    elif kind == "child-del" and e["kids"]:
        del e["kids"][r.below(len(e["kids"]))]
    elif kind == "child-ins":
        j = r.choice([M.gdecl(1, N["e0"]), M.gdecl(1, N["e2"]), M.gdecl(2, N["f0"]), M.gdecl(1, N["m1"])])
        e["kids"].insert(r.below(len(e["kids"]) + 1), inst.elem_for(j, 2, True))
    elif kind == "child-swap" and len(e["kids"]) > 1:
        i = r.below(len(e["kids"]) - 1)
        e["kids"][i], e["kids"][i + 1] = e["kids"][i + 1], e["kids"][i]
    elif kind == "child-dup" and e["kids"]:
        i = r.below(len(e["kids"]))
        import copy
        e["kids"].insert(i, copy.deepcopy(e["kids"][i]))
    elif kind == "text-toggle":
        x = r.choice(all_elems(e, []))
        x["text"] = None if x.get("text") is not None else 6
    elif kind in ("nil-child", "nil-child-content", "nil-not-nillable"):
        target = {"nil-child": ("n0", "n1"), "nil-child-content": ("n0", "n1"), "nil-not-nillable": ("e0", "e2", "f0")}[kind]
        tn = [gname(t) if t[0] != "f" else (2, N[t]) for t in target]
        for k in all_elems(e, [])[1:]:
            if (k["ns"], k["name"]) in tn:
                k["nil"] = True if kind != "nil-not-nillable" else r.choice([True, False])
                if kind == "nil-child":
                    k["text"] = None; k["kids"] = []
                break
    elif kind == "child-xsitype":
        cands = [k for k in all_elems(e, [])[1:]]
        if cands:
            k = r.choice(cands)
            k["xsitype"] = r.choice([(1, 2), (1, 3), (1, 1), (1, 9001), (4, 1)])
    elif kind == "fixed-elem":
        for k in all_elems(e, [])[1:]:
            j = None
            for idx, d in enumerate(M.decls):
                if (d["ns"], d["name"]) == (k["ns"], k["name"]) and d["vc"][0] == "f":
                    j = idx
            if j is not None:
                k["text"] = M.decls[j]["vc"][1] + 1
                break
    elif kind == "undeclared-child":
        e["kids"].insert(r.below(len(e["kids"]) + 1), D.mk(r.choice([0, 1, 2, 3]), 77))
    elif kind == "deep-attr":
        xs = all_elems(e, [])[1:]
        if xs:
            x = r.choice(xs); x["attrs"].append((0, 19, 1))
    elif kind == "deep-child":
        xs = all_elems(e, [])[1:]
        if xs:
            x = r.choice(xs); x["kids"].append(D.mk(1, D.N["e0"], text=3))
    return kind

# ----------------------------------------------------------------------------------------------- schema mutations
def schema_mutations(M, docs, r):
    """textual single-constraint mutations of the root schema document: (kind, docs, expectation)
       expectation: 'always' = must be reported with and without full checking, 'full' = only under full checking"""
    out = []
    sysid, txt = docs[0]
    def with_(t):
        return [(sysid, t)] + docs[1:]
    m = re.search(r' minOccurs="(\d+)" maxOccurs="(\d+)"', txt)
    if m:
        out.append(("min-gt-max", with_(txt[:m.start()] + ' minOccurs="%d" maxOccurs="%s"' % (int(m.group(2)) + 1, m.group(2)) + txt[m.end():]), "always"))
    m = re.search(r'(<xs:attribute name="n1[0-3]"[^>]*/>)', txt)
    if m:
        out.append(("dup-attribute", with_(txt[:m.end()] + m.group(1) + txt[m.end():]), "always"))
    m = re.search(r"<xs:all[^>]*>(<xs:element [^>]*?)(/>)", txt)
    if m and "maxOccurs" not in m.group(1):
        out.append(("all-max-2", with_(txt[:m.end(1)] + ' maxOccurs="2"' + txt[m.end(1):]), "always"))
    # UPA: a sequence (x?, x) in a fresh type
    upa = '<xs:complexType name="Tupa"><xs:sequence><xs:element ref="a:n10" minOccurs="0"/><xs:element ref="a:n10"/></xs:sequence></xs:complexType>'
    upa2 = '<xs:complexType name="Tupa"><xs:sequence><xs:any namespace="##any" processContents="skip" minOccurs="0"/><xs:element ref="a:n10"/></xs:sequence></xs:complexType>'
    end = txt.rindex("</xs:schema>")
    out.append(("upa-elem-elem", with_(txt[:end] + upa + txt[end:]), "full"))
    out.append(("upa-any-elem", with_(txt[:end] + upa2 + txt[end:]), "full"))
    # invalid restriction: the restricted particle widens the base range
    bad = ('<xs:complexType name="Tb0"><xs:sequence><xs:element ref="a:n10" maxOccurs="2"/></xs:sequence></xs:complexType>'
           '<xs:complexType name="Tb1"><xs:complexContent><xs:restriction base="a:Tb0"><xs:sequence><xs:element ref="a:n10" maxOccurs="3"/>'
           '</xs:sequence></xs:restriction></xs:complexContent></xs:complexType>')
    out.append(("restriction-widens", with_(txt[:end] + bad + txt[end:]), "full"))
    good = bad.replace('maxOccurs="3"', 'minOccurs="2" maxOccurs="2"')
    out.append(("restriction-ok", with_(txt[:end] + good + txt[end:]), "never"))
    bad2 = ('<xs:complexType name="Tc0"><xs:attribute name="q" type="xs:string" use="required"/></xs:complexType>'
            '<xs:complexType name="Tc1"><xs:complexContent><xs:restriction base="a:Tc0"><xs:attribute name="q" type="xs:string" use="optional"/>'
            '</xs:restriction></xs:complexContent></xs:complexType>')
    out.append(("restriction-attr-required-to-optional", with_(txt[:end] + bad2 + txt[end:]), "always"))
    bad3 = '<xs:element name="circ1" type="xs:string" substitutionGroup="a:circ2"/><xs:element name="circ2" type="xs:string" substitutionGroup="a:circ1"/>'
    out.append(("circular-substitution", with_(txt[:end] + bad3 + txt[end:]), "always"))
    bad4 = '<xs:element name="dupel" type="xs:string"/><xs:element name="dupel" type="xs:string"/>'
    out.append(("duplicate-global-element", with_(txt[:end] + bad4 + txt[end:]), "always"))
    bad5 = '<xs:complexType name="Tedc"><xs:sequence><xs:element name="x" type="xs:string"/><xs:element ref="a:n11"/><xs:element name="x" type="a:T1"/></xs:sequence></xs:complexType>'
    out.append(("element-declarations-inconsistent", with_(txt[:end] + bad5 + txt[end:]), "always"))
    return out

def s_line(docs):
    return "S %d %s" % (len(docs), " ".join("%s=%s" % (sid, hexs(t)) for sid, t in docs))

# ----------------------------------------------------------------------------------------------- observations
def parse_S(line):
    """-> list of 8 (w, e, f, codes) or None"""
    if not line.startswith("S "): return None
    out = []
    for part in line[2:].split(" "):
        m = re.match(r"c(\d)=w(\d+),e(\d+),f(\d+):(\S+)$", part)
        if not m:
            m2 = re.match(r"c(\d)=(exc:\S+)$", part)
            if m2: out.append((0, 1, 1, [m2.group(2)])); continue
            return None
        out.append((int(m.group(2)), int(m.group(3)), int(m.group(4)), [] if m.group(5) == "-" else m.group(5).split("+")))
    return out if len(out) == 8 else None

def parse_I(line):
    """-> (list of 8 observations, each None (== c0) or dict(e, f, codes, dump) or str raw)"""
    if not line.startswith("I "): return None
    parts = line[2:].split(" | ")
    obs = []
    for p in parts:
        m = re.match(r"c(\d)==$", p)
        if m: obs.append(None); continue
        m = re.match(r"c(\d)=e(\d+),f(\d+):(\S+) D=(.*)$", p, re.S)
        if m:
            obs.append(dict(e=int(m.group(2)), f=int(m.group(3)), codes=[] if m.group(4) == "-" else m.group(4).split("+"), dump=m.group(5)))
        else:
            obs.append(p)
    return obs if len(obs) == 8 else None

def parse_dump(d):
    """-> list (document order) of dict(name='{ns}local', type='{ns}name', attrs=set('{ns}local=value[!]'), text)"""
    out = []
    for m in re.finditer(r"<(\{[^}]*\}[^ ]+) T=(\{[^}]*\}\S+)((?: \{[^}]*\}[^ =]+=[^ ]*)*) #([^>]*)>", d):
        attrs = set(x for x in m.group(3).split(" ") if x)
        out.append(dict(name=m.group(1), type=m.group(2), attrs=attrs, text=m.group(4)))
    return out

def type_text(M, t):
    if t == D.STRING: return "{%s}string" % XSNS
    if t == D.ST1: return "{urn:a}st1"
    c = M.ctypes[t]
    return "{%s}%s" % (D.NSURI[c["ns"]], "#anon" if c["name"] is None else D.tname(c))

def parse_spec(line):
    """'valid eid:ns:name:type:text:attrs …' | 'invalid a,b' -> (valid, classes, infos)"""
    if line.startswith("invalid "):
        return False, line[8:].split(","), []
    if not line.startswith("valid"):
        return None, [line], []
    infos = []
    for w in line.split(" ")[1:]:
        f = w.split(":", 5)
        if len(f) < 6: continue
        attrs = set()
        if f[5]:
            for a in f[5].split(";"):
                m = re.match(r"(\d+):(\d+)=(\d+)(!?)$", a)
                if m:
                    attrs.add("{%s}%s=%s%s" % (D.NSURI[int(m.group(1))], D.lname(int(m.group(2))), D.vtext(int(m.group(3))), m.group(4)))
        infos.append(dict(eid=int(f[0]), ns=int(f[1]), name=int(f[2]), type=int(f[3]), text=None if f[4] == "-" else int(f[4]), attrs=attrs))
    return True, [], infos

def judge_instance(M, kind, e, spec_line, impl_line):
    """-> list of (key, what)"""
    sv, classes, infos = parse_spec(spec_line)
    if sv is None:
        raise common.InfraError("xsd spec driver: " + spec_line[:200])
    obs = parse_I(impl_line)
    if obs is None or not isinstance(obs[0], dict):
        return [("doc:no-verdict", "harness output: " + impl_line[:160])]
    bad = []
    o = obs[0]
    diff = [k for k in range(1, 8) if obs[k] is not None]
    if diff:
        k = diff[0]
        ok = obs[k]
        desc = ("e%d,f%d:%s" % (ok["e"], ok["f"], "+".join(code_name(c) for c in ok["codes"]))) if isinstance(ok, dict) else str(ok)[:80]
        same_verdict = isinstance(ok, dict) and (ok["e"] == 0) == (o["e"] == 0) and ok["f"] == o["f"]
        # both invalid with different error classes (e.g. IGXMLScanner adds ElementNotDefined for an element that is also
        # rejected by the content model): not a verdict difference, not reported
        if not (same_verdict and o["e"] > 0):
          which = "sgscanner" if all(k & 1 for k in diff) else ("fullchecking" if all(k & 4 for k in diff) else
                  ("sax2" if all(k & 2 for k in diff) else "mixed"))
          field = ""
          if same_verdict:
              # same errors: the difference is in the delivered document (PSVI type names, defaulted attributes, element
              # default text) — name the first element and field that differ
              da, db = parse_dump(o["dump"]), parse_dump(ok["dump"])
              field = "; delivered documents differ in length (%d / %d elements)" % (len(da), len(db)) if len(da) != len(db) else ""
              for n, (x, y) in enumerate(zip(da, db)):
                  fs = [f for f in ("name", "type", "attrs", "text") if x[f] != y[f]]
                  if fs:
                      f = fs[0]
                      field = "; first difference: element #%d %s, %s: c0 delivers %s, c%d delivers %s" % (
                          n, x["name"], {"type": "PSVI type name", "attrs": "attributes", "text": "character data", "name": "name"}[f],
                          sorted(x[f]) if f == "attrs" else repr(x[f]), k, sorted(y[f]) if f == "attrs" else repr(y[f]))
                      break
          bad.append(("doc:configs-disagree:" + which + (":delivered-content" if same_verdict else ":verdict"),
                    "configuration c%d (bit0 SGXMLScanner, bit1 SAX2, bit2 full checking) reports %s, c0 reports e%d,f%d:%s%s" % (
                        k, desc, o["e"], o["f"], "+".join(code_name(c) for c in o["codes"]), field)))
    if o["f"]:
        bad.append(("doc:fatal-on-wellformed", "fatal error on a well-formed document: " + "+".join(code_name(c) for c in o["codes"])))
        return bad
    iv = o["e"] == 0
    if sv and not iv:
        bad.append(("doc:rejects-valid:" + code_name(o["codes"][0] if o["codes"] else "?"),
                    "Spec: valid; implementation reports " + "+".join(code_name(c) for c in o["codes"])))
    if not sv and iv:
        bad.append(("doc:accepts-invalid:" + classes[0], "Spec: invalid (%s); implementation reports no error" % ",".join(classes)))
    if sv and iv:
        dump = parse_dump(o["dump"])
        for inf in infos:
            if inf["eid"] >= len(dump):
                bad.append(("doc:psvi:missing-element", "element #%d missing from the delivered document" % inf["eid"])); break
            dd = dump[inf["eid"]]
            want_t = type_text(M, inf["type"])
            if dd["type"] != want_t:
                bad.append(("doc:psvi:type-name", "element #%d %s: reported type %s, Spec governing type %s" % (inf["eid"], dd["name"], dd["type"], want_t)))
            if dd["attrs"] != inf["attrs"]:
                bad.append(("doc:psvi:attributes", "element #%d %s: delivered attributes %s, Spec %s" % (inf["eid"], dd["name"], sorted(dd["attrs"]), sorted(inf["attrs"]))))
            want_x = "" if inf["text"] is None else D.vtext(inf["text"])
            if dd["text"] != want_x:
                bad.append(("doc:psvi:text", "element #%d %s: delivered character data '%s', Spec '%s'" % (inf["eid"], dd["name"], dd["text"], want_x)))
    return bad
