"""C12 — serialised DOM re-parses to an equal tree; output is always well-formed.

Theorems: XV.Props.C12 (escaping core: formatter = reference escaping, reader reads it back, minimality,
unrepresentables as references, termination, CDATA splitting) over the code-shaped models
XV.Model.Formatter / XV.Model.Cdata / XV.Model.Serializer with the escape rows, standard references,
serializer literals and XML 1.1 classes regenerated from the sources (Gen/Escapes).

Correspondence:
 (a) the real XMLFormatter (every escape mode x unrep mode x 8 intrinsic encodings x XML 1.0/1.1) against the
     model on generated strings; the bytes are decoded with the spec codecs and, independently of the model,
     read back with the executable Spec (XV.Spec.Unescape): the text must come back unchanged.
 (b) the property itself, judged WITHOUT the model: DOM trees built through the API from generated build scripts
     and parsed from generated documents are serialised with the real DOMLSSerializer for encoding x feature set
     x XML version, re-parsed with the real parser, compared (equality up to the division of character data
     among adjacent Text/CDATA nodes and up to namespace declarations added by fix-up), serialised again
     (same bytes), decoded with the spec codec.  A tree that cannot be expressed must be refused."""
import json, os, re, subprocess, codecs
from concurrent.futures import ThreadPoolExecutor
import common
from props import c05

PID = "C12"
GEN = ["Escapes", "ByteTables", "Utf8Tables", "Recognizer"]
LEAN_MODULE = "XV.Props.C12"
THEOREMS = ["XV.Props.C12." + t for t in (
    "legal_units", "coders_good", "formatBuf_writes", "escape_rows_exact", "escape_sufficient_text",
    "escape_sufficient_attr", "xml11_eol_not_escaped", "escape_sufficient_xml11_fixed", "escape_minimal",
    "unrep_as_charref", "formatter_terminates", "formatter_hangs_on_trailing_high_surrogate",
    "cdata_split_preserves", "cdata_asis_loses_terminator", "table_faithful", "bestfit_breaks_wellformedness",
    "ensureValid_iff_legal", "serialize_content_reparses", "serialize_idempotent", "serialize_refuses_illformed",
    "serializer_emits_illformed", "nsfixup_innermost_wins", "nsfixup_binds_all", "nsfixup_no_redundant_declaration",
    "reparse_equal_tree", "reparse_equal_tree_roundtrip", "reparse_cr_in_comment_lost")]
RULE = ("formatter: strings of 0-14 units drawn from hazard alphabets (markup characters, CR/TAB/LF, ]]>, NEL/LSEP, "
        "C0/C1 controls, Latin-1, non-Latin-1, supplementary pairs, lone surrogates) plus a few > kTmpBufSize strings, "
        "x 4 escape modes x 3 unrep modes x 8 intrinsic encodings (+3 ICU, spec-judged only) x XML 1.0/1.1; "
        "trees: build scripts of 1-12 nodes (elements with/without namespaces and prefixes, attributes, text, CDATA, "
        "comments, PIs, doctype) with one hazard class per tree mostly, and parsed documents with DTD entities / default "
        "attributes, x 11 encodings x feature sets x XML version; namespace-shadowing trees (depth 2-5, 2-3 prefixes incl. the empty "
        "one x 2-3 namespaces, no xmlns attributes, U1>U2>U1 on one prefix in most trees); long-run trees around the transcoder "
        "block sizes via write() and writeToString(); non-trivial = contains at least one hazard unit or a "
        "namespace; distinct by case text")
ASSUMPTIONS = ["the transcoder behind the formatter is modelled at UTF-16 unit level (canTranscodeTo + unit-wise / pair-wise "
               "transcodeTo); byte-level exactness of the intrinsic transcoders is C05",
               "the kTmpBufSize block loop of handleUnEscapedChars is modelled as one transcoding of the run (each call eats >= 1 unit, "
               "what is not eaten is offered again); this is NOT proved but checked every run against the Spec with runs of 1/2/3/4-byte "
               "characters around 4096 pairs / 5461 / 8192 / 16384 units in UTF-8, UTF-16, ISO-8859-1, US-ASCII, IBM1047, windows-1252, "
               "through XMLFormatter and through DOMLSSerializer write() / writeToString()",
               "namespace fix-up is modelled (XV.Model.NsFixup) for API-built trees whose elements all have a namespace and that carry no "
               "explicit xmlns attributes; null-namespace elements, explicit declarations, attributes without prefix: round trip only",
               "format-pretty-print, canonical-form, DOMLSSerializerFilter, file/string targets: not modelled (pretty printing off)",
               "XML 1.1 documents are only serialised with xml-declaration=true (the version must travel with the bytes)"]
TRUSTED = ["XV.Spec.Unescape (XML 1.0/1.1 sections 2.2, 2.4, 2.11, 3.3.3, 4.1, 4.6) as transcribed",
           "Python codecs for the ICU encodings and the tree/document generators in tools/props/c12.py",
           "harness equality eqc (character data coalesced, xmlns attributes added by fix-up tolerated)"]

# Which of the proposed repairs (fixes/c12-*.diff) are in /repo.  The models mirror the code AS IT IS: flip a switch
# when the corresponding fix is committed (and retire the known finding); nothing else changes.
FIXED = {"eol": True,        # c12-xml11-eol.diff                  (XMLFormatter::inEscapeList)
         "progress": True,   # c12-formatter-progress-and-bounds   (handleUnEscapedChars / specialFormat)
         "cdata": True,      # c12-cdata-split.diff + ensureValidString in the split branch (c12-wellformed-checks.diff)
         "wf": True}         # c12-wellformed-checks.diff          (comment '--', PI '?>')
for _k in list(FIXED):
    if os.environ.get("VERIF_C12_FIXED_" + _k.upper()) == "1": FIXED[_k] = True
def fx_bits(): return (1 if FIXED["eol"] else 0) | (2 if FIXED["progress"] else 0)
def ts_bits(): return (64 if FIXED["cdata"] else 0) | (128 if FIXED["wf"] else 0) | (256 if FIXED["eol"] else 0) | (512 if FIXED["progress"] else 0)

INTRINSIC = ["UTF-8", "UTF-16", "ISO-8859-1", "US-ASCII", "windows-1252", "IBM037", "IBM1047", "IBM1140"]
ICU = {"ISO-8859-2": "iso8859_2", "windows-1251": "cp1251", "KOI8-R": "koi8_r"}

def hx(v):
    return ".".join("%x" % x for x in v) if v else "-"
def unhx(s):
    return [] if s in ("-", "") else [int(x, 16) for x in s.split(".")]
def U(s):
    """python str -> utf-16 units"""
    out = []
    for ch in s:
        out += c05.utf16(ord(ch))
    return out

# ------------------------------------------------------------------ spec codecs (bytes -> UTF-16 units)
_tabs = {}
def tables():
    if not _tabs:
        _tabs.update(c05.load_gen_tables())
    return _tabs

def decode_units(enc, bs):
    """Decode bytes of the target encoding into UTF-16 units; None if they are not a legal byte sequence of it
    (UTF-8 is read leniently for surrogate code points so that ill-formed INPUT strings can be compared)."""
    try:
        if enc == "UTF-8":
            s = bytes(bs).decode("utf-8", "surrogatepass")
            return U(s)
        if enc == "UTF-16":
            if len(bs) % 2: return None
            return [bs[i] | bs[i + 1] << 8 for i in range(0, len(bs), 2)]
        if enc == "ISO-8859-1":
            return list(bs)
        if enc == "US-ASCII":
            return None if any(b > 127 for b in bs) else list(bs)
        if enc in tables():
            fr = tables()[enc][0]
            return [fr[b] for b in bs]
        return U(bytes(bs).decode(ICU[enc]))
    except (UnicodeDecodeError, KeyError):
        return None

def representable(enc, cp):
    if enc in ("UTF-8", "UTF-16"): return True
    if enc == "ISO-8859-1": return cp < 256
    if enc == "US-ASCII": return cp < 128
    if enc in tables(): return cp in tables()[enc][1] and tables()[enc][1][cp] != 0
    try:
        chr(cp).encode(ICU[enc]); return True
    except (UnicodeEncodeError, ValueError):
        return False

def scalars(units):
    """UTF-16 units -> list of scalar values, or None when a surrogate is unpaired"""
    out = []; i = 0
    while i < len(units):
        u = units[i]
        if 0xD800 <= u <= 0xDBFF:
            if i + 1 < len(units) and 0xDC00 <= units[i + 1] <= 0xDFFF:
                out.append(0x10000 + ((u - 0xD800) << 10) + units[i + 1] - 0xDC00); i += 2; continue
            return None
        if 0xDC00 <= u <= 0xDFFF: return None
        out.append(u); i += 1
    return out

def is_char(v11, c):
    if v11: return 1 <= c <= 0xD7FF or 0xE000 <= c <= 0xFFFD or 0x10000 <= c <= 0x10FFFF
    return c in (9, 10, 13) or 0x20 <= c <= 0xD7FF or 0xE000 <= c <= 0xFFFD or 0x10000 <= c <= 0x10FFFF
def is_restricted11(c):
    return 1 <= c <= 8 or c in (0xB, 0xC) or 0xE <= c <= 0x1F or 0x7F <= c <= 0x84 or 0x86 <= c <= 0x9F
def legal(v11, units):
    sc = scalars(units)
    return sc is not None and all(is_char(v11, c) for c in sc)

# ------------------------------------------------------------------ running the harness (parallel, resilient, stderr kept)
def _run_chunk(lines, timeout, env=None):
    out, errs, pos = [], [], 0
    restarts = 0
    while pos < len(lines):
        data = ("\n".join(lines[pos:]) + "\n").encode()
        try:
            p = common.run_harness("hx_ser2", input=data, timeout=timeout, env=env)
            got = p.stdout.decode(errors="replace").split("\n"); rc = p.returncode; err = p.stderr.decode(errors="replace")
        except subprocess.TimeoutExpired as e:
            got = (e.stdout or b"").decode(errors="replace").split("\n"); rc = -9; err = "TIMEOUT"
        if got and got[-1] == "": got.pop()
        n_ok = min(len(got), len(lines) - pos)
        if err and err != "TIMEOUT":
            errs.append(err)
        if rc != 0 and n_ok < len(lines) - pos:
            out += got[:n_ok]
            out.append("CRASH " + ("TIMEOUT" if err == "TIMEOUT" else common.sanitizer_summary(err))[:200])
            pos += n_ok + 1; restarts += 1
            if restarts > 60:
                out += ["CRASH (too many restarts)"] * (len(lines) - pos); break
        else:
            out += got[:n_ok] + ["NO-OUTPUT"] * (len(lines) - pos - n_ok); pos = len(lines)
    return out, errs

def run_hx(lines, timeout=600, retry_hangs=True, env=None, per_proc=500):
    if not lines: return [], ""
    common.build_harness("hx_ser2")
    n = max(1, min(common.NCPU, (len(lines) + per_proc - 1) // per_proc))
    # round-robin, so that slow neighbours (the hang candidates are generated next to each other) spread over all workers
    chunks = [lines[i::n] for i in range(n)]
    with ThreadPoolExecutor(max_workers=n) as ex:
        res = list(ex.map(lambda c: _run_chunk(c, timeout, env), chunks))
    out = [None] * len(lines)
    for i, r in enumerate(res):
        out[i::n] = r[0]
    err = "\n".join(e for r in res for e in r[1])
    if retry_hangs:
        # a time-out may be the machine, not the code: run those cases once more, alone, with a 6x longer limit
        idx = [i for i, o in enumerate(out) if o in ("hang", "HANG") or (o.startswith("CRASH") and "TIMEOUT" in o)]
        if idx and len(idx) <= 400:
            again, _ = run_hx([lines[i] for i in idx], timeout=timeout, retry_hangs=False, env={"HX_ALARM_SCALE": "4"}, per_proc=1)
            for i, o in zip(idx, again):
                out[i] = o
    return out, err

def run_model(lines):
    if not lines: return []
    o = common.run_driver(["fmt"], input=("\n".join(lines) + "\n").encode()).decode(errors="replace").split("\n")
    if o and o[-1] == "": o.pop()
    if len(o) != len(lines):
        raise common.InfraError("driver fmt produced %d lines for %d cases" % (len(o), len(lines)))
    return o

# ------------------------------------------------------------------ generators: strings
MARKUP = [0x26, 0x3C, 0x3E, 0x22, 0x27]
WS = [0xD, 0x9, 0xA]
CDEND = [0x5D, 0x5D, 0x3E]
EOL11 = [0x85, 0x2028]
CTL11 = [0x1, 0x8, 0xB, 0x1F, 0x7F, 0x84, 0x86, 0x9F]
LATIN = [0xE9, 0xA0, 0xFF, 0x80, 0x9F]
NONLATIN = [0x100, 0x3A9, 0x20AC, 0x4E2D, 0xFFFD, 0x2029, 0xD7FF, 0xE000]
BESTFIT = [0xFF1C, 0xFF06, 0xFF1E, 0xFF02, 0xFF21, 0x110, 0x203E]
SUPP = [[0xD83D, 0xDE00], [0xD800, 0xDC00], [0xDBFF, 0xDFFF]]
PLAIN = [0x61, 0x62, 0x7A, 0x30, 0x20, 0x5D, 0x2D, 0x3F, 0x3B, 0x23]

def rand_units(r, classes, n):
    out = []
    for _ in range(n):
        k = r.choice(classes)
        if k == "plain": out.append(r.choice(PLAIN))
        elif k == "markup": out.append(r.choice(MARKUP))
        elif k == "ws": out += r.choice([[0xD], [0x9], [0xA], [0xD, 0xA]])
        elif k == "cdend": out += CDEND
        elif k == "eol11": out.append(r.choice(EOL11))
        elif k == "ctl11": out.append(r.choice(CTL11))
        elif k == "latin": out.append(r.choice(LATIN))
        elif k == "nonlatin": out.append(r.choice(NONLATIN))
        elif k == "bestfit": out.append(r.choice(BESTFIT))
        elif k == "supp": out += r.choice(SUPP)
        elif k == "lone": out.append(r.choice([0xD800, 0xDBFF, 0xDC00, 0xDFFF, 0xD83D]))
        elif k == "nonchar": out.append(r.choice([0xFFFE, 0xFFFF]))
    return out

ALLC = ["plain", "markup", "ws", "cdend", "eol11", "ctl11", "latin", "nonlatin", "supp", "bestfit"]

# (encoding, the units of one character, tag)
LONG_VARIANTS = [("UTF-8", [0x61], "1"), ("UTF-8", [0xE9], "2"), ("UTF-8", [0x4E2D], "3"), ("UTF-8", [0xD83D, 0xDE00], "pair"),
                 ("UTF-16", [0x61], "1"), ("UTF-16", [0x4E2D], "3"), ("UTF-16", [0xD83D, 0xDE00], "pair"),
                 ("ISO-8859-1", [0xE9], "2"), ("US-ASCII", [0x61], "1"), ("IBM1047", [0x61], "1"), ("windows-1252", [0x20AC], "3")]
# where one transcodeTo call cannot take everything it is offered: all four lengths around these bounds every run
RELEVANT = {"UTF-8": ((5461, "3"), (8192, "2"), (4096, "pair")), "UTF-16": ((8192, "1"), (8192, "3"), (4096, "pair"))}

def gen_formatter_cases(ctx):
    r = ctx.rng
    th = ctx.thorough()
    cases = []      # (line, meta)
    def add(enc, v11, esc, unrep, units, op="FB", model=True):
        cases.append(("%s %s %d %d %d %d %s" % (op, enc, v11, fx_bits(), esc, unrep, hx(units)),
                      {"enc": enc, "v11": v11, "esc": esc, "unrep": unrep, "units": units, "op": op, "model": model}))
    # every single unit of interest, every mode, every encoding (structured part)
    singles = sorted(set(MARKUP + WS + EOL11 + CTL11 + LATIN + NONLATIN + BESTFIT + PLAIN + [0x7E, 0x7F, 0xA0, 0x152, 0x2122, 0x20AC]))
    for enc in INTRINSIC:
        for v11 in (0, 1):
            for esc in range(4):
                for c in singles:
                    add(enc, v11, esc, 1, [0x61, c, 0x62])
                for p in SUPP:
                    add(enc, v11, esc, 1, p + [0x61])
            for esc in (2, 3):
                add(enc, v11, esc, 1, [0x5D, 0x5D, 0x3E, 0xD, 0xA, 0x9, 0x22])
    n = 30000 if th else 2200
    for _ in range(n):
        enc = r.choice(INTRINSIC)
        v11 = r.below(2)
        esc = r.choice([0, 1, 2, 3, 3, 2])
        unrep = r.choice([0, 1, 1, 1, 2])
        cl = r.choice([ALLC, ALLC, ["plain", "markup", "ws"], ["plain", "supp", "nonlatin"], ["plain", "latin", "eol11", "ctl11"],
                       ALLC + ["lone"], ["plain", "lone", "supp"], ALLC + ["nonchar"]])
        units = rand_units(r, cl, r.choice([0, 1, 2, 3, 5, 8, 14]))
        add(enc, v11, esc, unrep, units)
    # the known hang candidates: text ending in an unpaired high surrogate
    for enc in INTRINSIC:
        for esc in ((0, 3) if enc == "UTF-8" else (3,)):
            for unrep in ((0, 1, 2) if enc == "UTF-8" else (1,)):
                add(enc, 0, esc, unrep, [0x61, 0xD83D])
        add(enc, 0, 3, 1, [0xD83D, 0x61]); add(enc, 0, 3, 1, [0xDE00, 0x61]); add(enc, 0, 3, 1, [0xD83D, 0x26])
    # Runs around the block sizes of handleUnEscapedChars: it hands transcodeTo at most kTmpBufSize (16384) UNITS and
    # transcodeTo fills at most kTmpBufSize BYTES, so one call eats 16384 one-byte, 8192 two-byte (UTF-16: every unit),
    # 5461 three-byte characters or 4096 surrogate pairs; what is offered but not eaten must come back in the next
    # call.  Generated EVERY run, all judged by the Spec (reference escaping + reader); the model (quadratic in the
    # run length) is compared on a few of them.
    for enc, unit, tag in LONG_VARIANTS:
        bounds = [4096, 8192] if tag == "pair" else [5461, 8192, 16384]
        for b in bounds:
            deltas = (-1, 0, 1, 2) if (th or (b, tag) in (RELEVANT.get(enc, ()))) else (r.choice([-1, 0]), 1)
            for d in deltas:
                n = b + d
                run = unit * n
                esc, unrep = r.choice([(3, 1), (3, 1), (2, 1), (0, 1), (0, 0), (3, 0), (1, 2)])
                add(enc, 0, esc, unrep, run, model=(d == 1 and b in (5461, 8192, 4096) and (th or r.chance(1, 3))))
    for enc in (INTRINSIC if th else ["UTF-8", "UTF-16", "ISO-8859-1"]):
        # an escaped character / an unrepresentable one / a pair right at the 16384-unit hand-over, then more text
        base = [0x61] * 16383 + [0xD83D, 0xDE00] + [0x26, 0x20AC] * 20 + [0x62] * 300
        add(enc, 0, 3, 1, base, model=(enc != "UTF-16" or th))
        add(enc, 0, 3, 1, [0x4E2D] * 8193 + [0x26] + [0x4E2D] * 8193, model=False)
        if th: add(enc, 0, 0, 1, [0x61] * 40000)
    # ICU encodings: judged by the Spec only
    for enc in ICU:
        for _ in range(300 if th else 60):
            add(enc, r.below(2), r.choice([2, 3]), 1, rand_units(r, ["plain", "markup", "ws", "latin", "nonlatin", "supp"], r.choice([1, 3, 8])))
    # exact-size source buffers (a read past `count` is an error whatever the content)
    for enc in ("ISO-8859-1", "UTF-8"):
        add(enc, 0, 3, 1, [0x61, 0x20AC], "FX"); add(enc, 0, 3, 1, [0x61, 0x62], "FX"); add(enc, 0, 3, 1, [0x61, 0xD83D, 0xDE00], "FX")
    return cases

def brief(units):
    """a string of units for a message: in full when short, else as runs"""
    if len(units) <= 40: return hx(units)
    runs = []; i = 0
    while i < len(units) and len(runs) < 8:
        j = i
        while j < len(units) and units[j] == units[i]: j += 1
        runs.append("%x x%d" % (units[i], j - i) if j - i > 1 else "%x" % units[i]); i = j
    return "%d units [%s%s]" % (len(units), ", ".join(runs), ", …" if i < len(units) else "")

def canon_impl_format(enc, o):
    """harness line -> model vocabulary (bytes decoded into units)"""
    f = o.split()
    if not f: return "NO-OUTPUT", None
    if f[0] == "ok":
        us = decode_units(enc, unhx(f[1]))
        if us is None: return "undecodable " + f[1], None
        return "ok " + hx(us), us
    if f[0] == "exc": return "exc " + f[1], None
    return o, None

def formatter_correspondence(ctx):
    cases = gen_formatter_cases(ctx)
    lines = [c[0] for c in cases]
    mlines = [l for l, m in cases if m["enc"] in INTRINSIC and m["op"] == "FB" and m.get("model", True)]
    mo = dict(zip(mlines, run_model(mlines)))
    io, err = run_hx(lines, retry_hangs=False)
    # a time-out the model does not predict may be the machine: those cases run once more, alone, with a longer limit
    idx = [i for i, o in enumerate(io) if (o == "hang" or (o.startswith("CRASH") and "TIMEOUT" in o)) and mo.get(lines[i]) != "hang"]
    if idx:
        again, _ = run_hx([lines[i] for i in idx], retry_hangs=False, env={"HX_ALARM_SCALE": "4"}, per_proc=1)
        for i, o in zip(idx, again): io[i] = o
    stats = {"cases": len(lines), "model_compared": 0, "disagree": 0, "spec_judged": 0, "outcomes": {}}
    rd_lines, rd_meta = [], []
    es_lines, es_meta = [], []
    corr_first = None
    viol = {}
    def add_v(key, what, replay):
        if key not in viol or len(json.dumps(replay)) < len(json.dumps(viol[key][1])):
            viol[key] = (what, replay)
    for (line, m), o in zip(cases, io):
        canon, us = canon_impl_format(m["enc"], o)
        kind = canon.split()[0]
        stats["outcomes"][kind] = stats["outcomes"].get(kind, 0) + 1
        rep = {"op": line, "impl": o[:400]}
        if m["op"] == "FX":
            if kind == "CRASH":
                add_v("formatter-reads-past-count", "XMLFormatter::formatBuf(buf, count, …, UnRep_CharRef) reads buf[count] "
                      "(and buf[count+1] after a trailing surrogate): sanitizer report with an exactly sized buffer: " + o[:200], rep)
            continue
        if kind == "hang" or (kind == "CRASH" and "TIMEOUT" in o):
            add_v("formatter-hang-unpaired-high-surrogate",
                  "XMLFormatter::formatBuf does not return (timeout) on %s units %s esc=%d unrep=%d: handleUnEscapedChars loops "
                  "while transcodeTo eats nothing" % (m["enc"], hx(m["units"]), m["esc"], m["unrep"]), rep)
        elif kind == "CRASH":
            add_v("formatter-crash", "XMLFormatter crashed / sanitizer abort: " + o[:200], rep)
        elif kind == "undecodable":
            add_v("formatter-output-not-decodable", "bytes written by XMLFormatter are not a legal %s sequence: %s" % (m["enc"], o[:200]), rep)
        if line in mo and not (FIXED["progress"] and m["units"] and 0xD800 <= m["units"][-1] <= 0xDBFF):
            stats["model_compared"] += 1
            if mo[line] != canon:
                stats["disagree"] += 1
                if corr_first is None: corr_first = (line, mo[line], canon)
        # The executable Spec of the formatter: the bytes must be encode(reference escaping of the input)
        # (XV.Spec.Escaping.escUnits, proved equal to the model's output and readable back).  Judged for every
        # well-formed input the transcoder gives back faithfully; under UnRep_Fail/Replace only when all is representable.
        sc_in = scalars(m["units"])
        if (m["op"] == "FB" and m["enc"] in INTRINSIC and sc_in is not None and kind in ("ok", "exc", "undecodable")
                and not any(c in bestfit_units(m["enc"]) for c in m["units"])
                and (m["unrep"] == 1 or all(representable(m["enc"], c) for c in sc_in))):
            es_lines.append("ES %s %d %d %d %s" % (m["enc"], m["v11"], fx_bits(), m["esc"], hx(m["units"])))
            es_meta.append((m, rep, canon))
        # the property, judged by the Spec: legal text written with Char/Attr escapes and char refs reads back unchanged
        if m["esc"] in (2, 3) and m["unrep"] == 1 and legal(bool(m["v11"]), m["units"]):
            if us is None:
                if kind not in ("hang", "CRASH", "undecodable"):
                    add_v("formatter-refuses-legal-text", "legal text %s not written (%s)" % (brief(m["units"]), canon[:80]), rep)
            else:
                sc_out = scalars(us)
                if sc_out is None or not all(representable(m["enc"], c) for c in sc_out):
                    add_v("formatter-unrepresentable-written", "on %s the output (%s) %s" % (brief(m["units"]), brief(us),
                          "is not well-formed UTF-16 (a surrogate pair was cut)" if sc_out is None else "contains a character outside " + m["enc"]), rep)
                rd_lines.append("RD %d %d %s" % (m["v11"], 1 if m["esc"] == 2 else 0, hx(us))); rd_meta.append((m, rep, us))
    if es_lines:
        eo = run_model(es_lines)
        stats["spec_escaping_judged"] = len(es_lines)
        for (m, rep, canon), want in zip(es_meta, eo):
            if canon != want:
                a, b = unhx(canon.split()[1]) if canon.startswith("ok ") else None, unhx(want.split()[1])
                if a is None:
                    detail = "the formatter ends with '%s' although every character can be written" % canon[:60]
                else:
                    k = next((i for i in range(min(len(a), len(b))) if a[i] != b[i]), min(len(a), len(b)))
                    detail = ("it wrote %d units where the reference escaping has %d; first difference at unit %d (wrote %s, expected %s)" %
                              (len(a), len(b), k, hx(a[k:k + 6]), hx(b[k:k + 6])))
                add_v("formatter-output-differs-from-reference-escaping",
                      "XMLFormatter (%s, XML %s, esc=%d, unrep=%d) on %s: %s" % (
                          m["enc"], "1.1" if m["v11"] else "1.0", m["esc"], m["unrep"], brief(m["units"]), detail),
                      dict(rep, spec=want[:300]))
    if rd_lines:
        ro = run_model(rd_lines)
        stats["spec_judged"] = len(rd_lines)
        for (m, rep, us), o in zip(rd_meta, ro):
            want = "some " + hx(m["units"])
            if o != want:
                eol = bool(m["v11"]) and any(c in (0x85, 0x2028) for c in m["units"])
                bfit = any(c in bestfit_units(m["enc"]) for c in m["units"])
                icu_supp = m["enc"] in ICU and any(0xD800 <= c <= 0xDFFF for c in m["units"])
                key = ("icu-supplementary-char-mangled" if icu_supp else
                       "table-bestfit-char-not-escaped" if bfit else "xml11-nel-lsep-not-escaped" if eol else
                       "escape-insufficient:" + ("attr" if m["esc"] == 2 else "text"))
                add_v(key, "XMLFormatter (%s, XML %s, %s) writes %s as %s, which an XML processor reads back as %s" % (
                    m["enc"], "1.1" if m["v11"] else "1.0", "AttrEscapes" if m["esc"] == 2 else "CharEscapes",
                    brief(m["units"]), hx(us)[:160], o[:160]), dict(rep, spec=o[:200]))
    for key, (what, replay) in viol.items():
        ctx.violations.append({"key": key, "concrete": True, "what": what, "replay": replay})
    if corr_first and not any(v["key"].startswith(("escape-insufficient", "formatter-")) and v["key"] not in KNOWN_KEYS for v in ctx.violations):
        ctx.violations.append({"key": "corr:formatter", "concrete": False,
            "what": "correspondence formatter model vs XMLFormatter no longer checks (%d cases), first: %s model=%s impl=%s" % (
                stats["disagree"], corr_first[0][:200], corr_first[1][:200], corr_first[2][:200]),
            "replay": {"correspondence": "fmt", "case": corr_first[0], "model": corr_first[1], "impl": corr_first[2]}})
    san = sanitizer_lines(err)
    if san:
        ctx.notes.append("sanitizer text during formatter cases: " + "; ".join(sorted(san)[:3]))
        for s in san:
            if "XMLFormatter" in s or "DOMLSSerializer" in s:
                ctx.violations.append({"key": "formatter-sanitizer", "concrete": True, "what": "sanitizer report in the formatter: " + s,
                                       "replay": {"stderr": s}})
                break
    ctx.stats["formatter"] = stats
    ctx.stats["evaluations"] = ctx.stats.get("evaluations", 0) + len(lines)
    ctx.stats["distinct_nontrivial"] = ctx.stats.get("distinct_nontrivial", 0) + len({l for l, m in cases if any(u > 0x7E or u < 0x20 or u in MARKUP for u in m["units"])})
    k = [i for i, (l, m) in enumerate(cases) if m["enc"] == "IBM1047" and len(m["units"]) > 4][:1] + [0, len(cases) // 2]
    for i in k:
        ctx.samples.append({"case": lines[i][:200], "model": mo.get(lines[i], "(spec-judged only)")[:200], "impl": io[i][:200]})

def sanitizer_lines(err):
    out = set()
    for l in err.split("\n"):
        if "runtime error:" in l or "ERROR: AddressSanitizer" in l:
            out.add(re.sub(r"0x[0-9a-f]+", "0x..", l.strip())[:220])
    return out

# ------------------------------------------------------------------ generators: trees
NAME_START = [0x61, 0x62, 0x41, 0x5F, 0x7A]
NAME_START_X = [0xE9, 0x3A9, 0x4E2D, 0xC0]
NAME_REST = [0x61, 0x30, 0x2D, 0x2E, 0x5F, 0x39]
NAME_REST_X = [0xB7, 0xE9, 0x4E2D]

def gen_name(r, exotic):
    n = [r.choice(NAME_START_X if exotic and r.chance(1, 2) else NAME_START)]
    for _ in range(r.below(4)):
        n.append(r.choice(NAME_REST_X if exotic and r.chance(1, 3) else NAME_REST))
    if n[:3] and [c | 0x20 for c in n[:3]] == [0x78, 0x6D, 0x6C]:
        n[0] = 0x61
    return n

HAZ = ["none", "markup", "ws", "cdend", "eol11", "ctl11", "latin", "nonlatin", "supp", "comment--", "pi?>", "nsattr", "lone", "nonchar", "mixed", "bestfit"]

class TreeGen:
    """One generated tree = a build script (ops) plus what the oracle needs to know about it."""
    def __init__(self, r, v11, haz):
        self.r, self.v11, self.haz = r, v11, haz
        self.ops = []
        self.strings = []   # (kind, units) kinds: text attr cdata comment pidata pitarget name
        self.ns_noprefix_attr = False

    def value(self, kind):
        r = self.r; h = self.haz
        base = ["plain"]
        if h == "markup": cl = base + ["markup"]
        elif h == "ws": cl = base + ["ws"]
        elif h == "cdend": cl = base + ["cdend"]
        elif h == "eol11": cl = base + ["eol11"]
        elif h == "ctl11": cl = base + (["ctl11"] if self.v11 else ["latin"])
        elif h == "latin": cl = base + ["latin"]
        elif h == "nonlatin": cl = base + ["nonlatin"]
        elif h == "supp": cl = base + ["supp"]
        elif h == "bestfit": cl = base + ["bestfit"]
        elif h == "lone": cl = base + ["lone"]
        elif h == "nonchar": cl = base + ["nonchar"]
        elif h == "mixed": cl = ["plain", "markup", "ws", "cdend", "latin", "nonlatin", "supp"] + (["eol11"] if self.v11 else [])
        else: cl = base
        u = rand_units(r, cl, r.choice([1, 2, 3, 6]))
        if h == "comment--" and kind == "comment":
            u = r.choice([[0x61, 0x2D, 0x2D, 0x62], [0x61, 0x2D], [0x2D, 0x2D]])
        if h == "pi?>" and kind == "pidata":
            u = r.choice([[0x61, 0x3F, 0x3E, 0x62], [0x3F, 0x3E]])
        if kind == "pidata":
            while u and u[0] in (0x20, 0x9, 0xA, 0xD): u = u[1:]    # leading white space is not part of PI data
        return u

    def build(self):
        r = self.r
        exotic = self.haz in ("nonlatin", "mixed") and r.chance(1, 3)
        nss = [None, U("urn:a"), U("urn:b"), U("http://x/?a=1&b=2")]
        prefixes = [None, U("p"), U("q"), U("p")]
        def qname():
            k = r.below(len(nss)) if r.chance(2, 3) else 0
            nm = gen_name(r, exotic)
            self.strings.append(("name", nm))
            if nss[k] is None: return None, nm
            pf = prefixes[k] if r.chance(2, 3) else None
            return nss[k], (pf + [0x3A] + nm if pf else nm)
        if r.chance(1, 6):
            nm = gen_name(r, False)
            self.root_doctype = nm
        ns, qn = qname()
        if getattr(self, "root_doctype", None) is not None:
            sysid = U("a.dtd") if r.chance(1, 2) else None
            pub = U("-//X//Y") if sysid and r.chance(1, 2) else None
            self.ops.append("D,%s,%s,%s" % (hx(qn), hx(pub) if pub else "~", hx(sysid) if sysid else "~"))
        self.ops.append("E,%s,%s" % (hx(ns) if ns else "~", hx(qn)))
        depth = 0
        last_chars = False
        for _ in range(1 + r.below(10)):
            k = r.below(100)
            if k < 22:
                ns, qn = qname()
                if ns is None and r.chance(1, 4): self.ops.append("L,%s" % hx(qn))
                else: self.ops.append("E,%s,%s" % (hx(ns) if ns else "~", hx(qn)))
                depth += 1; last_chars = False
            elif k < 30 and depth > 0:
                self.ops.append("U"); depth -= 1; last_chars = False
            elif k < 50:
                v = self.value("attr"); self.strings.append(("attr", v))
                nm = gen_name(r, exotic); self.strings.append(("name", nm))
                j = r.below(4)
                if self.haz == "nsattr" or (j and r.chance(1, 3)):
                    j = j or 1
                    if self.haz == "nsattr" and r.chance(1, 2):
                        self.ns_noprefix_attr = True
                        self.ops.append("A,%s,%s,%s" % (hx(nss[j]), hx(nm), hx(v)))
                    else:
                        self.ops.append("A,%s,%s,%s" % (hx(nss[j]), hx(prefixes[j] + [0x3A] + nm), hx(v)))
                else:
                    self.ops.append(("B,%s,%s" if r.chance(1, 2) else "A,~,%s,%s") % (hx(nm), hx(v)))
            elif k < 70:
                v = self.value("text")
                if not v: continue
                if last_chars and r.chance(3, 4): continue
                self.strings.append(("text", v)); self.ops.append("T,%s" % hx(v)); last_chars = True
            elif k < 82:
                v = self.value("cdata")
                if last_chars and r.chance(3, 4): continue
                self.strings.append(("cdata", v)); self.ops.append("C,%s" % hx(v)); last_chars = True
            elif k < 90:
                v = self.value("comment"); self.strings.append(("comment", v))
                self.ops.append(("M,%s" if r.chance(4, 5) else "m,%s") % hx(v)); last_chars = False
            else:
                t = gen_name(r, exotic); v = self.value("pidata")
                self.strings.append(("pitarget", t)); self.strings.append(("pidata", v))
                self.ops.append(("P,%s,%s" if r.chance(4, 5) else "p,%s,%s") % (hx(t), hx(v))); last_chars = False
        return self

def narrow(units):
    """hx::narrow of the harness (with its blanks -> '_')"""
    return "".join(("_" if u == 0x20 else chr(u)) if u < 0x80 else "\\u%04x" % u for u in (units or []))

def parse_script(script):
    """ops of a build script -> (list of (kind, units) strings as the oracle needs them, flags).
    The recipe is replayed on a stack exactly as the harness does, which gives — without looking at any DOM —
    flags['names']: the expanded names ({namespace}local) of every element and attribute in document order, in the
    text form the harness prints for the RE-PARSED tree (x=…): the Spec side of the namespace comparison."""
    out = []; flags = {"nsattr_noprefix": False, "null_ns_elem": False, "prefix_conflict": False}
    elems = []          # creation order = document order: [ns, local, {attrkey: (ns, local)}, {prefix: {ns}}]
    stack = []          # indices into elems; stack[0] is the document element
    def local(qn): return qn[qn.index(0x3A) + 1:] if qn and 0x3A in qn else qn
    def note(e, ns, qn):
        if ns is not None and qn and 0x3A in qn:
            e[3].setdefault(tuple(qn[:qn.index(0x3A)]), set()).add(tuple(ns))
    def open_elem(ns, qn, nsaware):
        e = [ns, local(qn) if nsaware else qn, {}, {}]
        if ns is None: flags["null_ns_elem"] = True
        note(e, ns, qn)
        elems.append(e); stack.append(len(elems) - 1)
    for op in script.split(";"):
        a = op.split(",")
        g = lambda i: None if a[i] == "~" else unhx(a[i])
        if a[0] == "E": out.append(("name", g(2))); open_elem(g(1), g(2), True)
        elif a[0] == "L": out.append(("name", g(1))); open_elem(None, g(1), False)
        elif a[0] == "U":
            if len(stack) > 1: stack.pop()
        elif a[0] == "D":
            out.append(("name", g(1)))
            if g(2) is not None: out.append(("pubid", g(2)))
            if g(3) is not None: out.append(("sysid", g(3)))
            if g(2) is not None and g(3) is None: flags["pub_without_sys"] = True
        elif a[0] == "A":
            out.append(("name", g(2))); out.append(("attr", g(3) or []))
            if g(1) is not None and 0x3A not in g(2): flags["nsattr_noprefix"] = True
            if g(1) is not None: out.append(("nsuri", g(1)))
            if stack:
                e = elems[stack[-1]]; note(e, g(1), g(2))
                e[2][(tuple(g(1)) if g(1) is not None else None, tuple(local(g(2))))] = (g(1), local(g(2)))
        elif a[0] == "B":
            out.append(("name", g(1))); out.append(("attr", g(2) or []))
            if stack: elems[stack[-1]][2][(None, tuple(g(1)))] = (None, g(1))
        elif a[0] == "T": out.append(("text", g(1) or []))
        elif a[0] == "C": out.append(("cdata", g(1) or []))
        elif a[0] in "Mm": out.append(("comment", g(1) or []))
        elif a[0] in "Pp": out.append(("pitarget", g(1))); out.append(("pidata", g(2) or []))
        elif a[0] == "R": out.append(("entref", g(1)))
    # the known fix-up defect: ONE element using a prefix for two namespaces (its own name and/or its attributes);
    # the same prefix re-bound on a descendant is ordinary shadowing and must work
    flags["prefix_conflict"] = any(len(v) > 1 for e in elems for v in e[3].values())
    sig = ""
    for ns, loc, attrs, _ in elems:
        sig += "|E{" + narrow(ns) + "}" + narrow(loc)
        for t in sorted("{" + narrow(ans) + "}" + narrow(al) for ans, al in attrs.values()):
            sig += "|A" + t
    flags["names"] = sig
    return out, flags

def has_sub(u, p):
    return any(u[i:i + len(p)] == p for i in range(len(u) - len(p) + 1))

def expressible(strings, flags, enc, v11, feat):
    """(can the tree be written as well-formed XML that re-parses equal?, why not).  Text and attribute values always can
    (character references); markup names, comments and PIs only with representable legal characters; CDATA sections
    with hazards only by splitting (and character references between the pieces)."""
    split = bool(feat & 1)
    for kind, u in strings:
        if u is None: continue
        sc = scalars(u)
        if sc is None: return False, kind + ":unpaired-surrogate"
        if not all(is_char(v11, c) for c in sc): return False, kind + ":non-char"
        unrep = not all(representable(enc, c) for c in sc)
        restricted = v11 and any(is_restricted11(c) for c in sc)
        if kind in ("name", "pitarget", "comment", "pidata", "pubid", "sysid", "entref"):
            if unrep: return False, kind + ":unrepresentable"
            if restricted: return False, kind + ":restricted-char"
        if kind == "comment" and (has_sub(u, [0x2D, 0x2D]) or (u and u[-1] == 0x2D)): return False, "comment:--"
        if kind == "pidata" and has_sub(u, [0x3F, 0x3E]): return False, "pi:?>"
        if kind == "pidata" and u and u[0] in (0x20, 0x9, 0xA, 0xD): return False, "pi:leading-white-space"
        if kind in ("comment", "pidata") and (0xD in u or (v11 and (0x85 in u or 0x2028 in u))): return False, kind + ":line-end"
        if kind == "cdata":
            need_split = has_sub(u, CDEND) or unrep or restricted or 0xD in u or (v11 and (0x85 in u or 0x2028 in u))
            if need_split and not split: return False, "cdata:needs-split"
    if flags.get("pub_without_sys"): return False, "doctype:public-without-system"
    return True, ""

def cdata_must_split(strings, enc, v11):
    for kind, u in strings:
        if kind == "cdata" and u is not None:
            sc = scalars(u)
            if sc is None or has_sub(u, CDEND) or not all(representable(enc, c) for c in sc) or (v11 and any(is_restricted11(c) for c in sc)):
                return True
    return False

def bestfit_units(enc):
    if enc not in tables(): return set()
    fr, to = tables()[enc]
    return {u for u, b in to.items() if b != 0 and fr[b] != u}

def classify_tree_failure(strings, flags, enc, v11, feat, obs):
    """stable category of a failing round trip, from what is in the (shrunk) tree and how it failed"""
    f = dict(x.split("=", 1) for x in obs.split() if "=" in x)
    how = ("not-wellformed" if f.get("p", "ok").startswith(("fatal", "error")) else "refused" if f.get("w") != "1" else
           "not-equal" if f.get("q") == "0" else "not-idempotent" if f.get("a") in ("diff", "w0") else "ok")
    d = f.get("d", "")
    kinds = {}
    for k, u in strings:
        if u is not None: kinds.setdefault(k, []).append(u)
    def any_in(kind, pred): return any(pred(u) for u in kinds.get(kind, []))
    eol = lambda u: v11 and (0x85 in u or 0x2028 in u)
    unrep = lambda u: scalars(u) is not None and not all(representable(enc, c) for c in scalars(u))
    supp = lambda u: any(0xD800 <= c <= 0xDFFF for c in u) and scalars(u) is not None
    if obs.startswith(("HANG", "CRASH")) or how == "ok":
        if any_in("cdata", lambda u: scalars(u) is None):
            return "serializer-hang-cdata-unpaired-high-surrogate"
        return "serializer-hang-or-crash"
    if enc in ICU and any(any_in(k, supp) for k in kinds):
        return "icu-supplementary-char-mangled"
    bf = bestfit_units(enc)
    if bf and any(any_in(k, lambda u: any(c in bf for c in u)) for k in kinds):
        return "table-bestfit-char-not-escaped"
    if how == "refused":
        if v11 and any(any_in(k, lambda u: any(is_restricted11(c) for c in u)) for k in ("text", "attr", "cdata")):
            return "xml11-control-char-refused"
        return "refused-expressible-content"
    if any_in("cdata", lambda u: has_sub(u, CDEND)) and (d.startswith(("cdata-data", "text-data", "child")) or how != "not-equal"):
        return "cdata-split-drops-terminator"
    if any_in("cdata", lambda u: unrep(u) and any(c >= 0xD800 and c <= 0xDFFF for c in u)) and how == "not-wellformed":
        return "cdata-unrepresentable-supplementary-as-surrogate-charrefs"
    if any_in("cdata", lambda u: 0xD in u or eol(u)) and how in ("not-equal", "not-idempotent"):
        return "cdata-line-end-not-preserved"
    if any_in("cdata", lambda u: v11 and any(is_restricted11(c) for c in u)):
        return "cdata-xml11-restricted-char-emitted"
    if any_in("comment", lambda u: has_sub(u, [0x2D, 0x2D]) or (u and u[-1] == 0x2D)):
        return "comment-double-hyphen-emitted"
    if any_in("pidata", lambda u: has_sub(u, [0x3F, 0x3E])):
        return "pi-terminator-emitted"
    if any(any_in(k, lambda u: 0xD in u or eol(u)) for k in ("comment", "pidata")):
        return "comment-pi-line-end-not-preserved"
    if any_in("pidata", lambda u: bool(u) and u[0] in (0x20, 0x9, 0xA, 0xD)) and d.startswith("pi-data"):
        return "pi-leading-whitespace-not-preserved"
    if any(any_in(k, eol) for k in ("text", "attr")):
        return "xml11-nel-lsep-not-escaped"
    if flags.get("nsattr_noprefix") and (d.startswith("attr") or how == "not-wellformed"):
        return "nsfixup-attribute-without-prefix"
    for k in sorted(kinds):
        if any_in(k, lambda u: scalars(u) is None or not all(is_char(v11, c) for c in scalars(u))):
            return "illegal-character-emitted:" + k
    if any(any_in(k, unrep) for k in ("name", "pitarget", "comment", "pidata")):
        return "unrepresentable-in-markup-emitted"
    if d.startswith("element-namespace") and flags.get("null_ns_elem"):
        return "nsfixup-default-namespace-undeclaration-lost"
    if flags.get("prefix_conflict") and (("is_already_specified" in f.get("p", "") and "xmlns" in f.get("p", ""))
                                         or d.startswith(("attr-namespace", "element-namespace", "attr-lost", "attr-count"))):
        return "nsfixup-conflicting-prefix"
    if d.startswith(("element-namespace", "attr-namespace")) or ("x" in f and f["x"] != flags.get("names", f["x"])):
        return "nsfixup-binding-missing-or-wrong"
    return "roundtrip:" + how + (":" + d.split("_")[0] if d else "")

ENCS_B = INTRINSIC + list(ICU)

def gen_tree_cases(ctx):
    r = ctx.rng
    n = 25000 if ctx.thorough() else 1000
    cases = []
    for i in range(n):
        v11 = 1 if r.chance(1, 4) else 0
        haz = r.choice(HAZ)
        if haz in ("eol11", "ctl11") and not v11 and r.chance(2, 3): v11 = 1
        t = TreeGen(r, v11, haz).build()
        script = ";".join(t.ops)
        for _ in range(2 if not ctx.thorough() else 1):
            enc = r.choice(ENCS_B if r.chance(3, 4) else INTRINSIC[:4])
            feat = (1 if r.chance(3, 4) else 0) | 2 | (4 if r.chance(1, 2) else 0) | (8 if r.chance(1, 5) else 0) | 32
            if not v11 and r.chance(1, 4): feat &= ~2
            cases.append(("T %s %d %d %s" % (enc, v11, feat, script), {"enc": enc, "v11": v11, "feat": feat, "script": script, "haz": haz}))
    return cases

# ------------------------------------------------------------------ namespace shadowing (API-built trees, NO xmlns attributes)
def gen_ns_shadow_cases(ctx):
    """Nested elements (depth 2-5, some siblings) whose names and prefixed attributes draw prefixes from a small pool
    (the empty prefix included) and namespaces from a small pool, so that the same prefix / the default namespace is
    bound U1 > U2 > U1 over three or more levels in most trees.  Every element has a namespace and no single element
    uses one prefix for two namespaces (those two situations are the recorded fix-up defects); nothing declares a
    namespace explicitly: every xmlns in the output comes from the serializer's fix-up."""
    r = ctx.rng
    n = 3000 if ctx.thorough() else 260
    cases = []
    allp = [[], U("p"), U("q")]; allu = [U("urn:one"), U("urn:two"), U("urn:3")]
    for i in range(n):
        pfx = allp[:2 + r.below(2)] if r.chance(3, 4) else [allp[0], allp[2]]
        uris = allu[:2 + r.below(2)]
        ops = []; depth = 0; count = [0]
        def elem(pf, u, attrs=()):
            count[0] += 1
            nm = U("e%d" % count[0])
            ops.append("E,%s,%s" % (hx(u), hx(pf + [0x3A] + nm if pf else nm)))
            used = {tuple(pf): u} if pf else {}
            for k, (apf, au) in enumerate(attrs):
                if tuple(apf) in used and used[tuple(apf)] != au: au = used[tuple(apf)]   # one element, one meaning per prefix
                used[tuple(apf)] = au
                ops.append("A,%s,%s,%s" % (hx(au), hx(apf + [0x3A] + U("a%d" % k)), hx(U("v"))))
        def rand_attrs():
            nonempty = [x for x in pfx if x]
            return [(r.choice(nonempty), r.choice(uris)) for _ in range(r.choice([0, 0, 1, 1, 2]))] if nonempty else []
        if r.chance(2, 3):
            # a deliberate U1 > U2 > U1 chain on one prefix, optionally with other elements in between and the last use on an attribute
            pf = r.choice(pfx); u1, u2 = (uris[0], uris[1]) if r.chance(1, 2) else (uris[1], uris[0])
            elem(pf, u1, rand_attrs()); depth = 1
            if r.chance(1, 3): elem(r.choice(pfx), r.choice(uris)); depth += 1
            elem(pf, u2, rand_attrs()); depth += 1
            if r.chance(1, 3): elem(r.choice([x for x in pfx if x != pf] or pfx), r.choice(uris)); depth += 1
            if pf and r.chance(1, 3):
                other = r.choice([x for x in pfx if x != pf] or [pf])
                elem(other, r.choice(uris) if other != pf else u1, [(pf, u1)])
            else:
                elem(pf, u1, rand_attrs())
            depth += 1
            if r.chance(1, 2): ops.append("T,%s" % hx(U("leaf")))
        else:
            elem(r.choice(pfx), r.choice(uris), rand_attrs()); depth = 1
        for _ in range(r.below(6)):
            k = r.below(10)
            if k < 6 and depth < 5:
                elem(r.choice(pfx), r.choice(uris), rand_attrs()); depth += 1
            elif k < 8 and depth > 1:
                ops.append("U"); depth -= 1
            else:
                ops.append("T,%s" % hx(U("t")))
        script = ";".join(ops)
        enc = r.choice(["UTF-8", "UTF-8", "UTF-16", "ISO-8859-1", "IBM1047"])
        feat = r.choice([35, 39, 33, 3])
        if r.chance(1, 8): enc, feat = "UTF-16", feat | 16
        cases.append(("T %s 0 %d %s" % (enc, feat, script), {"enc": enc, "v11": 0, "feat": feat, "script": script, "haz": "ns-shadow"}))
    return cases

# ------------------------------------------------------------------ long runs through DOMLSSerializer (write and writeToString)
def gen_long_tree_cases(ctx):
    """text, CDATA and attribute values whose un-escaped runs straddle what one transcodeTo call can take
    (16384 bytes: 8192 UTF-16 units, 5461 three-byte / 8192 two-byte UTF-8 characters, 4096 pairs)"""
    r = ctx.rng
    cases = []
    variants = [("UTF-16", 16, [0x61], 8192), ("UTF-16", 0, [0x4E2D], 8192), ("UTF-8", 0, [0x4E2D], 5461), ("UTF-8", 0, [0xE9], 8192),
                ("UTF-8", 0, [0xD83D, 0xDE00], 4096), ("UTF-8", 0, [0x61], 16384), ("ISO-8859-1", 0, [0xE9], 16384),
                ("US-ASCII", 0, [0x61], 16384), ("UTF-16", 16, [0xD83D, 0xDE00], 4096)]
    picks = variants if ctx.thorough() else variants[:3] + [variants[3 + r.below(len(variants) - 3)]]
    for enc, wts, unit, bound in picks:
        for rep in range(3 if ctx.thorough() else 1):
            n1, n2, n3 = bound + 1 + r.below(3), bound + r.choice([1, 2, 700]), bound + 1 + r.below(2)
            script = ";".join(["E,~,%s" % hx(U("r")), "E,~,%s" % hx(U("t")), "T,%s" % hx(unit * n1), "U",
                               "E,~,%s" % hx(U("u")), "A,~,%s,%s" % (hx(U("k")), hx(unit * n2)), "C,%s" % hx(unit * n3),
                               "T,%s" % hx(U("tail"))])
            feat = 35 | wts
            cases.append(("T %s 0 %d %s" % (enc, feat, script), {"enc": enc, "v11": 0, "feat": feat, "script": script, "haz": "long-run"}))
    return cases

DOCS = [
    '<!DOCTYPE r [<!ENTITY e "txt"><!ATTLIST r a CDATA "dflt" b CDATA #IMPLIED>]><r b="x&amp;y">&e;<![CDATA[x]]>t&#13;u</r>',
    '<!DOCTYPE r [<!ENTITY e "t<i/>u"><!ELEMENT r ANY><!ELEMENT i EMPTY>]><r>a&e;b<?pi d?><!--c--></r>',
    '<r xmlns="urn:d" xmlns:p="urn:p"><p:a p:x="1" y="&#9;&#10;&quot;"/><b xmlns=""/>&#x20AC;&#x1F600;</r>',
    '<?xml version="1.1"?><r a="&#x85;&#x1;">x&#x85;y&#x2028;z&#x7F;<![CDATA[q]]></r>',
    '<!DOCTYPE r SYSTEM "none.dtd" [<!ENTITY % pe "ignored"><!ATTLIST r d (u|v) "u">]>\n<r>\n <c>1 &lt; 2 &gt; 0 ]]&gt;</c>\n</r>\n<!--tail--><?x?>',
    '<r><a>&#xD;&#xA;</a><b c=" x  y "> </b><![CDATA[]]><![CDATA[a]]><![CDATA[b]]></r>',
]

def gen_doc_cases(ctx):
    r = ctx.rng
    cases = []
    for d in DOCS:
        v11 = 1 if 'version="1.1"' in d else 0
        for enc in ENCS_B:
            for feat in (35, 39, 3, 34):
                if v11 and not feat & 2: continue
                cases.append(("X %s %d %d %s" % (enc, v11, feat, hx(list(d.encode("utf-8")))),
                              {"enc": enc, "v11": v11, "feat": feat, "doc": d, "haz": "doc"}))
    return cases

def judge_tree(meta, obs):
    """None if the observation is what the property allows, else (how, detail)"""
    if obs.startswith(("build-exc", "input-fatal", "bad-op")):
        return None                      # not a tree of the quantifier (generator produced an illegal name / document)
    if obs.startswith(("HANG", "CRASH", "exc ", "NO-OUTPUT")):
        return ("crash", obs[:200])
    f = dict(x.split("=", 1) for x in obs.split() if "=" in x)
    if "script" in meta:
        strings, flags = parse_script(meta["script"])
        can, why = expressible(strings, flags, meta["enc"], bool(meta["v11"]), meta["feat"])
    else:
        can, why = True, ""
    bs = unhx(f.get("b", "-"))
    if f.get("w") == "1":
        us = decode_units(meta["enc"], bs[(3 if bs[:3] == [0xEF, 0xBB, 0xBF] else 0):])
        if us is None:
            return ("undecodable", "output is not a legal %s byte sequence" % meta["enc"])
        if not f.get("p", "").startswith("ok"):
            return ("not-wellformed", f.get("p", "")[:120] + ("" if can else " (tree not expressible: %s — must be refused)" % why))
        if "script" in meta and "x" in f and f["x"] != flags["names"]:
            # Spec-judged: the expanded names the construction recipe states vs those of the re-parsed tree
            want, got = flags["names"].split("|"), f["x"].split("|")
            k = next((i for i in range(min(len(want), len(got))) if want[i] != got[i]), min(len(want), len(got)))
            return ("expanded-names", "node %d was built as %s but re-parses as %s%s" % (
                k, want[k] if k < len(want) else "(none)", got[k] if k < len(got) else "(none)",
                "" if can else " (tree not expressible: %s — must be refused)" % why))
        if f.get("q") != "1":
            return ("not-equal", f.get("d", "") + ("" if can else " (tree not expressible: %s — must be refused)" % why))
        if f.get("a") != "same":
            return ("not-idempotent", "second serialisation " + f.get("a", ""))
        if f.get("k", "0") != "0" and "script" in meta and not cdata_must_split(strings, meta["enc"], bool(meta["v11"])):
            return ("not-equal", "a Text node came back as CDATA section or vice versa although no CDATA section had to be split")
        return None
    if can:
        return ("refused", "w=%s e=%s although the tree is expressible" % (f.get("w"), f.get("e", "")[:100]))
    return None

def shrink_candidates(cur):
    cands = []
    if len(cur) > 2:                   # jump: the document element with ONE of the content nodes / attributes
        for i in range(1, len(cur)):
            if cur[i][0] not in "ELU": cands.append([cur[0], cur[i]])
    for i in range(1, len(cur)):
        if cur[i] == "U": continue
        c = cur[:i] + cur[i + 1:]
        if cur[i][0] in "EL":          # keep the U balance: drop the matching U with the element
            for j in range(i, len(c)):
                if c[j] == "U": c = c[:j] + c[j + 1:]; break
        cands.append(c)
    if cur and cur[-1] == "U": cands.append(cur[:-1])
    for i, op in enumerate(cur):       # shorten strings
        a = op.split(",")
        if a[0] in "TCMmAPpB" and a[-1] not in ("-", "~"):
            u = a[-1].split(".")
            if len(u) > 1:
                for part in (u[:len(u) // 2], u[len(u) // 2:], u[1:], u[:-1]):
                    cands.append(cur[:i] + [",".join(a[:-1] + [".".join(part)])] + cur[i + 1:])
    return cands

def shrink_all(items, rounds=8):
    """items: list of (meta, how).  Greedy removal of ops / shortening of strings while the same kind of failure
    persists; all witnesses are shrunk in lockstep so that each round is ONE parallel harness run.
    Returns list of (script, observation or None)."""
    cur = [m["script"].split(";") for m, _ in items]
    obs = [None] * len(items)
    active = set(range(len(items)))
    for _round in range(rounds):
        lines, owner = [], []
        for k in sorted(active):
            m = items[k][0]
            for c in shrink_candidates(cur[k]):
                lines.append("T %s %d %d %s" % (m["enc"], m["v11"], m["feat"], ";".join(c))); owner.append((k, c))
        if not lines: break
        outs, _ = run_hx(lines, timeout=180)
        best = {}
        for (k, c), o in zip(owner, outs):
            m, how = items[k]
            j = judge_tree(dict(m, script=";".join(c)), o)
            if j is not None and j[0] == how:
                if k not in best or len(";".join(c)) < len(";".join(best[k][0])):
                    best[k] = (c, o)
        active = set(best)
        for k, (c, o) in best.items():
            cur[k] = c; obs[k] = o
        if not active: break
    return [(";".join(c), o) for c, o in zip(cur, obs)]

KNOWN_KEYS = set()

def tree_correspondence(ctx):
    cases = gen_long_tree_cases(ctx) + gen_tree_cases(ctx) + gen_ns_shadow_cases(ctx) + gen_doc_cases(ctx)
    lines = [c[0] for c in cases]
    io, err = run_hx(lines)
    hist = {}; byhaz = {}
    bad = {}     # provisional key -> (meta, obs, how, detail)
    nbad = 0
    for (line, m), o in zip(cases, io):
        j = judge_tree(m, o)
        tag = "ok" if j is None else j[0]
        if o.startswith(("build-exc", "input-fatal", "bad-op")): tag = o.split()[0]
        elif j is None and " w=1" not in " " + o: tag = "refused-legitimately"
        hist[tag] = hist.get(tag, 0) + 1
        byhaz[m["haz"]] = byhaz.get(m["haz"], 0) + 1
        if j is None: continue
        nbad += 1
        if "script" in m:
            strings, flags = parse_script(m["script"])
            key = classify_tree_failure(strings, flags, m["enc"], bool(m["v11"]), m["feat"], o if j[0] != "crash" else "CRASH")
        else:
            du = U(m["doc"])
            if m["enc"] in ICU and any(0xD800 <= c <= 0xDFFF for c in du) or "&#x1F600;" in m["doc"] and m["enc"] in ICU:
                key = "icu-supplementary-char-mangled"
            elif m["v11"] and j[0] == "refused":
                key = "xml11-control-char-refused"
            elif m["v11"] and ("&#x85;" in m["doc"] or "&#x2028;" in m["doc"]):
                key = "xml11-nel-lsep-not-escaped"
            else:
                key = "parsed-doc-roundtrip:" + j[0]
        if key not in bad or len(line) < len(bad[key][0]):
            bad[key] = (line, m, o, j)
    # shrink one witness per category (all in lockstep), then re-classify on the minimal tree
    final = {}
    todo = [(key, v) for key, v in bad.items() if "script" in v[1] and v[3][0] != "crash"]
    shrunk = shrink_all([(v[1], v[3][0]) for _, v in todo])
    done = {}
    for (key, (line, m, o, j)), (sc, o2) in zip(todo, shrunk):
        if o2 is not None:
            strings, flags = parse_script(sc)
            key2 = classify_tree_failure(strings, flags, m["enc"], bool(m["v11"]), m["feat"], o2)
            m = dict(m, script=sc); o = o2; line = "T %s %d %d %s" % (m["enc"], m["v11"], m["feat"], sc)
            j = judge_tree(m, o) or j; key = key2
        done[id(bad)] = True
        if key not in final or len(line) < len(final[key][0]):
            final[key] = (line, m, o, j)
    for key, (line, m, o, j) in bad.items():
        if not ("script" in m and j[0] != "crash"):
            if key not in final or len(line) < len(final[key][0]):
                final[key] = (line, m, o, j)
    for key, (line, m, o, j) in final.items():
        ctx.violations.append({"key": key, "concrete": True,
            "what": "DOMLSSerializer round trip (%s, XML 1.%d, features %d) fails: %s — %s; tree: %s; observation: %s" % (
                m["enc"], m["v11"], m["feat"], j[0], j[1][:160], describe(m)[:300], strip_bytes(o)[:300]),
            "replay": {"op": line, "impl": o[:2000], "judgement": list(j)}})
    # the namespace fix-up model (XV.Model.NsFixup) against the declarations the real serializer wrote
    nsx = [(line, m, o) for (line, m), o in zip(cases, io) if m["haz"] == "ns-shadow" and " y=" in o]
    nf = run_model(["NF " + m["script"] for _, m, _ in nsx]) if nsx else []
    nd = 0; first = None
    for (line, m, o), mo in zip(nsx, nf):
        y = dict(x.split("=", 1) for x in o.split() if "=" in x).get("y", "")
        if mo != "unsupported" and mo != "ok " + y:
            nd += 1
            if first is None or len(line) < len(first[0]): first = (line, mo, "ok " + y)
    ctx.stats["nsfixup_model"] = {"cases": len(nsx), "disagree": nd}
    if first and not any(v["key"] == "nsfixup-binding-missing-or-wrong" for v in ctx.violations):
        ctx.violations.append({"key": "corr:nsfixup", "concrete": False,
            "what": "correspondence namespace fix-up model vs DOMLSSerializer no longer checks (%d cases), first: %s model=%s impl=%s" % (
                nd, describe({"script": first[0].split()[4]})[:300], first[1][:200], first[2][:200]),
            "replay": {"correspondence": "nsfixup", "case": first[0], "model": first[1], "impl": first[2]}})
    san = sanitizer_lines(err)
    for s in sorted(san):
        if "XMLFormatter" in s or "DOMLSSerializer" in s:
            ctx.violations.append({"key": "serializer-sanitizer", "concrete": True, "what": "sanitizer report in the serializer: " + s,
                                   "replay": {"stderr": s}})
            break
    if san:
        ctx.notes.append("sanitizer text outside the serializer while re-parsing (belongs to C01/C06): " + "; ".join(sorted(san)[:3]))
    ctx.stats["trees"] = {"cases": len(lines), "outcomes": hist, "by_hazard": byhaz, "failing": nbad, "categories": sorted(final)}
    ctx.stats["evaluations"] = ctx.stats.get("evaluations", 0) + len(lines)
    ctx.stats["distinct_nontrivial"] = ctx.stats.get("distinct_nontrivial", 0) + len({l for l, m in cases if m["haz"] != "none"})
    for i in (1, len(lines) // 3, len(lines) - 1):
        ctx.samples.append({"case": lines[i][:240], "impl": strip_bytes(io[i])[:240], "judgement": str(judge_tree(cases[i][1], io[i]))})

def strip_bytes(o):
    def dec(m):
        bs = unhx(m.group(1))
        return "b=[" + "".join(chr(b) if 32 <= b < 127 else "\\x%02x" % b for b in bs[:400]) + "]"
    return re.sub(r"b=([0-9a-f.]+)", dec, o)

def describe(m):
    if "doc" in m: return "parsed " + m["doc"]
    out = []
    for op in m["script"].split(";"):
        a = op.split(",")
        def s(t):
            if t == "~": return "null"
            us = unhx(t)
            if len(us) > 60: return "<" + brief(us) + ">"
            return "'" + "".join(chr(u) if 32 <= u < 127 else "\\u%04X" % u for u in us) + "'"
        out.append(a[0] + "(" + ",".join(s(t) for t in a[1:]) + ")")
    return " ".join(out)

# ------------------------------------------------------------------ model of the tree serializer vs implementation
def serializer_model_correspondence(ctx):
    """XV.Model.Serializer (element / attributes / text / CDATA / comment / PI content, intrinsic encodings, no namespaces)
    against the real serializer on the same build scripts: bytes decoded with the spec codecs must equal the model's units."""
    r = ctx.rng
    lines = []; metas = []
    for _ in range(4000 if ctx.thorough() else 350):
        v11 = r.below(2) if r.chance(1, 3) else 0
        haz = r.choice(["none", "markup", "ws", "cdend", "latin", "nonlatin", "supp", "comment--", "pi?>", "mixed", "eol11", "ctl11"])
        ops = ["E,~,%s" % hx(gen_name(r, False))]
        t = TreeGen(r, v11, haz)
        depth = 0
        for _ in range(1 + r.below(7)):
            k = r.below(100)
            if k < 15: ops.append("E,~,%s" % hx(gen_name(r, False))); depth += 1
            elif k < 22 and depth: ops.append("U"); depth -= 1
            elif k < 40: ops.append("A,~,%s,%s" % (hx(gen_name(r, False)), hx(t.value("attr"))))
            elif k < 62:
                v = t.value("text")
                if v: ops.append("T,%s" % hx(v))
            elif k < 78: ops.append("C,%s" % hx(t.value("cdata")))
            elif k < 90: ops.append("M,%s" % hx(t.value("comment")))
            else: ops.append("P,%s,%s" % (hx(gen_name(r, False)), hx(t.value("pidata"))))
        enc = r.choice(INTRINSIC)
        feat = (1 if r.chance(3, 4) else 0) | (2 if (v11 or r.chance(1, 2)) else 0) | 32
        lines.append("T %s %d %d %s" % (enc, v11, feat, ";".join(ops))); metas.append((enc, v11, feat))
    def ts(l):
        f = l.split(); return "TS %s %s %d %s" % (f[1], f[2], int(f[3]) | ts_bits(), f[4])
    mo = run_model([ts(l) for l in lines])
    io, _ = run_hx(lines)
    nd = 0; first = None; outcomes = {}
    for l, (enc, v11, feat), m, o in zip(lines, metas, mo, io):
        f = dict(x.split("=", 1) for x in o.split() if "=" in x)
        if f.get("w") == "1":
            us = decode_units(enc, unhx(f.get("b", "-")))
            canon = "ok " + hx(us) if us is not None else "undecodable"
        elif o.startswith(("build-exc", "bad-op")):
            continue
        elif o.startswith(("CRASH", "NO-OUTPUT", "HANG", "exc ")):
            canon = o.split()[0]
        else:
            canon = "refused"
        mm = m if m.startswith("ok") else "refused" if m.startswith(("exc", "err")) else "HANG" if m == "hang" else m
        outcomes[mm.split()[0]] = outcomes.get(mm.split()[0], 0) + 1
        if mm != canon:
            nd += 1
            if first is None or len(l) < len(first[0]): first = (l, m, canon)
    ctx.stats["serializer_model"] = {"cases": len(lines), "disagree": nd, "model_outcomes": outcomes}
    ctx.stats["evaluations"] = ctx.stats.get("evaluations", 0) + len(lines)
    if first:
        ctx.violations.append({"key": "corr:serializer", "concrete": False,
            "what": "correspondence serializer model vs DOMLSSerializer no longer checks (%d cases), first: %s model=%s impl=%s" % (
                nd, first[0][:200], first[1][:200], first[2][:200]),
            "replay": {"correspondence": "serializer", "case": first[0], "model": first[1], "impl": first[2]}})

def correspondence(ctx):
    KNOWN_KEYS.update(f["key"] for f in common.load_findings() if f.get("property") == PID and f.get("status") == "open")
    import time
    t0 = time.time(); formatter_correspondence(ctx); t1 = time.time()
    tree_correspondence(ctx); t2 = time.time()
    serializer_model_correspondence(ctx); t3 = time.time()
    ctx.stats["wall_s_parts"] = {"formatter": round(t1 - t0, 1), "trees": round(t2 - t1, 1), "serializer_model": round(t3 - t2, 1)}
    # a model-only drift is reported only when no concrete NEW violation explains it
    new_concrete = [v for v in ctx.violations if v.get("concrete") and v["key"] not in KNOWN_KEYS]
    if new_concrete:
        ctx.violations[:] = [v for v in ctx.violations if v.get("concrete") or not v["key"].startswith("corr:")] or ctx.violations

_search_done = {}
def search(ctx, broken):
    """a theorem / the translator broke: the Spec-judged explorations above already ran (or run now); hand back one
    concrete violation that is not a known finding"""
    if not _search_done:
        _search_done["x"] = True
        if "formatter" not in ctx.stats:
            KNOWN_KEYS.update(f["key"] for f in common.load_findings() if f.get("property") == PID and f.get("status") == "open")
            formatter_correspondence(ctx); tree_correspondence(ctx)
    for i, v in enumerate(ctx.violations):
        if v.get("concrete") and v["key"] not in KNOWN_KEYS and not v.get("claimed"):
            v["claimed"] = True
            return dict(v)
    return None

def replay(ctx, path):
    r = json.load(open(path))["replay"]
    line = r.get("op") or r.get("case")
    if not line:
        print(json.dumps(r, indent=1)); return 0
    outs, err = run_hx([line], timeout=120)
    print("case :", line[:1000])
    if line.startswith(("FB", "FX")):
        f = line.split()
        print("input:", describe({"script": "T," + f[6]}))
        if f[1] in INTRINSIC:
            print("spec : reference escaping", run_model(["ES %s %s %s %s %s" % (f[1], f[2], f[3], f[4], f[6])])[0][:1000])
        if f[1] in INTRINSIC and f[0] == "FB":
            print("model:", run_model([line])[0][:1000])
        print("impl :", outs[0][:1000])
        canon, us = canon_impl_format(f[1], outs[0])
        print("impl (decoded units):", canon[:1000])
        if us is not None and f[1] in INTRINSIC:
            want = run_model(["ES %s %s %s %s %s" % (f[1], f[2], f[3], f[4], f[6])])[0]
            print("lengths: input %d units, reference escaping %d units, implementation %d units%s" % (
                len(unhx(f[6])), len(unhx(want.split()[1])) if want.startswith("ok ") else -1, len(us),
                "" if want == canon else "  <-- DIFFERENT"))
        if us is not None and f[4] in ("2", "3"):
            print("spec : reader gives", run_model(["RD %s %d %s" % (f[2], 1 if f[4] == "2" else 0, hx(us))])[0][:1000], "for input", f[6])
    else:
        f = line.split()
        m = {"enc": f[1], "v11": int(f[2]), "feat": int(f[3])}
        if f[0] == "T": m["script"] = f[4]
        else: m["doc"] = bytes(unhx(f[4])).decode("utf-8", "replace")
        print("tree :", describe(m))
        print("impl :", strip_bytes(outs[0])[:1500])
        print("spec : judgement", judge_tree(m, outs[0]))
        if f[0] == "T":
            print("spec : expanded names stated by the recipe", parse_script(f[4])[1]["names"][:600])
            nf = run_model(["NF " + f[4]])[0]
            if nf != "unsupported": print("model: namespace declarations per element", nf[:600])
        if f[0] == "T":
            mo = run_model(["TS %s %s %d %s" % (f[1], f[2], int(f[3]) | ts_bits(), f[4])])[0]
            print("model:", mo[:1000] if mo != "bad-op" else "(tree outside the serializer model: namespaces / doctype)")
    if err.strip(): print("stderr:", err.strip()[:600])
    return 0
