"""Independent syntactic oracle for XML Schema regular expressions (XML Schema Part 2: Datatypes, 2nd ed., Appendix F),
written from the grammar productions [1]-[37a] and the accompanying prose, not from the library.

parse(text) returns one of
    ("ok",  ast)            text is a regExp; ast gives its language (ast_rpn(ast) is None when the language uses an
                            escape whose code-point set is not re-derived here: \\d \\w \\i \\c \\p{..} and complements)
    ("rej", category)       text is not derivable from production [1]: the constructor must throw ParseException
    ("unk", why)            Appendix F is silent or inconsistent about this text: no claim is made

What is claimed, and from where:
  [3][4]   piece ::= atom quantifier?            -> a quantifier needs an atom before it and cannot be doubled
  [5]-[8]  quantity: n | n, | n,m  (digits only, no blanks, no signs, no missing lower bound); prose under [8]:
           "n,m ... at least n and at most m" is a range, so n > m denotes nothing and is an error (the Schema
           for Schemas and every implementation treat it so; m = 0 is an ordinary bound: a{0,0} is the empty string)
  [9]      '(' regExp ')' must balance
  [10]     Char excludes . \\ ? * + ( ) | [ ] ; the prose ("A metacharacter is either ., \\, ?, *, +, {, } (, ), [ or ]",
           "a normal character is any XML character that is not a metacharacter") also excludes { and }: an unescaped
           brace that is not part of a quantifier is rejected (XSD 1.1 production [10] says the same)
  [12]-[22] character classes: non-empty, closed, s-e range with s <= e, neither end a multi-character escape,
           '[' not allowed unescaped, subtraction is '-' followed by a class expression and must end the group.
           Prose under [17]-[22]: "The [, ], - and \\ characters are not valid character ranges; ... The - character is a
           valid character range only at the beginning or end of a positive character group": a '-' that is neither
           first, last, the operator of an s-e range nor the subtraction operator is an error (category class-dash).
           A '^' directly after the negation '^' and a group starting with '--': no claim.
  [24]     SingleCharEsc: backslash + one of n r t \\ | . ? * + ( ) { } - [ ] ^ ; [37] MultiCharEsc s S i I c C d D w W;
  [25]-[36] \\p{..} / \\P{..} with a Unicode general category of production [28]-[35] or Is<Block>; a name that is
           neither -> error; unknown block names: no claim.  Every other backslash sequence is an error.
"""

MAXC = 0x10FFFF

class Rej(Exception):
    pass

class Unk(Exception):
    pass

CATEGORIES = set("L Lu Ll Lt Lm Lo M Mn Mc Me N Nd Nl No P Pc Pd Ps Pe Pi Pf Po Z Zs Zl Zp S Sm Sc Sk So C Cc Cf Co Cn".split())
KNOWN_BLOCKS = {"IsBasicLatin", "IsGreek", "IsCyrillic", "IsHebrew", "IsArabic", "IsLatin-1Supplement"}
SINGLE = "nrt\\|.?*+(){}-[]^"
MULTI = "sSiIcCdDwW"
WS = [(9, 10), (13, 13), (32, 32)]
DOT_EXCL = [(10, 10), (13, 13)]

def norm(rs):
    rs = sorted(rs); out = []
    for a, b in rs:
        if out and a <= out[-1][1] + 1:
            out[-1] = (out[-1][0], max(out[-1][1], b))
        else:
            out.append((a, b))
    return out

def compl(rs):
    out = []; cur = 0
    for a, b in norm(rs):
        if a > cur: out.append((cur, a - 1))
        cur = b + 1
    if cur <= MAXC: out.append((cur, MAXC))
    return out

def inter(x, y):
    out = []
    for a, b in norm(x):
        for c, d in norm(y):
            lo, hi = max(a, c), min(b, d)
            if lo <= hi: out.append((lo, hi))
    return norm(out)

class P:
    def __init__(self, s):
        self.s = s; self.i = 0
    def peek(self):
        return self.s[self.i] if self.i < len(self.s) else None
    def next(self):
        c = self.s[self.i]; self.i += 1; return c

def parse(text):
    p = P(text)
    try:
        ast = regexp(p)
        if p.peek() is not None:          # only an unmatched ')' stops regexp() early
            raise Rej("paren")
        return ("ok", ast)
    except Rej as e:
        return ("rej", e.args[0])
    except Unk as e:
        return ("unk", e.args[0])

def regexp(p):
    bs = [branch(p)]
    while p.peek() == "|":
        p.next(); bs.append(branch(p))
    return bs[0] if len(bs) == 1 else ("alt", bs)

def branch(p):
    ps = []
    while p.peek() is not None and p.peek() not in "|)":
        ps.append(piece(p))
    if not ps: return ("eps",)
    return ps[0] if len(ps) == 1 else ("cat", ps)

def digits(p):
    d = ""
    while p.peek() is not None and p.peek() in "0123456789":
        d += p.next()
    return d

def piece(p):
    a = atom(p)
    c = p.peek()
    if c == "*": p.next(); return ("rep", a, 0, None)
    if c == "+": p.next(); return ("rep", a, 1, None)
    if c == "?": p.next(); return ("rep", a, 0, 1)
    if c == "{":
        p.next()
        lo = digits(p)
        if not lo: raise Rej("quantifier-syntax")
        if p.peek() == "}":
            p.next(); n = int(lo); return ("rep", a, n, n)
        if p.peek() != ",": raise Rej("quantifier-syntax")
        p.next()
        hi = digits(p)
        if p.peek() != "}": raise Rej("quantifier-syntax")
        p.next()
        n = int(lo)
        if hi == "": return ("rep", a, n, None)
        m = int(hi)
        if n > m: raise Rej("quantifier-min-gt-max")
        return ("rep", a, n, m)
    return a

def escape(p, in_class):
    """after the backslash; returns ('ch', cp) | ('set', ranges|None)"""
    c = p.peek()
    if c is None: raise Rej("escape")
    p.next()
    if c in SINGLE:
        return ("ch", {"n": 10, "r": 13, "t": 9}.get(c, ord(c)))
    if c in MULTI:
        if c == "s": return ("set", WS)
        if c == "S": return ("set", compl(WS))
        return ("set", None)
    if c in "pP":
        if p.peek() != "{": raise Rej("category-escape")
        p.next()
        name = ""
        while p.peek() is not None and p.peek() != "}":
            name += p.next()
        if p.peek() is None: raise Rej("category-escape")
        p.next()
        if name in CATEGORIES or name in KNOWN_BLOCKS: return ("set", None)
        if name.startswith("Is") and len(name) > 2 and all(ch.isalnum() and ord(ch) < 128 or ch == "-" for ch in name[2:]):
            raise Unk("unknown block name")
        raise Rej("category-escape")
    raise Rej("escape")

def atom(p):
    c = p.peek()
    if c == "(":
        p.next()
        r = regexp(p)
        if p.peek() != ")": raise Rej("paren")
        p.next()
        return ("grp", r)
    if c in "?*+": raise Rej("dangling-quantifier")
    if c in "{}": raise Rej("brace")
    if c == "]": raise Rej("class")
    if c == "[": return class_expr(p)
    if c == ".":
        p.next(); return ("cls", compl(DOT_EXCL))
    if c == "\\":
        p.next()
        e = escape(p, False)
        if e[0] == "ch": return ("cls", [(e[1], e[1])])
        return ("cls", e[1]) if e[1] is not None else ("opaque",)
    p.next()
    return ("cls", [(ord(c), ord(c))])

def class_expr(p):
    """at '['; returns ('cls', ranges) or ('opaque',)"""
    p.next()
    neg = False
    if p.peek() == "^":
        p.next(); neg = True
        if p.peek() == "^": raise Unk("'^' directly after the negation '^'")
    items = []; opaque = False; n_items = 0
    sub = None
    first = True
    while True:
        c = p.peek()
        if c is None: raise Rej("class")
        if c == "]":
            p.next(); break
        if c == "[": raise Rej("class")
        if c == "-":
            p.next()
            nx = p.peek()
            if nx is None: raise Rej("class")
            if nx == "[":
                if n_items == 0: raise Rej("class")          # subtraction needs a (pos|neg)CharGroup on the left
                sub = class_expr(p)
                if p.peek() != "]": raise Rej("class")
                p.next(); break
            if first and nx == "-": raise Unk("'--' at the start of a character group")
            if first or nx == "]":
                items.append((45, 45)); n_items += 1; first = False; continue
            raise Rej("class-dash")
        # charOrEsc or class escape
        if c == "\\":
            p.next()
            e = escape(p, True)
            if e[0] == "set":
                if e[1] is None: opaque = True
                else: items += e[1]
                n_items += 1; first = False
                if p.peek() == "-" and p.s[p.i + 1:p.i + 2] not in ("[", "]"):
                    if p.s[p.i + 1:p.i + 2] == "": raise Rej("class")
                    raise Rej("class-dash")                       # '-' after a class escape, in the middle of the group
                continue
            s = e[1]
        else:
            p.next(); s = ord(c)
        first = False
        # range?
        if p.peek() == "-" and p.s[p.i + 1:p.i + 2] not in ("[", "]", ""):
            p.next()
            d = p.peek()
            if d == "[": raise Rej("class")
            if d == "-": raise Rej("class-dash")
            if d == "\\":
                p.next()
                e = escape(p, True)
                if e[0] == "set": raise Rej("class-range")
                t = e[1]
            else:
                p.next(); t = ord(d)
            if s > t: raise Rej("class-range")
            items.append((s, t)); n_items += 1
        else:
            items.append((s, s)); n_items += 1
    if n_items == 0: raise Rej("class")
    if opaque or (sub is not None and sub[0] == "opaque"):
        return ("opaque",)
    base = norm(items)
    if neg: base = compl(base)
    if sub is not None: base = inter(base, compl(sub[1]))
    return ("cls", base)

# ------------------------------------------------------------------ language of an AST, as RPN for the Lean Spec

def ast_rpn(a):
    """RPN understood by `xvdriver regex` (XV.Driver.Regex.parseRpn), or None when the language is opaque"""
    t = a[0]
    if t == "eps": return "e"
    if t == "opaque": return None
    if t == "cls":
        if not a[1]: return "0"
        return "c:" + ".".join("%x-%x" % q for q in a[1])
    if t == "grp": return ast_rpn(a[1])
    if t in ("cat", "alt"):
        parts = [ast_rpn(x) for x in a[1]]
        if any(q is None for q in parts): return None
        out = parts[0]
        for q in parts[1:]:
            out += "," + q + ("," + ("." if t == "cat" else "|"))
        return out
    if t == "rep":
        r = ast_rpn(a[1])
        if r is None: return None
        n, m = a[2], a[3]
        if m is None:
            if n == 0: return r + ",*"
            if n == 1: return r + ",+"
            return r + ",r:%d:" % n
        if (n, m) == (0, 1): return r + ",?"
        return r + ",r:%d:%d" % (n, m)
    raise ValueError(a)

def max_count(a):
    """largest explicit repetition count (to keep the Spec's desugaring small)"""
    t = a[0]
    if t in ("cat", "alt"): return max(max_count(x) for x in a[1])
    if t == "grp": return max_count(a[1])
    if t == "rep": return max(a[2], a[3] or 0, max_count(a[1]))
    return 0

def hazard(a):
    """(nullable, unbounded repetition of a nullable operand somewhere)"""
    t = a[0]
    if t == "eps": return True, False
    if t in ("cls", "opaque"): return False, False
    if t == "grp": return hazard(a[1])
    if t == "cat":
        hs = [hazard(x) for x in a[1]]; return all(h[0] for h in hs), any(h[1] for h in hs)
    if t == "alt":
        hs = [hazard(x) for x in a[1]]; return any(h[0] for h in hs), any(h[1] for h in hs)
    if t == "rep":
        n, hz = hazard(a[1])
        return (n or a[2] == 0), (hz or (a[3] is None and n))
    raise ValueError(a)

def sample(a, r, count=None, prefer="abcxyzw"):
    """a string of the language of `a` (unbounded/bounded repetitions directly at the root take `count` copies when given)"""
    t = a[0]
    if t == "eps": return ""
    if t == "opaque": return "0"
    if t == "cls":
        cands = [ch for ch in prefer if any(lo <= ord(ch) <= hi for lo, hi in a[1])]
        if cands: return r.choice(cands)
        if not a[1]: return ""
        lo, hi = a[1][0]
        return chr(lo if lo >= 32 else min(hi, max(lo, 32)))
    if t == "grp": return sample(a[1], r, count, prefer)
    if t == "cat": return "".join(sample(x, r, None, prefer) for x in a[1])
    if t == "alt": return sample(r.choice(a[1]), r, None, prefer)
    if t == "rep":
        n, m = a[2], a[3]
        k = count if count is not None else n + r.below((2 if m is None else m - n) + 1)
        return "".join(sample(a[1], r, None, prefer) for _ in range(k))
    raise ValueError(a)
