"""C09, xs:duration: lexical space, the partial order of XSD 3.2.6.2 (four reference dateTimes), facet validation.

Routes: XMLDateTime::parseDuration / XMLDateTime::compare(a, b, strict) directly (hx_dt `DT duration`, `DTK duration`),
the built-in validator and XSValue (`T duration`), and restrictions of xs:duration in real schema documents (hx_facet).
The generator sweeps PnM against PdD and PThH around every month-length boundary (n = 1..14, d from two below the
shortest to two above the longest n-month span over the four reference dates), years against days around 365/366, both
argument orders, positive and negative.  The Spec (`xvdriver dtspec`: ST/STK duration) judges every observation; the
order axioms are checked on the implementation's own answers."""
import re
import common
from props import c09_facets as F

def hx(s):
    return ".".join("%x" % ord(c) for c in s) if s else "-"

def run(area, lines):
    out = common.run_driver([area], input=("\n".join(lines) + "\n").encode()).decode().split("\n")
    if out and out[-1] == "":
        out.pop()
    if len(out) != len(lines):
        raise common.InfraError("%s produced %d lines for %d" % (area, len(out), len(lines)))
    return out

MONTH_LEN = {(1696, 9): None}
def span_days(y, m, n):
    import datetime
    a = datetime.date(y, m, 1)
    t = m - 1 + n
    b = datetime.date(y + t // 12, t % 12 + 1, 1)
    return (b - a).days
REFS = [(1696, 9), (1697, 2), (1903, 3), (1903, 7)]

def lexical_strings(ctx):
    r = ctx.rng
    base = ["P1Y", "P1M", "P1D", "PT1H", "PT1M", "PT1S", "P1Y2M3DT4H5M6S", "P1Y2M3DT4H5M6.7S", "-P1Y2M3DT4H5M6.7S", "PT0S", "P0Y", "-P0D",
            "P1Y2M3D", "PT1H1M", "PT1.5S", "PT0.000S", "P400D", "P14M", "PT1488H", "PT36H", "P0Y0M0DT0H0M0S", "PT60S", "PT1M0S",
            "P", "PT", "P1YT", "-P", "-", "", "1Y", "p1y", "P-1Y", "P1Y-2M", "+P1Y", "PT1H1H", "P1YT1H", "PT1M1H", "P1M2Y", "P1D1M", "P1Y1Y",
            "P1.5Y", "P1.5D", "PT1.5H", "PT1.S", "PT.5S", "PT1.5.5S", "PY", "PM", "PD", "PTH", "PTM", "PTS", "P1YM", "P1YT1HM", "PT1HS", "P1Y ",
            " P1Y", "P 1Y", "P1Y2M3DT", "P1T1H", "PT1D", "P1H", "P1S", "PT1Y", "--P1Y", "-PT1S", "P1Y2M3DT4H5M6,7S", "P１Y", "P1y", "PT1s",
            "P2147483647D", "PT86400S", "P12M", "P365D", "P366D", "P1Y0M", "P0M1D"]
    out = list(base)
    parts = [("Y", 3), ("M", 15), ("D", 40)]
    tparts = [("H", 30), ("M", 70), ("S", 70)]
    for _ in range(300 if ctx.thorough() else 90):
        s = "-" if r.chance(1, 4) else ""
        s += "P"
        for d, mx in parts:
            if r.chance(1, 2):
                s += "%d%s" % (r.below(mx), d)
        if r.chance(1, 2):
            s += "T"
            for d, mx in tparts:
                if r.chance(1, 2):
                    s += ("%d.%d%s" % (r.below(mx), r.below(100), d)) if d == "S" and r.chance(1, 3) else "%d%s" % (r.below(mx), d)
        if r.chance(1, 6) and len(s) > 2:
            p = r.below(len(s))
            s = s[:p] + r.choice(["", "T", "P", "-", ".", "1", "Y", " "]) + s[p + r.below(2):]
        out.append(s)
    seen, res = set(), []
    for s in out:
        if s not in seen:
            seen.add(s); res.append(s)
    return res

def order_pairs(ctx):
    """(a, b) pairs; both argument orders are added by the caller"""
    pairs = []
    for n in range(1, 15):
        spans = [span_days(y, m, n) for y, m in REFS]
        for d in range(min(spans) - 2, max(spans) + 3):
            pairs.append(("P%dM" % n, "P%dD" % d))
        for d in sorted(set(spans)):
            pairs.append(("P%dM" % n, "PT%dH" % (24 * d)))
            pairs.append(("P%dM" % n, "PT%dH" % (24 * d - 1)))
            pairs.append(("P%dM" % n, "P%dDT1S" % d))
            pairs.append(("-P%dM" % n, "-P%dD" % d))
        pairs.append(("P%dM" % n, "P%dM" % (n + 1)))
        pairs.append(("P%dD" % (min(spans) - 1), "P%dD" % (max(spans) + 1)))      # closes PaD < PnM < PbD triples for transitivity
        pairs.append(("P%dM" % n, "P%dY%dM" % (n // 12, n % 12)))
    for y in (1, 2, 3, 4):
        spans = [span_days(yy, m, 12 * y) for yy, m in REFS]
        for d in range(min(spans) - 2, max(spans) + 3):
            pairs.append(("P%dY" % y, "P%dD" % d))
    pairs += [("PT60S", "PT1M"), ("PT3600S", "PT1H"), ("PT24H", "P1D"), ("P1D", "PT23H59M60S"), ("PT0.5S", "PT0.6S"), ("PT1.50S", "PT1.5S"),
              ("PT0S", "-PT0S"), ("P0Y", "PT0S"), ("-P1D", "P1D"), ("-P1M", "-P30D"), ("-P1M", "-P27D"), ("-P1M", "-P32D"), ("P1Y", "P12M"),
              ("P1Y1D", "P12M1D"), ("P1M1D", "P32D"), ("P1M1D", "P28D"), ("P2M", "P1M31D"), ("PT1H", "PT59M"), ("P1DT1H", "PT25H")]
    return pairs

def check_durations(ctx, V):
    evals = 0
    # ---- lexical space, three routes
    strs = lexical_strings(ctx)
    lines = ["DT duration " + hx(s) for s in strs]
    m, i, err = common.run_pair("dt", "hx_dt", lines)
    sp = run("dtspec", ["ST duration " + hx(s) for s in strs])
    tl = ["T duration " + hx(s) for s in strs if s == s.strip(" \t\n\r") and "\v" not in s]
    p = common.run_harness("hx_dt", input=("\n".join(tl) + "\n").encode())
    tout = dict(zip([l.split()[2] for l in tl], p.stdout.decode(errors="replace").split("\n")))
    ndis = 0
    for k, s in enumerate(strs):
        if s != s.strip(" \t\n\r"):
            continue
        evals += 2
        lex = sp[k].startswith("lex 1")
        ok = i[k].startswith("ok")
        rp = {"op": "DT duration", "string": hx(s), "text": s}
        if ok != lex:
            empty = bool(re.search(r"(^-?P|[YMDTHS.])(?=[YMDHS.])", s)) and ok
            V.add("duration-lexical:" + ("designator-without-digits-accepted" if empty else ("accepts" if ok else "rejects")),
                  "XMLDateTime::parseDuration(%r): implementation %s (%s), XSD 3.2.6.1: %s" % (s, "accepts" if ok else "rejects", i[k][:60], sp[k]), rp)
        elif lex:
            f = i[k].split()
            y, mo, d, h, mi, se = (int(x) for x in f[1:7])
            want = sp[k].split()
            if y * 12 + mo != int(want[3]) or ((d * 24 + h) * 60 + mi) * 60 + se != int(want[4]):
                V.add("duration-value", "parseDuration(%r) holds %s, the lexical form denotes %s months %s seconds" % (s, i[k], want[3], want[4]), rp)
        if " ".join(i[k].split()[:7]) != m[k] and ok == lex and not (m[k] == "exc" and not ok):
            ndis += 1
            V.add("corr:duration-parse", "parseDuration model vs implementation: %r model=%s impl=%s" % (s, m[k], i[k]),
                  {"correspondence": "dt", "case": lines[k], "model": m[k], "impl": i[k]}, concrete=False)
        t = tout.get(hx(s))
        if t and "b=" in t:
            b, c = t.split()[0][2] == "V", t.split()[1][2] == "V"
            if b != c:
                V.add("validator-vs-xsvalue:duration", "xs:duration %r: validator says %s, XSValue::validate says %s" % (s, b, c), {"op": "T", "type": "duration", "string": hx(s), "text": s})
            elif b != lex and ok == lex:
                V.add("spec-verdict:duration", "xs:duration %r: validator/XSValue say %s, Spec says %s" % (s, b, lex), {"op": "T", "type": "duration", "string": hx(s), "text": s})
    # ---- order
    base = order_pairs(ctx)
    pairs = []
    for a, b in base:
        pairs += [(a, b), (b, a)]
    singles = sorted({x for pr in base for x in pr})
    pairs += [(x, x) for x in singles[::7]]
    klines = ["DTK duration %s %s" % (hx(a), hx(b)) for a, b in pairs]
    km, ki, kerr = common.run_pair("dt", "hx_dt", klines)
    ks = run("dtspec", ["STK duration %s %s" % (hx(a), hx(b)) for a, b in pairs])
    res = {}
    for k, (a, b) in enumerate(pairs):
        evals += 1
        o = ki[k]
        rp = {"op": "DTK", "kind": "duration", "a": hx(a), "b": hx(b), "text": [a, b]}
        if ks[k] == "na":
            continue
        if not o.startswith("cmp "):
            V.add("duration-order:exception", "XMLDateTime::compare(%r, %r, strict) on durations: %s" % (a, b, o), rp); continue
        c = o.split()[1]
        res[(a, b)] = int(c)
        if c != ks[k]:
            frac = "." in a + b
            # EQUAL for unequal durations comes from the shortcut compareOrder(pDate1, pDate2) on the raw fields (known finding);
            # a LESS/GREATER answer where the reference dateTimes disagree, or any other difference, is never explained by it
            key = ("duration-order:fraction-ignored" if frac and c == "0" else
                   "duration-order:equal-by-field-normalisation" if c == "0" else
                   "duration-order:determinate-where-indeterminate" if ks[k] == "2" else "duration-order")
            V.add(key, "XMLDateTime::compare(%r, %r, strict) = %s; XSD 3.2.6.2 (s+x vs s+y for the four reference dateTimes) gives %s (2 = indeterminate)" % (a, b, c, ks[k]), rp)
        elif km[k] != o and not (km[k] == "cmp 0" and ks[k] != "0"):   # the model is the code as it stands, shortcut included
            V.add("corr:duration-compare", "duration compare model vs implementation: (%r, %r) model=%s impl=%s" % (a, b, km[k], o),
                  {"correspondence": "dt", "case": klines[k], "model": km[k], "impl": o}, concrete=False)
    for (a, b), x in res.items():
        y = res.get((b, a))
        if y is not None and ((x == 2) != (y == 2) or (x != 2 and x != -y)):
            V.add("duration-order:antisymmetric", "compare(%r,%r)=%d but compare(%r,%r)=%d" % (a, b, x, b, a, y), {"op": "DTK", "kind": "duration", "a": hx(a), "b": hx(b), "text": [a, b]})
    # transitivity through PnM < PdD < P(n+1)M style triples on determinate answers
    names = sorted({a for a, _ in res} | {b for _, b in res})
    lt = {}
    for (a, b), x in res.items():
        if x == -1:
            lt.setdefault(a, set()).add(b)
    ntr = 0
    for a in names:
        for b in lt.get(a, ()):
            for c in lt.get(b, ()):
                z = res.get((a, c))
                if z is not None:
                    ntr += 1
                    if z != -1:
                        V.add("duration-order:transitive", "compare(%r,%r)=-1, compare(%r,%r)=-1 but compare(%r,%r)=%d" % (a, b, b, c, a, c, z),
                              {"op": "DTK3", "kind": "duration", "a": hx(a), "b": hx(b), "c": hx(c)})
    # ---- facet validation of restrictions of xs:duration, through real schema documents
    chains = [(F.A("duration", [{"maxE": "P62D"}]), ["P2M", "P61D", "P62D", "P1M", "PT1487H", "PT1488H", "P3M"]),
              (F.A("duration", [{"minE": "P2M"}]), ["P62D", "P63D", "P61D", "P2M", "P3M", "P2M1D"]),
              (F.A("duration", [{"minI": "P1M"}, {"maxE": "P123D"}]), ["P4M", "P122D", "P123D", "P1M", "P27D", "P28D", "P31D", "P3M"]),
              (F.A("duration", [{"maxI": "P1Y"}, {"minE": "P215D"}]), ["P7M", "P8M", "P216D", "P215D", "P12M", "P365D", "P366D", "P367D", "P13M"]),
              (F.A("duration", [{"maxE": "P428D"}, {"minI": "PT1H"}]), ["P14M", "P427D", "P428D", "PT1H", "PT59M", "PT60M", "P13M"])]
    r = ctx.rng
    for _ in range(12 if ctx.thorough() else 4):
        n = 1 + r.below(14)
        spans = sorted({span_days(y, mth, n) for y, mth in REFS})
        d = r.choice(spans)
        steps = [{r.choice(["maxE", "maxI"]): "P%dD" % d}] if r.chance(1, 2) else [{r.choice(["minE", "minI"]): "P%dM" % n}]
        vals = ["P%dM" % n] + ["P%dD" % x for x in range(spans[0] - 1, spans[-1] + 2)] + ["PT%dH" % (24 * d)]
        chains.append((F.A("duration", steps), vals))
    cases = []
    for t, vals in chains:
        em = F.Emit()
        _, names_ = em.type(t)
        cases.append({"schema": em.schema(names_), "levels": [t.expr(k + 1) for k in range(len(names_))], "values": vals})
    fs = ["FS %s %d %s" % (F.hexbytes(c["schema"]), len(c["levels"]), ",".join(F.hexbytes(v) for v in c["values"])) for c in cases]
    pf = common.run_harness("hx_facet", input=("\n".join(fs) + "\n").encode(), timeout=3000)
    fo = pf.stdout.decode(errors="replace").split("\n")
    ferr = pf.stderr.decode(errors="replace")
    if len([x for x in fo if x]) < len(fs) and not ("AddressSanitizer" in ferr or "runtime error" in ferr):
        raise common.InfraError("harness hx_facet stopped early on the duration schemas (rc=%s)" % pf.returncode)
    for ci, c in enumerate(cases):
        o = fo[ci] if ci < len(fo) else "NO-OUTPUT"
        f = o.split()
        rp0 = {"op": "FS", "schema": c["schema"], "levels": c["levels"], "values": c["values"]}
        if not f or f[0] != "load=ok":
            V.add("facet:duration:schema-refused", "a restriction of xs:duration was refused at load: %s (%s)" % (c["levels"][-1], o[:120]), rp0); continue
        per = {int(tok.split("=")[0][1:]) - 1: tok.split("=", 1)[1] for tok in f[1:] if "=" in tok}
        fa = ["FA %s %s" % (e, hx(v)) for e in c["levels"] for v in c["values"]]
        want = run("facetspec", fa)
        for li, e in enumerate(c["levels"]):
            for vi, v in enumerate(c["values"]):
                evals += 1
                pd = per.get(li, "")[2 * vi:2 * vi + 2]
                w = want[li * len(c["values"]) + vi].endswith("v=V")
                rp = {"op": "FS", "schema": c["schema"], "level": li + 1, "expr": e, "value": v}
                if len(pd) != 2:
                    V.add("facet:harness", "unexpected output %r" % o[:100], rp); continue
                P, D = pd[0] == "V", pd[1] == "V"
                if P != D:
                    V.add("facet:in-parse-vs-validator:duration", "%r against %s: in-parse %s, validator %s" % (v, e, P, D), rp)
                elif P != w:
                    V.add("facet:duration:" + ("accepts" if P else "rejects"),
                          "%r against the restriction %s of xs:duration is %s by the library; by XSD 3.2.6.2 / 4.3 (a bound facet needs a determinate order) it is %s" % (
                              v, e, "valid" if P else "invalid", "valid" if w else "invalid"), rp)
    for e in (err, kerr):
        if "runtime error" in e or "AddressSanitizer" in e:
            V.add("dt-sanitizer:duration", "sanitizer report in duration harness run: " + common.sanitizer_summary(e), {"stderr": e[-1500:]})
    ctx.stats["duration"] = {"lexical_strings": len(strs), "order_pairs": len(pairs), "transitive_triples": ntr, "facet_schemas": len(cases)}
    ctx.samples.append({"case": klines[3], "text": list(pairs[3]), "model": km[3], "impl": ki[3], "spec": ks[3]})
    return evals, {("DU", s) for s in strs if s} | {("DUK", a, b) for a, b in pairs if a != b}
