"""C10 — identity constraints (xs:unique / xs:key / xs:keyref) are enforced in the value space.

Theorems: XV.Props.C10 (incremental XPathMatcher = declarative path semantics on the proved path classes, with kernel-checked
counter-examples outside them; ValueStore duplicate / key / keyref verdicts = the tuple-level statements, permutation and
order invariance; value-space equality of decimals; isDuplicateOf = value equality; executable Spec = declarative ICValid).

Correspondence:
 (1) document tier: generated (schema, instance) pairs are validated by the REAL XercesDOMParser (IGXMLScanner and
     SGXMLScanner; schema through external schema location + entity resolver, or loadGrammar + cached grammar) with
     identity-constraint checking on; the set of XMLValid IC_* codes reported is judged by the executable Lean Spec
     `icCheck` on the abstract (constraints, tree) description emitted with the XML (implementation != Spec is a concrete
     violation, replay = schema + instance), and the exact multiset of codes is compared with the code-shaped Lean model
     of IdentityConstraintHandler / XPathMatcher / ValueStore / ValueStoreCache.
 (2) matcher tier: XercesXPath + XPathMatcher are driven directly on generated (xpath, tree) pairs; the fMatched flags and
     matched() calls are compared with the code-shaped model, the set of matched() calls is judged by Spec `pathMatches`."""
import json
import common

PID = "C10"
GEN = ["ValidityCodes"]
LEAN_MODULE = "XV.Props.C10"
THEOREMS = ["XV.Props.C10." + t for t in (
    "ic_codes_are_errors", "decimal_eq_value", "isDuplicateOf_value", "tupleEquals_value", "isDuplicateOf_empty_cross_type_witness",
    "matcher_eq_path", "matcher_desc_eq_path", "matcher_deviations",
    "dup_iff", "key_iff", "keyref_iff", "perm_invariant", "keyorder_invariant",
    "icCheck_iff_ICValid", "table_single_scope", "table_sibling_scopes_partial")]
RULE = ("document tier: schema family root/grp/box/rec/sub/ref with typed attribute and element fields (string, token, integer, "
        "decimal, date, QName), 1-3 definitions (unique, key, key+keyref) declared on root or on the repeating grp element, "
        "selector/field xpaths drawn from child steps, .//x, *, unions, @attr, '.', with and without targetNamespace; instances "
        "with 0..N records (N up to 40 quick, up to 3000 in thorough to cross ValueStore hash-table growth), values drawn from "
        "pools with lexically different equal members, absent fields, xsi:nil, keyrefs to existing/missing keys, random "
        "document orders plus a permuted copy of a share of the cases. evaluations = documents validated (all scanner/route "
        "variants counted once) + matcher cases; distinct_nontrivial = distinct (schema, instance) texts with at least one "
        "selected node carrying a complete tuple")
ASSUMPTIONS = ["DatatypeValidator::compare of the common ancestor type = equality of the denoted values (datatypes are property C09)",
               "the ValueStore hash table is modelled as a duplicate-free list (hasher consistent with equals: exercised by the large instances)",
               "fields select simple-typed elements/attributes of valid lexical form (the generator only produces such instances)",
               "xsi:type, union/list typed fields, default/fixed element values, XSD 1.1 features: not modelled (partial)"]
TRUSTED = ["XV.Spec.Identity (XSD 1.0 Structures 3.11 as transcribed, incl. value spaces of the six field types)",
           "Python renderer of abstract (constraints, tree) cases to schema and instance text"]

XSI = "http://www.w3.org/2001/XMLSchema-instance"
TNS = "urn:t"
IC_LO, IC_HI = 64, 72

# ------------------------------------------------------------------ names
# local-name ids (Lean side sees only the ids)
NAMES = ["root", "grp", "box", "rec", "sub", "ref", "f1", "f2", "g1", "g2", "a1", "a2", "b1", "b2", "c1"]
NID = {n: i for i, n in enumerate(NAMES)}

_codes = None
def code_names():
    global _codes
    if _codes is None:
        import re, os
        t = open(os.path.join(common.REPO, "src/xercesc/framework/XMLValidityCodes.hpp"), encoding="latin-1").read()
        _codes = {int(v): n for n, v in re.findall(r"(\w+)\s*=\s*(\d+)", t)}
    return _codes

# ------------------------------------------------------------------ value pools: groups of lexically different equal forms
POOLS = {
    "string": [["a"], ["b"], [" a"], ["a b"], ["a  b"], ["A"], ["1"], ["1.0"], [""]],
    "token": [["a", " a", "a ", "  a  "], ["a b", " a  b ", "a\tb", "a \n b"], ["b"], ["1"], ["1.0"]],
    "integer": [["1", "+1", "01", " 1 ", "0001"], ["2", "+2", "002"], ["-3", "-03"], ["0", "-0", "+0", "00"], ["10", "010"], ["12345678901234567890", "+12345678901234567890"]],
    "decimal": [["1", "1.0", "1.00", "+1", "01.0", "1.", " 1.0"], ["1.5", "1.50", "+1.5", "01.500"], ["0", "0.0", "-0", ".0", "-0.00"],
                ["0.5", ".5", "0.50", "+.5"], ["-2.25", "-2.250", "-02.25"], ["10", "10.0", "10.00"], ["100", "100.0"], ["0.1", ".10"]],
    "date": [["2000-01-01Z", "2000-01-01+00:00", "2000-01-01-00:00"], ["2000-01-01+14:00", "1999-12-31-10:00"], ["2000-01-01"],
             ["2000-01-02+12:00", "2000-01-01-12:00"], ["2000-02-29Z"], ["2000-03-01Z"], ["2000-01-02"], ["1999-12-31Z", "1999-12-31+00:00"]],
    # (namespace id, local name): prefixes p1/p2 -> urn:a, q -> urn:b; unprefixed -> default namespace of the instance
    "QName": [[(2, "x")], [(3, "x")], [(2, "y")], [(-1, "x")], [(1, "x")]],
}
TYLET = {"string": "s", "token": "t", "integer": "i", "decimal": "d", "date": "D", "QName": "Q"}
RELATED = {"integer": "decimal", "decimal": "integer", "string": "token", "token": "string"}

def big_value(ty, k, r):
    """k-th member of an unbounded family of distinct values of the type, with a random equal lexical variant"""
    if ty == "integer":
        return r.choice(["%d", "+%d", "0%d", " %d"]) % (1000 + k)
    if ty == "decimal":
        return r.choice(["%d", "%d.0", "%d.00", "+%d.", "0%d.000"]) % (1000 + k)
    if ty == "token":
        return r.choice(["k%d", " k%d", "k%d  "]) % k
    if ty == "date":
        y, d = 2001 + k // 336, k % 336
        return "%04d-%02d-%02d" % (y, 1 + d // 28, 1 + d % 28) + r.choice(["Z", "+00:00", "-00:00"])
    if ty == "QName":
        return (2, "n%d" % k)
    return "k%d" % k

# ------------------------------------------------------------------ xpath (abstract): list of paths, path = list of steps
# step = ("S",) | ("D",) | ("C", test) | ("A", test);  test = ("*",) | ("N", ns) | ("Q", ns, loc-id)
def step_abs(s):
    def t(x):
        return "*" if x[0] == "*" else ("N%d" % x[1] if x[0] == "N" else "Q%d.%d" % (x[1], x[2]))
    return s[0] if s[0] in "SD" else s[0] + t(s[1])

def xpath_abs(xp):
    return "+".join("/".join(step_abs(s) for s in p) for p in xp)

def xpath_text(xp, tns, r=None):
    """XSD selector/field text of an abstract xpath.  The leading self step the parser inserts is rendered as nothing or './'."""
    outs = []
    for p in xp:
        segs, lead = [], ""
        steps = list(p)
        assert steps[0] == ("S",)
        steps = steps[1:]
        if steps and steps[0] == ("D",):
            lead = ".//"; steps = steps[1:]
        elif r is not None and steps and r.chance(1, 4):
            lead = "./"
        for s in steps:
            if s == ("S",):
                segs.append(".")
                continue
            tt = s[1]
            if tt[0] == "*": nm = "*"
            elif tt[0] == "N": nm = ("t:*" if tt[1] == 1 else "*")
            else: nm = ("t:" if tt[1] == 1 else "") + NAMES[tt[2]]
            if s[0] == "A":
                nm = ("@" if r is None or r.chance(3, 4) else "attribute::") + nm
            elif r is not None and r.chance(1, 8):
                nm = "child::" + nm
            segs.append(nm)
        txt = lead + "/".join(segs)
        outs.append(txt if txt else ".")
    sep = "|" if r is None else r.choice(["|", " | ", "|"])
    return sep.join(outs)

def C(name, ns): return ("C", ("Q", ns, NID[name]))
def A(name): return ("A", ("Q", 0, NID[name]))
S, D = ("S",), ("D",)
def CW(): return ("C", ("*",))
def CN(ns): return ("C", ("N", ns))

# ------------------------------------------------------------------ schema family
class Schema:
    pass

def gen_schema(r, big=False):
    sc = Schema()
    sc.tns = r.chance(1, 3)
    ens = 1 if sc.tns else 0            # namespace id of every element (elementFormDefault=qualified)
    sc.ens = ens
    tys = list(POOLS)
    def pick_ty():
        return r.choice(tys)
    # field carriers: rec: @a1 @a2 f1 f2 sub(@a1 f1);  ref: @b1 @b2 g1 g2
    base = pick_ty()
    sc.types = {("rec", "@a1"): base, ("rec", "@a2"): pick_ty(), ("rec", "f1"): r.choice([base, pick_ty()]), ("rec", "f2"): pick_ty(),
                ("sub", "@a1"): r.choice([base, pick_ty()]), ("sub", "f1"): r.choice([base, pick_ty()])}
    sc.nillable = {k: (k[1][0] != "@" and r.chance(1, 5)) for k in sc.types}
    # ---- definitions
    sc.ics = []
    shape = r.below(10)
    kscope = r.choice(["root", "grp"]) if not big else "root"
    def sel_for(scope, target):
        """selector xpaths selecting `target` (rec/ref) from `scope`"""
        t = C(target, ens)
        if scope == "root":
            opts = [[[S, C("grp", ens), t]], [[S, D, t]], [[S, CW(), t]], [[S, C("grp", ens), t], [S, C("grp", ens), C("box", ens), t]],
                    [[S, C("grp", ens), CW(), t]], [[S, CN(ens), t]], [[S, C("grp", ens), C("box", ens), t]],
                    [[S, C("grp", ens), t], [S, C("grp", ens), t]],
                    [[S, C("grp", ens), t], [S, CW(), t]], [[S, D, t], [S, C("grp", ens), t]], [[S, C("grp", ens), t], [S, D, t]]]
            w = [6, 4, 2, 3, 1, 1, 1, 1, 1, 1, 1]
        else:
            opts = [[[S, t]], [[S, D, t]], [[S, C("box", ens), t], [S, t]], [[S, CW(), t]], [[S, C("box", ens), t]],
                    [[S, t], [S, CW()]], [[S, D, t], [S, t]]]
            w = [6, 4, 3, 1, 1, 1, 1]
        if big:
            return opts[0]
        k = r.below(sum(w))
        for o, ww in zip(opts, w):
            if k < ww: return o
            k -= ww
    def fields_for(target, n):
        """n (field xpath, carrier key) pairs on `target`"""
        if target == "rec":
            cands = [([[S, A("a1")]], ("rec", "@a1")), ([[S, A("a2")]], ("rec", "@a2")), ([[S, C("f1", ens)]], ("rec", "f1")),
                     ([[S, C("f2", ens)]], ("rec", "f2")), ([[S, C("sub", ens), C("f1", ens)]], ("sub", "f1")),
                     ([[S, C("sub", ens), A("a1")]], ("sub", "@a1"))]
            w = [6, 3, 6, 3, 2, 2]
            if not big:
                # multi-match capable / union / wildcard forms (types must agree for the union members)
                if sc.types[("rec", "f1")] == sc.types[("sub", "f1")]:
                    cands.append(([[S, D, C("f1", ens)]], ("rec", "f1"))); w.append(2)
                if sc.types[("rec", "f1")] == sc.types[("rec", "@a1")]:
                    cands.append(([[S, C("f1", ens)], [S, A("a1")]], ("rec", "f1"))); w.append(2)
                cands.append(([[S, CW(), C("f1", ens)]], ("sub", "f1"))); w.append(1)
        else:
            cands = [([[S, A("b1")]], ("ref", "@b1")), ([[S, A("b2")]], ("ref", "@b2")), ([[S, C("g1", ens)]], ("ref", "g1")),
                     ([[S, C("g2", ens)]], ("ref", "g2"))]
            w = [5, 3, 5, 3]
        out, used = [], set()
        while len(out) < n:
            k = r.below(sum(w))
            for i, ww in enumerate(w):
                if k < ww: break
                k -= ww
            if i in used: continue
            used.add(i); out.append(cands[i])
        return out
    nf = 1 if r.chance(3, 5) else 2
    if big: nf = r.choice([1, 1, 2])
    icid = 0
    def add(kind, scope, sel, fields, refer=None):
        nonlocal icid
        sc.ics.append({"id": icid, "kind": kind, "scope": scope, "sel": sel, "fields": [f[0] for f in fields],
                       "carriers": [f[1] for f in fields], "refer": refer})
        icid += 1
        return icid - 1
    if shape < 3 and not big:
        add("u", kscope, sel_for(kscope, "rec"), fields_for("rec", nf))
    elif shape < 5 and not big:
        add("k", kscope, sel_for(kscope, "rec"), fields_for("rec", nf))
    else:
        kf = fields_for("rec", nf)
        kid = add(r.choice(["k", "k", "u"]), kscope, sel_for(kscope, "rec"), kf)
        rscope = r.choice(["root", "root", "grp"]) if not big else "root"
        rf = fields_for("ref", nf)
        # keyref field types: the key's, a related one, rarely an unrelated one
        for (_, car), (_, kcar) in zip(rf, kf):
            kt = sc.types[kcar]
            c = r.below(10)
            sc.types[car] = kt if c < 7 or big else (RELATED.get(kt, kt) if c < 9 else pick_ty())
        add("r", rscope, sel_for(rscope, "ref"), rf, refer=kid)
        if shape == 9 and not big:
            add("u", r.choice(["root", "grp"]), sel_for("root", "rec") if False else sel_for(kscope, "rec"), fields_for("rec", 1))
    for car in [("ref", "@b1"), ("ref", "@b2"), ("ref", "g1"), ("ref", "g2")]:
        sc.types.setdefault(car, pick_ty())
        sc.nillable.setdefault(car, car[1][0] != "@" and r.chance(1, 8))
    if r.chance(1, 2):
        r_ = list(sc.ics)       # declaration order of the definitions inside one element is irrelevant
        r_.reverse(); sc.decl_order = r_
    else:
        sc.decl_order = list(sc.ics)
    return sc

def schema_text(sc, r=None):
    x = "xs:"
    def el(name, ty=None, body=None, occurs='minOccurs="0" maxOccurs="unbounded"', nillable=False, ics=""):
        s = '<xs:element name="%s"%s%s%s' % (name, ' type="xs:%s"' % ty if ty else "", " " + occurs if occurs else "", ' nillable="true"' if nillable else "")
        if body is None and not ics: return s + "/>"
        return s + ">" + (body or "") + ics + "</xs:element>"
    def att(name, ty): return '<xs:attribute name="%s" type="xs:%s"/>' % (name, ty)
    T = sc.types; NL = sc.nillable
    sub = el("sub", body="<xs:complexType><xs:sequence>" + el("f1", T[("sub", "f1")], occurs='minOccurs="0"', nillable=NL[("sub", "f1")]) +
             "</xs:sequence>" + att("a1", T[("sub", "@a1")]) + "</xs:complexType>", occurs='minOccurs="0" maxOccurs="unbounded"')
    rec = el("rec", body="<xs:complexType><xs:sequence>" + el("f1", T[("rec", "f1")], occurs='minOccurs="0" maxOccurs="unbounded"', nillable=NL[("rec", "f1")]) +
             el("f2", T[("rec", "f2")], occurs='minOccurs="0"', nillable=NL[("rec", "f2")]) + sub + "</xs:sequence>" +
             att("a1", T[("rec", "@a1")]) + att("a2", T[("rec", "@a2")]) + "</xs:complexType>", occurs="")
    ref = el("ref", body="<xs:complexType><xs:sequence>" + el("g1", T[("ref", "g1")], occurs='minOccurs="0"', nillable=NL[("ref", "g1")]) +
             el("g2", T[("ref", "g2")], occurs='minOccurs="0"', nillable=NL[("ref", "g2")]) + "</xs:sequence>" +
             att("b1", T[("ref", "@b1")]) + att("b2", T[("ref", "@b2")]) + "</xs:complexType>", occurs="")
    def ic_text(scope):
        out = ""
        for ic in sc.decl_order:
            if ic["scope"] != scope: continue
            tag = {"u": "unique", "k": "key", "r": "keyref"}[ic["kind"]]
            refer = ' refer="%sic%d"' % ("t:" if sc.tns else "", ic["refer"]) if ic["kind"] == "r" else ""
            out += '<xs:%s name="ic%d"%s><xs:selector xpath="%s"/>' % (tag, ic["id"], refer, xpath_text(ic["sel"], sc.tns, r))
            for f in ic["fields"]:
                out += '<xs:field xpath="%s"/>' % xpath_text(f, sc.tns, r)
            out += "</xs:%s>" % tag
        return out
    box = el("box", body='<xs:complexType><xs:choice minOccurs="0" maxOccurs="unbounded">' + rec + ref + "</xs:choice></xs:complexType>", occurs="")
    grp = el("grp", body='<xs:complexType><xs:choice minOccurs="0" maxOccurs="unbounded">' + rec + ref + box + "</xs:choice></xs:complexType>",
             occurs='minOccurs="0" maxOccurs="unbounded"', ics=ic_text("grp"))
    root = el("root", body="<xs:complexType><xs:sequence>" + grp + "</xs:sequence></xs:complexType>", occurs="", ics=ic_text("root"))
    head = '<xs:schema xmlns:xs="http://www.w3.org/2001/XMLSchema"'
    if sc.tns:
        head += ' targetNamespace="%s" xmlns:t="%s" elementFormDefault="qualified"' % (TNS, TNS)
    return head + ">" + root + "</xs:schema>"

# ------------------------------------------------------------------ instances (abstract tree + text)
def pick_value(r, ty, hot):
    """(lexical or (ns, local), pool group index)"""
    pool = POOLS[ty]
    g = r.choice(hot) if hot and r.chance(3, 4) else r.below(len(pool))
    g %= len(pool)
    return r.choice(pool[g]), g

def node(name, ens, attrs=None, text=None, kids=None, nillable=False, nil=False):
    return {"name": name, "ns": ens, "attrs": attrs or [], "text": text, "kids": kids or [], "nillable": nillable, "nil": nil}

def gen_leafs(r, sc, carrier_el, keys, pabsent, big_k=None):
    """attributes and child field elements of a rec/sub/ref: keys = carriers to fill"""
    attrs, kids = [], []
    for car in keys:
        el, f = car
        ty = sc.types[car]
        if r.chance(pabsent[0], pabsent[1]):
            continue
        if big_k is not None:
            v = big_value(ty, big_k, r)
        else:
            v, _ = pick_value(r, ty, sc.hot.get(ty))
        if f[0] == "@":
            attrs.append((f[1:], ty, v))
        else:
            reps = 1
            if car == ("rec", "f1") and big_k is None and r.chance(1, 14):
                reps = 2                      # a second f1: FieldMultipleMatch material
            for _ in range(reps):
                nil = sc.nillable[car] and r.chance(1, 3)
                if sc.nillable[car] and v == "": v = "a"      # (nilled vs. empty string: not explored, see notes)
                kids.append(node(f, sc.ens, text=(ty, "" if nil else v), nillable=sc.nillable[car], nil=nil))
                if reps == 2: v, _ = pick_value(r, ty, sc.hot.get(ty))
    return attrs, kids

def gen_rec(r, sc, pabs, big_k=None):
    attrs, kids = gen_leafs(r, sc, "rec", [("rec", "@a1"), ("rec", "@a2"), ("rec", "f1"), ("rec", "f2")], pabs, big_k)
    if big_k is None and r.chance(1, 3):
        for _ in range(1 if r.chance(5, 6) else 2):
            a2, k2 = gen_leafs(r, sc, "sub", [("sub", "@a1"), ("sub", "f1")], pabs)
            kids.append(node("sub", sc.ens, attrs=a2, kids=k2))
    kids.sort(key=lambda k: ["f1", "f2", "sub"].index(k["name"]))
    return node("rec", sc.ens, attrs=attrs, kids=kids)

def gen_ref(r, sc, pabs, big_k=None):
    attrs, kids = gen_leafs(r, sc, "ref", [("ref", "@b1"), ("ref", "@b2"), ("ref", "g1"), ("ref", "g2")], pabs, big_k)
    return node("ref", sc.ens, attrs=attrs, kids=kids)

def gen_instance(r, sc, big_n=None):
    # hot groups: few values per type, so that duplicates and hits are frequent
    sc.hot = {ty: [r.below(len(POOLS[ty])) for _ in range(2 + r.below(3))] for ty in POOLS}
    pabs = r.choice([(0, 1), (0, 1), (1, 8), (1, 3)])
    grps = []
    if big_n is not None:
        items = []
        dup_at = {r.below(big_n): r.below(big_n) for _ in range(r.below(3))} if big_n > 1 else {}
        for k in range(big_n):
            items.append(gen_rec(r, sc, (0, 1), big_k=dup_at.get(k, k)))
        miss = r.below(3)
        for k in range(min(big_n, 40) + miss):
            items.append(gen_ref(r, sc, (0, 1), big_k=(r.below(big_n) if k < min(big_n, 40) and big_n else 5000 + k)))
        # random document order of keys and references
        for i in range(len(items) - 1, 0, -1):
            j = r.below(i + 1); items[i], items[j] = items[j], items[i]
        grps.append(node("grp", sc.ens, kids=items))
    else:
        ng = r.choice([0, 1, 1, 2, 2, 3])
        for _ in range(ng):
            items = []
            for _ in range(r.choice([0, 1, 2, 3, 4, 6, 9])):
                c = r.below(10)
                if c < 5: items.append(gen_rec(r, sc, pabs))
                elif c < 8: items.append(gen_ref(r, sc, pabs))
                else:
                    inner = [gen_rec(r, sc, pabs) if r.chance(2, 3) else gen_ref(r, sc, pabs) for _ in range(r.below(4))]
                    items.append(node("box", sc.ens, kids=inner))
            grps.append(node("grp", sc.ens, kids=items))
    return node("root", sc.ens, kids=grps)

def permute(r, t):
    """same multiset of records in another document order (children of grp / box shuffled, groups shuffled)"""
    def sh(l):
        l = list(l)
        for i in range(len(l) - 1, 0, -1):
            j = r.below(i + 1); l[i], l[j] = l[j], l[i]
        return l
    def go(n):
        if n["name"] in ("root", "grp", "box"):
            return dict(n, kids=sh([go(k) for k in n["kids"]]))
        return n
    return go(t)

def esc(s):
    return s.replace("&", "&amp;").replace("<", "&lt;").replace(">", "&gt;").replace('"', "&quot;").replace("\t", "&#9;").replace("\n", "&#10;")

def qname_lex(v, r, default_ns):
    ns, loc = v
    if ns == -1: return loc                       # unprefixed: the default namespace of the instance (if any)
    if ns == 1: return "t:" + loc
    if ns == 2: return (r.choice(["p1:", "p2:"]) if r else "p1:") + loc
    return "q:" + loc

def qname_ns(v, default_ns):
    return default_ns if v[0] == -1 else v[0]

def instance_text(sc, t, r=None):
    use_default = sc.tns and (r is None or r.chance(1, 2))
    pre = "" if (not sc.tns or use_default) else "t:"
    default_ns = 1 if use_default else 0
    def val_text(ty, v):
        return qname_lex(v, r, default_ns) if ty == "QName" else v
    def go(n, top=False):
        s = "<" + pre + n["name"]
        if top:
            if use_default: s += ' xmlns="%s"' % TNS
            s += ' xmlns:t="%s"' % TNS
            s += ' xmlns:xsi="%s" xmlns:p1="urn:a" xmlns:p2="urn:a" xmlns:q="urn:b"' % XSI
        for (an, ty, v) in n["attrs"]:
            s += ' %s="%s"' % (an, esc(val_text(ty, v)))
        if n["nil"]:
            s += ' xsi:nil="true"'
        if n["text"] is not None:
            tx = "" if n["nil"] else esc(val_text(*n["text"]))
            if tx == "" and (r is None or r.chance(1, 2)): return s + "/>"
            return s + ">" + tx + "</" + pre + n["name"] + ">"
        if not n["kids"]:
            return s + "/>"
        return s + ">" + "".join(go(k) for k in n["kids"]) + "</" + pre + n["name"] + ">"
    return go(t, True), default_ns

def hexlex(s):
    return ".".join("%x" % ord(c) for c in s)

def val_abs(ty, v, default_ns):
    if ty == "QName":
        if v == "": return "Q::0"
        return "Q:%s:%d" % (hexlex(v[1]), qname_ns(v, default_ns))
    return "%s:%s" % (TYLET[ty], hexlex(v))

def tree_abs(t, default_ns):
    w = []
    def go(n):
        w.extend(["E", "%d.%d" % (n["ns"], NID[n["name"]]), str((1 if n["nillable"] else 0) + (2 if n["nil"] else 0)), str(len(n["attrs"]))])
        for (an, ty, v) in n["attrs"]:
            w.extend(["0.%d" % NID[an], val_abs(ty, v, default_ns)])
        w.append("-" if n["text"] is None else val_abs(n["text"][0], n["text"][1], default_ns))
        w.append(str(len(n["kids"])))
        for k in n["kids"]:
            go(k)
    go(t)
    return " ".join(w)

def ics_abs(sc):
    w = [str(len(sc.ics))]
    for ic in sc.ics:
        w += [ic["kind"], str(ic["id"]), "%d.%d" % (sc.ens, NID[ic["scope"]]), str(ic["refer"]) if ic["refer"] is not None else "-",
              xpath_abs(ic["sel"]), str(len(ic["fields"]))] + [xpath_abs(f) for f in ic["fields"]]
    return " ".join(w)

def case_of(sc, tree, r, tag):
    st = schema_text(sc, r)
    it, dns = instance_text(sc, tree, r)
    return {"schema": st, "instance": it, "abstract": "I " + ics_abs(sc) + " T " + tree_abs(tree, dns), "tag": tag,
            "features": features(sc, tree, dns)}

def features(sc, tree, dns=0):
    f = set()
    kinds = {ic["id"]: ic for ic in sc.ics}
    for ic in sc.ics:
        if ic["kind"] == "r":
            k = kinds[ic["refer"]]
            if k["scope"] == "grp" and ic["scope"] == "root": f.add("key-scope-below-keyref-scope")
            if k["scope"] == "root" and ic["scope"] == "grp": f.add("key-scope-above-keyref-scope")
            if k["scope"] != ic["scope"]: f.add("keyref-scope-differs-from-key-scope")
            if any(sc.types[a] != sc.types[b] for a, b in zip(ic["carriers"], k["carriers"])): f.add("cross-type")
    def overlap(sel):
        def gen(p):   # does the path reach rec/ref at several depths or by wildcard
            return any(st == ("D",) or (st[0] == "C" and st[1][0] in "*N") for st in p)
        ds = []
        for p in sel:
            if p not in ds: ds.append(p)
        return len(ds) > 1 and any(gen(p) for p in ds)
    for ic in sc.ics:
        if overlap(ic["sel"]): f.add("overlapping-selector-union")
    def walk(n):
        vals = [(ty, v) for (_, ty, v) in n["attrs"]] + ([n["text"]] if n["text"] is not None and not n["nil"] else [])
        if dns and any(ty == "QName" and v != "" and v[0] == -1 for ty, v in vals): f.add("unprefixed-qname-in-default-namespace")
        if n["nil"]: f.add("nil")
        if n["text"] is not None and n["text"][1] == "" and not n["nil"]: f.add("empty-value")
        if any(v == "" for (_, ty, v) in n["attrs"]): f.add("empty-value")
        for k in n["kids"]: walk(k)
    walk(tree)
    return sorted(f)

# ------------------------------------------------------------------ running
FAST = {"ASAN_OPTIONS": "detect_leaks=0:allocator_may_return_null=1"}

def hexb(s):
    return s.encode("utf-8").hex() or "-"

def parse_impl(o):
    """-> dict or None"""
    f = o.split(" ")
    if len(f) < 6 or not f[0].startswith("S="):
        return None
    def m(x):
        x = x.split("=", 1)[1]
        return {} if x == "-" else {int(a.split("*")[0]): int(a.split("*")[1]) for a in x.split(",")}
    try:
        return {"S": int(f[0][2:]), "V": m(f[1]), "E": m(f[2]), "W": int(f[3][2:]), "fatal": int(f[4][6:]), "exc": f[5][4:]}
    except (ValueError, IndexError):
        return None

def parse_model(o):
    if not o.startswith("spec="):
        raise common.InfraError("xvdriver ic: " + o[:200])
    sp, mo = o.split(" model=")
    sp = sp[5:]
    skinds = set() if sp == "valid" else {x.split(":")[1] for x in sp[8:].split(",")}
    mm = {} if mo == "-" else {int(a.split("*")[0]): int(a.split("*")[1]) for a in mo.split(",")}
    return skinds, mm, sp

def run_cases(cases, flags):
    """model/spec lines and implementation lines for every case under every flag variant"""
    ab = [c["abstract"] for c in cases]
    m = common.run_driver(["ic"], input=("\n".join(ab) + "\n").encode()).decode().split("\n")
    res = {}
    for fl in flags:
        idx = [k for k in range(len(cases)) if fl == "-" or k % 3 == 0 or cases[k]["tag"].startswith("fixed")]
        lines = ["V %s %s %s" % (fl, hexb(cases[k]["schema"]), hexb(cases[k]["instance"])) for k in idx]
        o, crashes = common.run_lines_resilient("hx_ic", lines, env=FAST)
        res[fl] = {k: o[j] for j, k in enumerate(idx)}
    return m, res

# a known deviation (spec != implementation on its fixed witness) makes the exact error COUNTS of the cases in its zone
# incomparable with the model, which follows the code after the proposed fix; the Spec judgement is unaffected
ZONES = {"fixed:ref-to-key-of-first-sibling-scope": "key-scope-below-keyref-scope",
         "fixed:unprefixed-qname-in-default-namespace": "unprefixed-qname-in-default-namespace",
         "fixed:keyref-no-reference-no-key-scope": "keyref-scope-differs-from-key-scope",
         "fixed:overlapping-selector-union": "overlapping-selector-union"}

# ---- counterfactual Spec verdicts: a recorded deviation is recognised by evaluating the Spec on the case as the deviating
# code sees it, not by the features of the case
def _rewrite_abstract(ab, f_nil, f_empty):
    """rewrite the values of the tree of an abstract case: f_nil(type letter) for the value of a nilled element (the nil flag
    is cleared), f_empty(type letter) for an empty non-nilled value; None = leave as it is"""
    head, tree = ab.split(" T ", 1)
    t = tree.split(" ")
    out = []; pos = [0]
    def val(v, nil):
        if v == "-": return v
        L = v.split(":")[0]
        empty = v.split(":")[1] == ""
        if nil: return f_nil(L) or v
        if empty: return f_empty(L) or v
        return v
    def go():
        assert t[pos[0]] == "E"
        name, flags, nattrs = t[pos[0] + 1], int(t[pos[0] + 2]), int(t[pos[0] + 3])
        pos[0] += 4
        nil = bool(flags & 2)
        if nil and f_nil("s") is not None: flags &= ~2
        out.extend(["E", name, str(flags), str(nattrs)])
        for _ in range(nattrs):
            out.extend([t[pos[0]], val(t[pos[0] + 1], False)]); pos[0] += 2
        out.append(val(t[pos[0]], nil)); nk = int(t[pos[0] + 1]); out.append(t[pos[0] + 1]); pos[0] += 2
        for _ in range(nk): go()
    go()
    return head + " T " + " ".join(out)

_mark = lambda tag, L: "s:" + hexlex("\x01%s-%s" % (tag, L))
COUNTERFACTUALS = [
    # ICValueHasher::isDuplicateOf: two EMPTY stored values (a nilled element is stored as an empty value) are equal only if
    # their validators are the same object
    ("ic:impl+IC_KeyNotFound:empty-value-cross-type", lambda L: _mark("N", L), lambda L: _mark("E", L)),
    # a nilled element is stored as the empty string of its type: it equals an empty (non-nilled) value
    ("ic:nilled-field-equals-empty-value", lambda L: "s:", lambda L: None),
]
_cf_cache = {}
def counterfactual_keys(case, ikinds):
    """keys of the recorded deviations under which the Spec gives exactly the implementation's classes for this case"""
    ab = case["abstract"]
    if ab not in _cf_cache:
        variants = [_rewrite_abstract(ab, fn, fe) for _, fn, fe in COUNTERFACTUALS]
        variants.append(_rewrite_abstract(ab, lambda L: _mark("E", L), lambda L: _mark("E", L)))      # both at once
        o = common.run_driver(["ic"], input=("\n".join(variants) + "\n").encode()).decode().split("\n")
        _cf_cache[ab] = [parse_model(x)[0] for x in o[:len(variants)]]
    v = _cf_cache[ab]
    for k, (key, _, _) in enumerate(COUNTERFACTUALS):
        if v[k] == ikinds: return [key]
    if v[-1] == ikinds: return [key for key, _, _ in COUNTERFACTUALS]
    return []

def categorize(case, skinds, ikinds):
    """stable category of a Spec/implementation difference"""
    extra = sorted(ikinds - skinds); missing = sorted(skinds - ikinds)
    feats = case["features"]
    if extra + missing == ["IC_KeyNotFound"] and "key-scope-below-keyref-scope" in feats:
        return "ic:key-scope-below-keyref-scope:" + ("impl+" if "IC_KeyNotFound" in extra else "impl-") + "IC_KeyNotFound"
    if "overlapping-selector-union" in feats:
        return "ic:overlapping-selector-union"
    if "IC_KeyNotFound" in extra + missing and "key-scope-below-keyref-scope" in feats:
        return "ic:key-scope-below-keyref-scope:" + ("impl+" if "IC_KeyNotFound" in extra else "impl-") + "IC_KeyNotFound"
    if extra == ["IC_KeyRefOutOfScope"] and not missing and "keyref-scope-differs-from-key-scope" in feats:
        return "ic:impl+IC_KeyRefOutOfScope:no-complete-reference"
    tag = "plain"
    if "unprefixed-qname-in-default-namespace" in feats and all(x in ("IC_DuplicateUnique", "IC_DuplicateKey", "IC_KeyNotFound") for x in extra + missing):
        return "ic:unprefixed-qname-in-default-namespace"
    return "ic:" + ",".join(["impl+" + e for e in extra] + ["impl-" + e for e in missing]) + ":" + tag

def judge(case, mline, iline):
    """-> (list of (key, what, concrete), agree_with_model: bool|None, skinds)"""
    names = code_names()
    skinds, mm, sp = parse_model(mline)
    im = parse_impl(iline)
    if im is None:
        key = "ic-crash" if iline.startswith("CRASH") else "ic-no-verdict"
        return [(key, "harness output: " + iline[:200], True)], None, skinds
    if im["S"]:
        import re
        tag = "namespace-wildcard-first-step" if re.search(r'xpath="(?:[^"]*\|\s*)?(?:\./)?t:\*/', case["schema"]) else "other"
        return [("ic:schema-rejected:" + tag, "the library reports %d error(s) while loading a valid generated schema" % im["S"], True)], None, skinds
    bad = []
    other_v = {c: n for c, n in im["V"].items() if not (IC_LO <= c <= IC_HI)}
    if other_v or im["E"] or im["fatal"] or im["exc"] != "-":
        bad.append(("ic:non-ic-error-on-structurally-valid-instance",
                    "errors outside the identity-constraint range on an instance that is valid apart from identity constraints: V=%s E=%s fatal=%d exc=%s"
                    % ({names.get(c, c): n for c, n in other_v.items()}, im["E"], im["fatal"], im["exc"]), True))
        return bad, None, skinds
    icm = {c: n for c, n in im["V"].items() if IC_LO <= c <= IC_HI}
    ikinds = {names[c] for c in icm}
    feats = case["features"]
    if "IC_FieldMultipleMatch" in skinds:
        # the node-set of a field has several members: the document is invalid; which further classes are reported for
        # the offending node is not determined by the Spec
        if "IC_FieldMultipleMatch" not in ikinds:
            bad.append((categorize(case, skinds, ikinds) if "overlapping-selector-union" in feats else "ic:impl-IC_FieldMultipleMatch", "a field evaluates to more than one node (Spec: IC_FieldMultipleMatch) but the implementation reports %s" % sorted(ikinds), True))
        return bad, (icm == mm), skinds
    if skinds != ikinds and ({"nil", "empty-value"} & set(feats)):
        keys = counterfactual_keys(case, ikinds)
        if keys:
            return [(k, "Spec icCheck: %s; implementation reports %s (exactly what the Spec gives when empty / nilled values are "
                        "compared as this deviation of the code does)" % (sp, sorted(ikinds) or "no identity-constraint error"), True) for k in keys], None, skinds
    if skinds != ikinds and "overlapping-selector-union" in feats:
        return [(categorize(case, skinds, ikinds), "Spec icCheck: %s; implementation reports %s" % (sp, sorted(ikinds) or "no identity-constraint error"), True)], None, skinds
    if skinds != ikinds:
        vac = "IC_KeyRefOutOfScope" in ikinds - skinds and "keyref-scope-differs-from-key-scope" in feats
        if vac and skinds != ikinds - {"IC_KeyRefOutOfScope"}:
            # two differences at once: report the vacuous out-of-scope deviation and the remaining one separately
            bad.append(("ic:impl+IC_KeyRefOutOfScope:no-complete-reference", "Spec icCheck: %s; implementation reports %s" % (sp, sorted(ikinds)), True))
            ikinds = ikinds - {"IC_KeyRefOutOfScope"}
        bad.append((categorize(case, skinds, ikinds), "Spec icCheck: %s; implementation reports %s" % (sp, sorted(ikinds) or "no identity-constraint error"), True))
        return bad, None, skinds
    return bad, (icm == mm), skinds

def gen_doc_cases(ctx):
    r = ctx.rng
    n = 9000 if ctx.thorough() else 420
    cases = []
    for i in range(n):
        sc = gen_schema(r)
        tree = gen_instance(r, sc)
        cases.append(case_of(sc, tree, r, "gen"))
        if i % 4 == 0:
            cases.append(case_of(sc, permute(r, tree), r, "perm"))
    # instances crossing hash-table growth (initial modulus 107, load factor 0.75)
    bigs = [0, 1, 2, 79, 80, 81, 82, 107, 108, 161, 200] if not ctx.thorough() else [0, 1, 79, 80, 81, 82, 107, 161, 162, 163, 325, 326, 327, 700, 1500, 3000]
    for bn in bigs:
        for rep in range(2 if ctx.thorough() and bn <= 400 else 1):
            sc = gen_schema(r, big=True)
            tree = gen_instance(r, sc, big_n=bn)
            cases.append(case_of(sc, tree, r, "big%d" % bn))
            if bn >= 80:
                cases.append(case_of(sc, permute(r, tree), r, "big%d-perm" % bn))
    return cases + fixed_cases()

def fixed_cases():
    """hand-written witnesses kept under observation (rendered through the same machinery)"""
    out = []
    class R0:      # deterministic 'random' source for rendering
        def chance(self, a, b): return False
        def choice(self, xs): return xs[0]
        def below(self, n): return 0
    def mk(tns, ics, types, tree, tag, nillable=()):
        sc = Schema(); sc.tns = tns; sc.ens = 1 if tns else 0
        sc.types = {("rec", "@a1"): "integer", ("rec", "@a2"): "string", ("rec", "f1"): "decimal", ("rec", "f2"): "string", ("sub", "@a1"): "string",
                    ("sub", "f1"): "decimal", ("ref", "@b1"): "integer", ("ref", "@b2"): "string", ("ref", "g1"): "decimal", ("ref", "g2"): "string"}
        sc.types.update(types)
        sc.nillable = {k: (k in nillable) for k in sc.types}
        sc.ics = ics; sc.decl_order = ics
        return case_of(sc, tree, None, tag)
    e = 0
    def rec(a1=None, f1=None, nil=False, ty="integer", fty="decimal"):
        return node("rec", e, attrs=[("a1", ty, a1)] if a1 is not None else [],
                    kids=[node("f1", e, text=(fty, "" if nil else f1), nillable=nil, nil=nil)] if f1 is not None or nil else [])
    def ref(b1): return node("ref", e, attrs=[("b1", "integer", b1)])
    K = lambda scope: {"id": 0, "kind": "k", "scope": scope, "sel": [[S, C("rec", e)]] if scope == "grp" else [[S, C("grp", e), C("rec", e)]],
                       "fields": [[[S, A("a1")]]], "carriers": [("rec", "@a1")], "refer": None}
    Rf = lambda scope: {"id": 1, "kind": "r", "scope": scope, "sel": [[S, C("grp", e), C("ref", e)]] if scope == "root" else [[S, C("ref", e)]],
                        "fields": [[[S, A("b1")]]], "carriers": [("ref", "@b1")], "refer": 0}
    g = lambda *k: node("grp", e, kids=list(k))
    root = lambda *k: node("root", e, kids=list(k))
    out.append(mk(False, [K("grp"), Rf("root")], {}, root(g(rec("1")), g(rec("2"), ref("1"))), "fixed:ref-to-key-of-first-sibling-scope"))
    out.append(mk(False, [K("grp"), Rf("root")], {}, root(g(rec("1")), g(rec("1"), ref("1"))), "fixed:same-key-in-two-sibling-scopes"))
    out.append(mk(False, [K("grp"), Rf("root")], {}, root(), "fixed:keyref-no-reference-no-key-scope"))
    out.append(mk(False, [K("root"), Rf("root")], {}, root(g(rec("1"), rec("+1"), ref("01"), ref("2"))), "fixed:single-scope"))
    U = {"id": 0, "kind": "u", "scope": "root", "sel": [[S, C("grp", e), C("rec", e)]], "fields": [[[S, C("f1", e)]]], "carriers": [("rec", "f1")], "refer": None}
    out.append(mk(False, [U], {}, root(g(rec(nil=True), rec(nil=True))), "fixed:two-nilled-fields", nillable=[("rec", "f1")]))
    out.append(mk(False, [U], {}, root(g(rec(f1="1.0"), rec(f1="1.00"), rec(f1="+1"), rec(f1="1.5"))), "fixed:decimal-lexical-variants"))
    Ks = {"id": 0, "kind": "k", "scope": "root", "sel": [[S, C("grp", e), C("rec", e)]], "fields": [[[S, A("a2")]]], "carriers": [("rec", "@a2")], "refer": None}
    Rs = {"id": 1, "kind": "r", "scope": "root", "sel": [[S, C("grp", e), C("ref", e)]], "fields": [[[S, A("b2")]]], "carriers": [("ref", "@b2")], "refer": 0}
    out.append(mk(False, [Ks, Rs], {("ref", "@b2"): "token"}, root(g(node("rec", e, attrs=[("a2", "string", "")]), node("ref", e, attrs=[("b2", "token", "")]))),
                  "fixed:empty-values-of-related-types"))
    # a nilled xs:token key field and a nilled xs:string reference field (isDuplicateOf: empty values, different validators)
    Un = {"id": 0, "kind": "u", "scope": "root", "sel": [[S, C("grp", e), C("rec", e)]], "fields": [[[S, C("f1", e)]]], "carriers": [("rec", "f1")], "refer": None}
    Rn = {"id": 1, "kind": "r", "scope": "root", "sel": [[S, C("grp", e), C("ref", e)]], "fields": [[[S, C("g1", e)]]], "carriers": [("ref", "g1")], "refer": 0}
    niln = lambda el, f, ty: node(el, e, kids=[node(f, e, text=(ty, ""), nillable=True, nil=True)])
    out.append(mk(False, [Un, Rn], {("rec", "f1"): "token", ("ref", "g1"): "string"}, root(g(niln("rec", "f1", "token"), niln("ref", "g1", "string"))),
                  "fixed:nilled-fields-of-related-types", nillable=[("rec", "f1"), ("ref", "g1")]))
    # a nilled reference field and an empty-string key
    Rg2 = {"id": 1, "kind": "r", "scope": "root", "sel": [[S, C("grp", e), C("ref", e)]], "fields": [[[S, C("g2", e)]]], "carriers": [("ref", "g2")], "refer": 0}
    out.append(mk(False, [Ks, Rg2], {}, root(g(node("rec", e, attrs=[("a2", "string", "")]), niln("ref", "g2", "string"))),
                  "fixed:nilled-reference-and-empty-string-key", nillable=[("ref", "g2")]))
    UQ = {"id": 0, "kind": "u", "scope": "root", "sel": [[S, C("grp", 1), C("rec", 1)]], "fields": [[[S, C("f2", 1)]]], "carriers": [("rec", "f2")], "refer": None}
    qrec = lambda v: node("rec", 1, kids=[node("f2", 1, text=("QName", v))])
    out.append(mk(True, [UQ], {("rec", "f2"): "QName"}, node("root", 1, kids=[node("grp", 1, kids=[qrec((1, "x")), qrec((-1, "x"))])]),
                  "fixed:unprefixed-qname-in-default-namespace"))
    KO = {"id": 0, "kind": "k", "scope": "root", "sel": [[S, C("grp", e), C("rec", e)], [S, CW(), C("rec", e)]], "fields": [[[S, A("a1")]]],
          "carriers": [("rec", "@a1")], "refer": None}
    out.append(mk(False, [KO], {}, root(g(rec("1", f1="5"), rec("2", f1="6"))), "fixed:overlapping-selector-union"))
    return out

def note_violation(ctx, by, key, what, case, mline, iline, flag):
    if key not in by or len(case["instance"]) < len(by[key]["case"]["instance"]):
        by[key] = {"what": what, "case": case, "model": mline, "impl": iline, "flag": flag}

def doc_correspondence(ctx):
    cases = gen_doc_cases(ctx)
    flags = ["-", "s", "g"]
    m, res = run_cases(cases, flags)
    by = {}; corr = None
    hist = {}; nontrivial = set(); stats = {"documents": len(cases), "spec_valid": 0, "agree": 0}
    open_zones = set()
    for k, c in enumerate(cases):
        if c["tag"] in ZONES and judge(c, m[k], res["-"][k])[0]:
            open_zones.add(ZONES[c["tag"]])
    stats["zones_not_compared_with_model"] = sorted(open_zones)
    for k, c in enumerate(cases):
        for fl in flags:
            if k not in res[fl]: continue
            bad, agree, skinds = judge(c, m[k], res[fl][k])
            for key, what, _ in bad:
                note_violation(ctx, by, key, what, c, m[k], res[fl][k], fl)
            if agree is False and not bad and open_zones & set(c["features"]):
                stats["model_compare_skipped"] = stats.get("model_compare_skipped", 0) + 1
            elif agree is False and not bad:
                stats["model_disagreements"] = stats.get("model_disagreements", 0) + 1
                if corr is None or len(c["instance"]) < len(corr[0]["instance"]):
                    corr = (c, m[k], res[fl][k], fl)
            if fl == "-":
                if not skinds: stats["spec_valid"] += 1
                for s in skinds or ["valid"]:
                    hist[s] = hist.get(s, 0) + 1
                if not bad: stats["agree"] += 1
        if " model=-" not in m[k] or "invalid" in m[k] or c["abstract"].count(" E 0.3 ") + c["abstract"].count(" E 1.3 ") > 0:
            nontrivial.add(common.sha(c["schema"] + c["instance"]))
    for key, v in by.items():
        c = v["case"]
        ctx.violations.append({"key": key, "concrete": True,
            "what": "identity constraints: %s [scanner/route flag %r, case %s, features %s]. Schema: %s  Instance: %s"
                    % (v["what"], v["flag"], c["tag"], c["features"], c["schema"][:900], c["instance"][:700]),
            "replay": {"tier": "doc", "schema": c["schema"], "instance": c["instance"], "abstract": c["abstract"], "flag": v["flag"],
                       "spec_model": v["model"], "impl": v["impl"], "features": c["features"]}})
    ctx.corr_first = corr
    if corr:
        c, ml, il, fl = corr
        ctx.violations.append({"key": "corr:ic", "concrete": False,
            "what": "correspondence ic (code-shaped model of IdentityConstraintHandler/XPathMatcher/ValueStore vs the library) no longer checks: "
                    "model %s, implementation %s; the implementation still agrees with the Spec's set of violation classes" % (ml, il),
            "replay": {"tier": "doc", "correspondence": "ic", "schema": c["schema"], "instance": c["instance"], "abstract": c["abstract"], "flag": fl}})
    ctx.stats.update(stats)
    ctx.stats["spec_violation_classes"] = hist
    ctx.stats["doc_distinct_nontrivial"] = len(nontrivial)
    for k in (0, 1, len(cases) - 1):
        ctx.samples.append({"schema": cases[k]["schema"][:400], "instance": cases[k]["instance"][:300], "lean": m[k][:160], "impl": res["-"][k][:120]})
    return len(cases)

# ------------------------------------------------------------------ matcher tier: XercesXPath + XPathMatcher driven directly
XN = ["a", "b", "c"]                       # element local names (Lean ids 0..2); attributes x, y (ids 10, 11)
XURI = {0: "", 5: "p:", 6: "q:"}           # namespace ids of the harness' resolver

def gen_xtest(r, attr=False):
    c = r.below(10)
    names = [("x", 10), ("y", 11)] if attr else [(n, i) for i, n in enumerate(XN)]
    if c < 6:
        ns = r.choice([0, 0, 0, 5, 6]); nm = r.choice(names)
        return ("Q", ns, nm[1]), XURI[ns] + nm[0]
    if c < 8:
        return ("*",), "*"
    ns = r.choice([5, 6])
    return ("N", ns), XURI[ns] + "*"

def gen_xpath_x(r, shape):
    """(abstract path list, text): shape in simple | desc1 | descN | iself | any"""
    paths, texts = [], []
    for _ in range(1 if r.chance(2, 3) else 2):
        sh = shape if shape != "any" else r.choice(["simple", "simple", "desc1", "descN", "iself"])
        steps, segs = [("S",)], []
        lead = ""
        if sh in ("desc1", "descN"):
            steps.append(("D",)); lead = ".//"
        nchild = {"simple": r.choice([0, 1, 1, 2, 3]), "desc1": 1, "descN": r.choice([2, 2, 3]), "iself": r.choice([2, 3])}[sh]
        for k in range(nchild):
            t, tx = gen_xtest(r)
            steps.append(("C", t)); segs.append(tx)
            if sh == "iself" and k == 0:
                steps.append(("S",)); segs.append(".")
        if r.chance(1, 3) and not (sh == "iself"):
            t, tx = gen_xtest(r, attr=True)
            steps.append(("A", t)); segs.append("@" + tx)
        txt = lead + "/".join(segs)
        if not txt: txt = "."
        elif not lead and r.chance(1, 4): txt = "./" + txt
        if steps not in paths:
            paths.append(steps); texts.append(txt)
    return paths, "|".join(texts)

def gen_xtree(r, depth=0):
    """nested dict: name (ns, id), attrs [(ns, id)], kids"""
    ns = r.choice([0, 0, 0, 0, 5, 6]); nm = r.below(3)
    attrs = []
    for a in (10, 11):
        if r.chance(1, 2): attrs.append((r.choice([0, 0, 5]), a))
    kids = []
    if depth < 4:
        for _ in range(r.choice([0, 1, 2, 2, 3]) if depth < 3 else r.choice([0, 0, 1])):
            kids.append(gen_xtree(r, depth + 1))
    return {"name": (ns, nm), "attrs": attrs, "kids": kids}

def xcase(paths, text, tree):
    ev, ab = [], []
    idx = [0]
    def go(n):
        i = idx[0]; idx[0] += 1
        nm = {0: "a", 1: "b", 2: "c"}[n["name"][1]]
        hu = lambda u: u or 1          # the harness' id of the empty namespace is 1
        ev.append("S%d:%s" % (hu(n["name"][0]), nm) + "".join(";%d:%s" % (hu(a[0]), "x" if a[1] == 10 else "y") for a in n["attrs"]))
        ab.extend(["E", "%d.%d" % n["name"], "0", str(len(n["attrs"]))])
        for a in n["attrs"]:
            ab.extend(["%d.%d" % a, "s:" + hexlex("%d@%d:%s" % (i, hu(a[0]), "x" if a[1] == 10 else "y"))])
        ab.extend(["-", str(len(n["kids"]))])
        for k in n["kids"]: go(k)
        ev.append("E")
    go(tree)
    return {"impl": "X f %s %s" % (hexb(text), " ".join(ev)), "abstract": "X %s T %s" % (xpath_abs(paths), " ".join(ab)),
            "xpath": text, "paths": paths, "events": " ".join(ev)}

def xshape(paths):
    sh = set()
    for p in paths:
        if ("S",) in p[1:]: sh.add("interior-self-step")
        if ("D",) in p:
            k = p.index(("D",))
            nchild = sum(1 for st in p[k + 1:] if st[0] == "C")
            sh.add("descendant-then-several-steps" if nchild >= 2 else "descendant-step")
    return sh

def xcategory(c, calls, hits):
    """stable category of a difference between the matched() calls and the Spec's node-set, by the shape of the path"""
    sh = xshape(c["paths"])
    extra = set(calls) - set(hits); missing = set(hits) - set(calls)
    if "interior-self-step" in sh: return "xpath:interior-self-step"
    if "descendant-then-several-steps" in sh: return "xpath:descendant-then-several-steps"
    if "descendant-step" in sh:
        if extra and all(e == "0" or e.startswith("0@") for e in extra) and not missing:
            return "xpath:descendant-step-selects-context-element"
        return "xpath:descendant-step-nested-hits"
    attr_after_child = any(p[-1][0] == "A" and len(p) > 2 for p in c["paths"])
    wild_attr = any(st[0] == "A" and st[1][0] != "Q" for p in c["paths"] for st in p)
    if attr_after_child and extra:
        return "xpath:attribute-step-miss-descends-into-children"
    if wild_attr and not extra and all("@" in h for h in missing):
        return "xpath:attribute-wildcard-several-attributes"
    return "xpath:simple-path"

def matcher_correspondence(ctx):
    r = ctx.rng
    n = 30000 if ctx.thorough() else 2500
    cases = []
    for i in range(n):
        shape = ["simple", "simple", "desc1", "any"][i % 4]
        paths, text = gen_xpath_x(r, shape)
        cases.append(xcase(paths, text, gen_xtree(r)))
    # fixed witnesses
    T = lambda nm, *k, attrs=(): {"name": (0, nm), "attrs": list(attrs), "kids": list(k)}
    Ca = lambda i: ("C", ("Q", 0, i))
    cases += [xcase([[S, Ca(0), S, Ca(1)]], "a/./b", T(2, T(0, T(1, T(1))))),
              xcase([[S, D, Ca(0), Ca(1)]], ".//a/b", T(2, T(0, T(0, T(1))))),
              xcase([[S, D, Ca(0)]], ".//a", T(0, T(0))),
              xcase([[S, D, ("A", ("Q", 0, 10))]], ".//@x", T(2, T(0, T(1, attrs=[(0, 10)]), attrs=[(0, 10)]), attrs=[(0, 10)])),
              xcase([[S, ("C", ("N", 5)), Ca(0)]], "p:*/a", T(2, {"name": (5, 1), "attrs": [], "kids": [T(0)]})),
              xcase([[S, Ca(0), Ca(1)]], "a/b", T(2, T(0, T(1), T(2, T(1))), T(1)))]
    m = common.run_driver(["ic"], input=("\n".join(c["abstract"] for c in cases) + "\n").encode()).decode().split("\n")
    o, crashes = common.run_lines_resilient("hx_ic", [c["impl"] for c in cases], env=FAST)
    by = {}; corr = None; ndis = 0; nsel = 0; shapes = {}
    for k, c in enumerate(cases):
        ml, il = m[k], o[k]
        if " | hits=" not in ml:
            raise common.InfraError("xvdriver ic (X): %s for %s" % (ml[:100], c["abstract"][:200]))
        mobs, hits = ml.split(" | hits=")
        hits = [] if hits == "-" else hits.split(",")
        for x in xshape(c["paths"]) or {"simple"}:
            shapes[x] = shapes.get(x, 0) + 1
        if hits: nsel += 1
        if il.startswith("exc") or il.startswith("CRASH") or not il.startswith("m="):
            key = "xpath-parse:namespace-wildcard-first-step" if "XPathException" in il and any(p[1][0] == "C" and p[1][1][0] == "N" and len(p) > 2 for p in c["paths"] if len(p) > 1) else "xpath-parse:" + il.split(" ")[0]
            what = "XercesXPath(%r) on a valid selector/field expression: %s" % (c["xpath"], il[:120])
            if key not in by or len(c["impl"]) < len(by[key][0]["impl"]): by[key] = (c, what, ml, il)
            continue
        calls = il.split(" v=")[1]
        calls = [] if calls == "-" else calls.split(",")
        if sorted(calls) != sorted(hits):
            key = "xpath:union-members-select-same-node" if set(calls) == set(hits) and len(c["paths"]) > 1 else xcategory(c, calls, hits)
            what = ("XPathMatcher on %r over events [%s]: matched() called for %s but XPath semantics (Spec pathMatches) selects %s"
                    % (c["xpath"], c["events"], sorted(calls) or "nothing", sorted(hits) or "nothing"))
            if key not in by or len(c["impl"]) < len(by[key][0]["impl"]): by[key] = (c, what, ml, il)
        elif mobs != il:
            ndis += 1
            if corr is None or len(c["impl"]) < len(corr[0]["impl"]): corr = (c, mobs, il)
    for key, (c, what, ml, il) in by.items():
        ctx.violations.append({"key": key, "concrete": True, "what": what,
                               "replay": {"tier": "xpath", "impl_line": c["impl"], "abstract": c["abstract"], "xpath": c["xpath"], "lean": ml, "impl": il}})
    if corr:
        c, mobs, il = corr
        ctx.violations.append({"key": "corr:xpath", "concrete": False,
            "what": "correspondence xpath (code-shaped model of XPathMatcher::startElement/endElement vs the library) no longer checks on %r over [%s]: model %s, implementation %s; "
                    "the matched() calls still agree with Spec pathMatches" % (c["xpath"], c["events"], mobs, il),
            "replay": {"tier": "xpath", "correspondence": "xpath", "impl_line": c["impl"], "abstract": c["abstract"], "xpath": c["xpath"]}})
    ctx.stats["matcher_cases"] = len(cases)
    ctx.stats["matcher_cases_selecting_something"] = nsel
    ctx.stats["matcher_model_disagreements"] = ndis
    ctx.stats["matcher_path_shapes"] = shapes
    ctx.samples.append({"xpath": cases[7]["xpath"], "events": cases[7]["events"], "lean": m[7], "impl": o[7]})
    return len(cases), nsel

def correspondence(ctx):
    n = doc_correspondence(ctx)
    nx, nsel = matcher_correspondence(ctx)
    ctx.stats["evaluations"] = n + nx
    ctx.stats["distinct_nontrivial"] = ctx.stats.get("doc_distinct_nontrivial", 0) + nsel

def search(ctx, broken):
    # the correspondence above already judges the implementation by the executable Spec (icCheck / pathMatches) on every
    # generated case, independently of the model; a broken theorem or translator tie adds no further input to try.
    return None

def replay(ctx, path):
    r = json.load(open(path))["replay"]
    if r.get("tier") == "doc":
        m = common.run_driver(["ic"], input=(r["abstract"] + "\n").encode()).decode().strip()
        print("schema  :", r["schema"]); print("instance:", r["instance"])
        for fl in ["-", "s", "g"]:
            p = common.run_harness("hx_ic", input=("V %s %s %s\n" % (fl + "t", hexb(r["schema"]), hexb(r["instance"]))).encode())
            print("impl[%s]: %s" % (fl, p.stdout.decode(errors="replace").strip()))
        print("lean    :", m, "(spec = XV.Spec.Identity.icCheck, model = XV.Model.Identity.icRun)")
    elif r.get("tier") == "xpath":
        m = common.run_driver(["ic"], input=(r["abstract"] + "\n").encode()).decode().strip()
        p = common.run_harness("hx_ic", input=(r["impl_line"] + "\n").encode())
        print("xpath:", r["xpath"]); print("case :", r["impl_line"])
        print("impl :", p.stdout.decode(errors="replace").strip())
        print("lean :", m, "(m/v = XV.Model.Identity.driveNode, hits = Spec pathMatches)")
    else:
        print(json.dumps(r))
    return 0
