"""C15 - a parser's result is independent of its history; cached grammars are transparent.

Theorems: XV.Props.C15 (history_independent for ALL operation histories given ResetComplete; reset_complete & co as
DECIDED statements over the scanner field/assignment sets regenerated from the clang AST; stale_token_rejected;
adopted_docs_intact; locked_pool_frozen / cache_then_retrieve / orphan_removes / clear_noop_when_locked on the
code-shaped XMLGrammarPoolImpl + GrammarResolver).

Correspondence
 (a) XMLGrammarPoolImpl and GrammarResolver driven directly by random op sequences against the code-shaped model
     (judged by a dictionary oracle).
 (b) THE property as differential testing of the implementation against itself: random op histories on ONE parser
     object (SAXParser, SAX2XMLReader, XercesDOMParser, DOMLSParser; IG/WF/DG/SG scanners) over a pool of 20
     documents with different DTDs/schemas that share names, IDs, entities and namespaces.  For every parse-like
     op the Lean MODEL (`cfgOf h`, `poolOf h`) supplies the effective configuration and the list of operations that
     built the grammar pool; a FRESHLY CONSTRUCTED parser configured that way (pool rebuilt by fresh parsers too)
     must deliver the identical canonical dump.  Plus: an exhaustive sweep of all two-parse histories d1;d2, the
     configuration read-back after every op vs the model, token acceptance vs the model, locked-pool invariance,
     adopted documents, and the (grammar, instance) transparency matrix inline / preloaded / cached-from-parse."""
import json, os
import common

PID = "C15"
GEN = ["ScannerFields", "ParserFields"]
LEAN_MODULE = "XV.Props.C15"
THEOREMS = ["XV.Props.C15." + t for t in (
    "history_independent", "history_independent_throw", "history_independent_first", "real_eq_reference",
    "all_classified", "reset_complete", "reset_touches_no_config", "config_justified", "exceptions_exact",
    "seq_bumped_on_every_entry", "field_reset_complete", "field_reset_incomplete", "classes_reset_complete_after_repair",
    "classes_reset_complete", "Parsers.parser_all_classified", "Parsers.parser_reset_complete", "Parsers.parser_config_justified",
    "Parsers.parser_exceptions_exact", "Parsers.parser_classes_reset_complete", "f11_history_dependent", "f11_not_reset_complete",
    "stale_token_rejected", "token_dead_after_reset", "adopted_docs_intact",
    "locked_pool_frozen", "cache_then_retrieve", "cache_existing_rejected", "orphan_removes", "clear_noop_when_locked",
    "resolver_locked_pool_frozen", "resolver_lookup_order", "parser_locked_pool_frozen")]
RULE = ("pool/resolver: random op sequences (8-30 ops over 4 keys, lock/unlock, URI strings); parser histories: 12 ops (20 thorough) "
        "drawn from setFeature/scanner/schema-location changes, SecurityManager install / limit change / removal, parse, parse aborted by a "
        "handler exception at callback k, parseFirst+j*parseNext then parseReset or abandoned, stale-token probes, loadGrammar, "
        "resetDocumentPool, resetCachedGrammarPool, adoptDocument, pool lock/unlock, over 23 documents (3 with k entity expansions, k near "
        "the limits) x 4 parser kinds x 4 scanners; every parse-like op is compared with a fresh parser; plus curated witnesses of every "
        "repaired and open finding, two-parse histories d1;d2 for 7 parser/scanner combinations x 3 configurations (thorough: 40% of the pairs; "
        "quick: a 10% sample) and all pairs of the expansion documents under limit 10.  evaluations = parse-like ops compared with a fresh "
        "parser + pool/resolver sequences + matrix cells; non-trivial = compared ops preceded by at least one other scan on the same "
        "object; distinct by (history prefix, op)")
ASSUMPTIONS = ["what a scan does is an abstract parameter of the theorems (World.scan/next/load): cached-grammar transparency itself is "
               "tied by correspondence only (PARTIAL)",
               "reset_complete is path-insensitive: a member counts as re-initialised when scanReset or a same-object method it calls "
               "assigns it or calls reset/removeAll/clear/flush/createReader on it on SOME path",
               "classification of scanner members (config / per-parse / scratch) and the reviewed exceptions are hand-reviewed data in tools/c15_fields.json",
               "fSequenceId / fScannerId modelled as XMLUInt32 / unbounded; a token is guaranteed stale only within 2^32 scans",
               "the parser classes' own members (SAXParser::fElemDepth, AbstractDOMParser::fCurrentParent, ...) are covered by the differential correspondence only"]
TRUSTED = ["tools/scanner_ast.py (clang++-14 -ast-dump=json extraction) and tools/c15_fields.json",
           "the canonical dump of harness/hx_hist.cpp (what counts as 'the outcome' of a parse)"]

def _env():
    # memcpy(dst, NULL, 0) in ElemStack / NamespaceScope is reported by UBSan on almost every namespace-aware parse; it is
    # C01's business and would only hide the real crash line in the summaries here
    supp = os.path.join(common.WORK, "c15_ubsan.supp")
    common.write_if_changed(supp, "nonnull-attribute:ElemStack.cpp\nnonnull-attribute:NamespaceScope.cpp\n")
    return {"ASAN_OPTIONS": "detect_leaks=0:symbolize=1:allocator_may_return_null=1",
            "UBSAN_OPTIONS": "print_stacktrace=0:halt_on_error=0:suppressions=" + supp}

# ------------------------------------------------------------------ corpus
XSI = 'xmlns:xsi="http://www.w3.org/2001/XMLSchema-instance"'
A_DTD = '<!ELEMENT r (e*)>\n<!ELEMENT e (#PCDATA)>\n<!ATTLIST e id ID #IMPLIED k CDATA "ka" ref IDREF #IMPLIED>\n<!ENTITY ent "A-text">\n'
B_DTD = '<!ELEMENT r (e,e)>\n<!ELEMENT e EMPTY>\n<!ATTLIST e id ID #REQUIRED k CDATA "kb" t NMTOKENS "x y">\n<!ENTITY ent "B-text">\n'
A_XSD = ('<xs:schema xmlns:xs="http://www.w3.org/2001/XMLSchema" targetNamespace="urn:x" xmlns="urn:x" elementFormDefault="qualified">'
         '<xs:element name="r"><xs:complexType><xs:sequence><xs:element name="e" type="xs:int" maxOccurs="unbounded"/></xs:sequence>'
         '<xs:attribute name="k" type="xs:string" default="sa"/></xs:complexType></xs:element></xs:schema>')
B_XSD = ('<xs:schema xmlns:xs="http://www.w3.org/2001/XMLSchema" targetNamespace="urn:x" xmlns="urn:x" elementFormDefault="qualified">'
         '<xs:simpleType name="code"><xs:restriction base="xs:string"><xs:pattern value="[a-z]+"/></xs:restriction></xs:simpleType>'
         '<xs:element name="r"><xs:complexType><xs:sequence><xs:element name="e" type="code" maxOccurs="2"/></xs:sequence>'
         '<xs:attribute name="k" type="xs:string" default="sb"/><xs:attribute name="n" type="xs:int" default="7"/></xs:complexType>'
         '<xs:unique name="u"><xs:selector xpath="e"/><xs:field xpath="."/></xs:unique></xs:element></xs:schema>')
N_XSD = ('<xs:schema xmlns:xs="http://www.w3.org/2001/XMLSchema">'
         '<xs:element name="r"><xs:complexType><xs:sequence><xs:element name="e" type="xs:date" minOccurs="0" maxOccurs="unbounded"/></xs:sequence>'
         '<xs:attribute name="k" default="sn"/></xs:complexType></xs:element></xs:schema>')
C_XSD = ('<xs:schema xmlns:xs="http://www.w3.org/2001/XMLSchema" targetNamespace="urn:z" xmlns="urn:z" elementFormDefault="qualified">'
         '<xs:element name="r"><xs:complexType><xs:sequence>'
         '<xs:element name="a"><xs:complexType><xs:sequence><xs:element name="b" type="xs:int" maxOccurs="unbounded"/></xs:sequence></xs:complexType></xs:element>'
         '<xs:element name="e" type="xs:int" minOccurs="0" maxOccurs="unbounded"/>'
         '<xs:element name="d" minOccurs="0"><xs:complexType><xs:sequence><xs:element name="g" type="xs:date"/></xs:sequence>'
         '<xs:attribute name="w" type="xs:string" default="dw"/></xs:complexType></xs:element>'
         '</xs:sequence><xs:attribute name="n" type="xs:int"/><xs:attribute name="k" type="xs:string" default="sz"/></xs:complexType></xs:element></xs:schema>')
ENTS = {"file:///c15/c.xsd": C_XSD, "file:///c15/a.dtd": A_DTD, "file:///c15/b.dtd": B_DTD, "file:///c15/a.xsd": A_XSD, "file:///c15/b.xsd": B_XSD, "file:///c15/n.xsd": N_XSD}
GRAMS = {1: ("D", "file:///c15/a.dtd"), 2: ("D", "file:///c15/b.dtd"), 3: ("S", "file:///c15/a.xsd"), 4: ("S", "file:///c15/b.xsd"), 5: ("S", "file:///c15/n.xsd"), 6: ("S", "file:///c15/c.xsd")}
LOCS = {1: "urn:x file:///c15/a.xsd", 2: "urn:x file:///c15/b.xsd", 3: "file:///c15/n.xsd"}
INT_A = '<!DOCTYPE r [\n' + A_DTD + ']>\n'
DOCS = {
 0: '<r><e k="1">t</e><!--c--><?p d?></r>',
 1: INT_A + '<r><e id="i1">&ent;</e><e ref="i1"/></r>',
 2: INT_A + '<r><e ref="i1"/></r>',                                   # IDREF without ID: invalid (a stale ID table would hide it)
 3: '<!DOCTYPE r SYSTEM "file:///c15/a.dtd">\n<r><e id="i2">&ent;</e></r>',
 4: '<!DOCTYPE r SYSTEM "file:///c15/b.dtd">\n<r><e id="i1"/><e id="i2" k="own"/></r>',
 5: '<!DOCTYPE r SYSTEM "file:///c15/a.dtd">\n<r><x/><e zz="1"/></r>',     # undeclared element / attribute
 6: '<r xmlns="urn:x" %s xsi:schemaLocation="urn:x file:///c15/a.xsd"><e>12</e><e> 7 </e></r>' % XSI,
 7: '<r xmlns="urn:x" %s xsi:schemaLocation="urn:x file:///c15/b.xsd"><e>ab</e><e>cd</e></r>' % XSI,
 8: '<r xmlns="urn:x" %s xsi:schemaLocation="urn:x file:///c15/a.xsd"><e>zz</e><q/></r>' % XSI,
 9: '<r><e></r>',
 10: '<r><e>t</e></r><x/>',
 11: '<?xml version="1.1"?><r><e>&#x1;</e></r>',
 12: '<r><e>&#x1;</e></r>',
 13: '<?xml version="1.0" standalone="yes"?>\n<!DOCTYPE r SYSTEM "file:///c15/a.dtd">\n<r><e/></r>',
 14: '<p:r xmlns:p="urn:x" xmlns="urn:d"><e p:k="1" k="2"/><q:e/></p:r>',
 15: '<!DOCTYPE r [<!ELEMENT r EMPTY>]>\n<r xmlns="urn:x" %s xsi:schemaLocation="urn:x file:///c15/a.xsd"><e>5</e></r>' % XSI,
 16: '<!DOCTYPE r [<!ENTITY a "x&b;"><!ENTITY b "y">]>\n<r><e>&a;&undef;</e></r>',
 17: '<r %s xsi:noNamespaceSchemaLocation="file:///c15/n.xsd"><e>2001-02-03</e><e>bad</e></r>' % XSI,
 18: '<r xmlns:p=""><p:e/></r>',
 19: '<r><e>a\xc2\x85b</e></r>',
 # k general-entity expansions (k near the SecurityManager limits 5 / 7 / 10 / 12 used by the histories)
 20: '<!DOCTYPE r [<!ENTITY a "x">]>\n<r><e>' + "&a;" * 6 + '</e></r>',
 21: '<!DOCTYPE r [<!ENTITY a "x">]>\n<r><e>' + "&a;" * 9 + '</e><e k="&a;"/></r>',
 22: '<!DOCTYPE r [<!ENTITY b "y"><!ENTITY a "&b;&b;">]>\n<r><e>&a;&a;&a;</e></r>',
 # schema-invalid at several positions: root attribute, inside the first child, after the first child, deep, trailing element
 23: '<r xmlns="urn:z" %s xsi:schemaLocation="urn:z file:///c15/c.xsd" n="x"><a><b>bad</b><b>2</b></a><e>1</e><e>zz</e><d><g>nodate</g></d><q/></r>' % XSI,
 24: '<r xmlns="urn:z" %s xsi:schemaLocation="urn:z file:///c15/c.xsd" n="1"><a><b>1</b></a><e>2</e><d><g>2001-01-01</g></d></r>' % XSI,
 25: '<r xmlns="urn:z" %s xsi:schemaLocation="urn:z file:///c15/c.xsd"><a><b>1</b></a><e>x</e><e>y</e></r>' % XSI,   # errors only after the first child
 # parses that fail at many positions: inside the internal subset (fatal), validity error inside it, inside an entity, in the prolog, EOF in the subset
 26: '<!DOCTYPE r [<!ELEMENT r ANY>\n<!ENTITY z "zz">\n<!ATTLIST r q CDATA "leak">\n<!ELEMENT >\n]>\n<r/>',
 27: '<!DOCTYPE r [<!ELEMENT r ANY>\n<!ELEMENT r ANY>\n<!ENTITY y "yy">\n]>\n<r>&y;</r>',
 28: '<!DOCTYPE r [<!ENTITY bad "<e>unclosed">]>\n<r>&bad;</r>',
 29: '<?xml version="1.0" standalone="maybe"?>\n<r/>',
 30: '<!DOCTYPE r [<!ELEMENT r ANY>\n<!ENTITY w "ww">\n',
 31: '<!DOCTYPE r [<!NOTATION n SYSTEM "urn:n">\n<!ENTITY u SYSTEM "file:///c15/u.bin" NDATA n>\n<!ELEMENT r ANY>\n<!ATTLIST r a CDATA "d">\n]>\n<r/>',
}
V11_DOCS = {11}
EXT_DTD_DOCS = {3, 4, 5, 13}
EXP_DOCS = {16, 20, 21, 22}
SUBSET_FAIL_DOCS = {26, 27, 28, 29, 30, 9, 16}     # parses that end early, several inside the internal DTD subset
INT_SUBSET_DOCS = {1, 2, 15, 20, 22, 31}        # documents with an internal subset
NDOC = len(DOCS)

def hx(s):
    return s.encode("latin-1").hex() or "-"

_corpus = None
def corpus():
    global _corpus
    if _corpus is None:
        text = "".join("D %d %s\n" % (i, hx(d)) for i, d in DOCS.items())
        text += "".join("X %s %s\n" % (hx(k), hx(v)) for k, v in ENTS.items())
        text += "".join("G %d %s %s\n" % (i, t, hx(s)) for i, (t, s) in GRAMS.items())
        text += "".join("L %d %s\n" % (i, hx(l)) for i, l in LOCS.items())
        _corpus = os.path.join(common.WORK, "c15_corpus.txt")
        common.write_if_changed(_corpus, text)
    return _corpus

def run_impl(lines):
    out, crashes = common.run_lines_resilient("hx_hist", lines, harness_args=[corpus()], env=_env(), timeout=3000)
    return out, crashes

def run_model(lines):
    if not lines:
        return []
    # shards of 400 lines on up to 8 driver processes (one 4000-line batch took > 30 min on a loaded machine)
    from concurrent.futures import ThreadPoolExecutor
    shards = [lines[i:i + 400] for i in range(0, len(lines), 400)]
    def one(sh):
        o = common.run_driver(["hist"], input=("\n".join(sh) + "\n").encode()).decode(errors="replace").split("\n")
        if o and o[-1] == "":
            o.pop()
        if len(o) != len(sh):
            raise common.InfraError("driver hist produced %d lines for %d cases" % (len(o), len(sh)))
        return o
    with ThreadPoolExecutor(max_workers=8) as ex:
        m = [l for o in ex.map(one, shards) for l in o]
    if len(m) != len(lines):
        raise common.InfraError("driver hist produced %d lines for %d cases" % (len(m), len(lines)))
    return m

# ------------------------------------------------------------------ (a) pool / resolver
def gen_pool_ops(r):
    ops = []
    for _ in range(8 + r.below(23)):
        c = r.below(100)
        k = r.below(4)
        if c < 30: ops.append("c:%d:%d:%d" % (k, r.below(2), 10 + len(ops)))
        elif c < 33: ops.append("c0")
        elif c < 45: ops.append("r:%d" % k)
        elif c < 57: ops.append("o:%d" % k)
        elif c < 63: ops.append("x")
        elif c < 72: ops.append("l")
        elif c < 80: ops.append("u")
        elif c < 85: ops.append("m")
        elif c < 95: ops.append("a:%d" % r.below(5))
        else: ops.append("e")
    return ops

def gen_res_ops(r):
    ops = []
    for _ in range(8 + r.below(23)):
        c = r.below(100)
        k = r.below(4)
        if c < 22: ops.append("put:%d:%d:%d" % (k, r.below(2), 10 + len(ops)))
        elif c < 40: ops.append("get:%d" % k)
        elif c < 46: ops.append("reset")
        elif c < 52: ops.append("resetCached")
        elif c < 60: ops.append("cacheAll")
        elif c < 68: ops.append("setCache:%d" % r.below(2))
        elif c < 76: ops.append("setUse:%d" % r.below(2))
        elif c < 82: ops.append("orphan:%d" % k)
        else:
            # (the pool is not cleared / orphaned directly: the resolver keeps plain pointers to pooled grammars in
            #  fGrammarFromPool, so that is only legal through resetCachedGrammar / orphanGrammar of the resolver)
            ops.append("pool:" + r.choice(["l", "u", "r:%d" % k, "c:%d:%d:%d" % (k, r.below(2), 10 + len(ops)), "e", "a:%d" % r.below(4)]))
    return ops

def pool_oracle(ops):
    """independent dictionary semantics of the documented pool contract: returns the per-op observations the
    contract fixes (None where it does not) and the final key->id map"""
    reg, locked = {}, False
    obs = []
    for op in ops:
        f = op.split(":")
        if f[0] == "c":
            if locked or int(f[1]) in reg: obs.append("0")
            else: reg[int(f[1])] = int(f[3]); obs.append("1")
        elif f[0] == "c0": obs.append("0")
        elif f[0] == "r": obs.append(str(reg.get(int(f[1]), "-")))
        elif f[0] == "o":
            if locked: obs.append("-")
            elif int(f[1]) in reg: obs.append(str(reg.pop(int(f[1]))))
            else: obs.append(None)      # contract silent: the implementation throws NoSuchElementException (mirrored by the model)
        elif f[0] == "x":
            if locked: obs.append("0")
            else: reg.clear(); obs.append("1")
        elif f[0] == "l": locked = True; obs.append("ok")
        elif f[0] == "u": locked = False; obs.append("ok")
        else: obs.append(None)
    return obs, "{" + " ".join(sorted("k%d=%d" % kv for kv in reg.items())) + "}"

def run_pool(ctx):
    r = ctx.rng
    n = 6000 if ctx.thorough() else 700
    lines = ["P " + ";".join(gen_pool_ops(r)) for _ in range(n)] + ["R " + ";".join(gen_res_ops(r)) for _ in range(n)]
    m = run_model(lines)
    i, crashes = run_impl(lines)
    first_corr = None
    import re
    i = [re.sub(r"(exc:\w+)#\d+", r"\1", x) for x in i]
    for k, line in enumerate(lines):
        io = i[k]
        if io.startswith("CRASH"):
            ctx.violations.append({"key": "pool-crash", "concrete": True, "what": "grammar pool op sequence crashes: %s -> %s" % (line, io),
                                   "replay": {"op": "line", "line": line, "impl": io}})
            break
        if line.startswith("P "):
            obs, final = pool_oracle(line[2:].split(";"))
            got = io.split(" ")
            # the final registry is the last {...} group
            gfinal = io[io.rindex("{"):] if "{" in io else "?"
            bad = gfinal != final
            # per-op observations: re-tokenise (an `e` observation contains spaces)
            if not bad:
                toks = tokenise_pool_obs(io)
                for o, g in zip(obs, toks):
                    if o is not None and o != g:
                        bad = True
            if bad:
                ctx.violations.append({"key": "pool-contract", "concrete": True,
                    "what": "XMLGrammarPoolImpl %s gives %s; the pool contract (dictionary oracle) requires %s / final %s" % (line, io, obs, final),
                    "replay": {"op": "line", "line": line, "impl": io, "spec": [obs, final]}})
                break
        if m[k] != io and first_corr is None:
            first_corr = (line, m[k], io)
    if first_corr and not any(v["key"].startswith("pool-") for v in ctx.violations):
        ctx.violations.append({"key": "corr:grammarpool", "concrete": False,
            "what": "correspondence grammar pool / resolver model vs implementation no longer checks: %s model=%s impl=%s" % first_corr,
            "replay": {"correspondence": "grammarpool", "line": first_corr[0], "model": first_corr[1], "impl": first_corr[2]}})
    ctx.stats["pool_sequences"] = n
    ctx.stats["resolver_sequences"] = n
    ctx.samples.append({"pool": lines[0], "impl": i[0], "model": m[0]})
    ctx.samples.append({"resolver": lines[n], "impl": i[n], "model": m[n]})
    return 2 * n

def tokenise_pool_obs(io):
    out, cur, depth = [], "", 0
    for ch in io:
        if ch == "{": depth += 1
        if ch == "}": depth -= 1
        if ch == " " and depth == 0:
            out.append(cur); cur = ""
        else:
            cur += ch
    out.append(cur)
    return out

# ------------------------------------------------------------------ (b) histories
KINDS = ["sax", "sax2", "dom", "ls"]
KIND_FEATS = {
 "sax": ["ns", "val", "schema", "full", "idc", "ldtd", "lsch", "cont", "vfatal", "cache", "use", "icd", "skip", "multi", "nodtd", "sec"],
 "sax2": ["ns", "val", "dyn", "schema", "full", "idc", "ldtd", "lsch", "cont", "vfatal", "cache", "use", "icd", "skip", "multi", "nodtd", "nsp", "sec"],
 "dom": ["ns", "val", "schema", "full", "idc", "ldtd", "lsch", "cont", "vfatal", "cache", "use", "icd", "skip", "multi", "nodtd", "ent", "ws", "cmt", "sinfo", "sec"],
 "ls": ["ns", "val", "vis", "schema", "full", "idc", "ldtd", "lsch", "cont", "vfatal", "cache", "use", "icd", "skip", "multi", "nodtd", "ent", "ws", "cmt", "sinfo", "sec"],
}
_cfg0 = {}
def _set_cfg0(out):
    for k, o in zip(KINDS, out):
        if " ;; " not in o:
            raise common.InfraError("harness hx_hist does not report the default configuration: " + o[:300])
        _cfg0[k] = split_op(o.split(" ;; ")[0])["cfg"]

def cfg0(kind):
    """configuration of a freshly constructed parser, as the harness reads it back (normally taken from the first batch)"""
    if not _cfg0:
        out, _ = run_impl(["H %s V" % k for k in KINDS])
        _set_cfg0(out)
    return _cfg0[kind]

def split_op(s):
    body, _, pool = s.rpartition(" #")
    ev, _, cfg = body.rpartition(" @")
    return {"ev": ev, "cfg": cfg, "pool": pool}

def parse_cfg(s):
    d = {}
    for kv in s.split():
        k, _, v = kv.partition("=")
        d[k] = int(v) if v.lstrip("-").isdigit() else v
    return d

def config_ops(kind, cfg, extra):
    """canonical op sequence that brings a FRESH parser of `kind` to the stored configuration `cfg` (+ scanner,
    schema locations in `extra`).  The scanner is selected first."""
    ops = []
    if extra.get("scanner", 0) != 0:
        ops.append("S%d" % extra["scanner"])
    base = parse_cfg(cfg0(kind))
    for f in KIND_FEATS[kind]:
        v = cfg.get(f, 0)
        if f in ("cache", "use", "vis", "sec"):
            continue
        if kind == "ls" and f == "val":
            if cfg.get("vis", 0): ops.append("Fvis=1")
            elif v: ops.append("Fval=1")
            elif base.get("val", 0): ops.append("Fval=0")
            continue
        if v != base.get(f, 0) or f in ("val", "dyn"):
            ops.append("F%s=%d" % (f, v))
    if cfg.get("cache", 0): ops.append("Fcache=1")
    elif cfg.get("use", 0): ops.append("Fuse=1")
    if cfg.get("sec", 0): ops.append("MI%d" % cfg["sec"])
    if extra.get("xsl", 0): ops.append("XS%d" % extra["xsl"])
    if extra.get("xnl", 0): ops.append("XN%d" % extra["xnl"])
    return ops

def is_scan(op):
    return op[0] in "PE" or op.startswith("QF")

def gen_history(r, kind, n):
    ops = []
    ntok = 0
    live = None        # (token index) of a progressive scan that may still be continued
    feats = [f for f in KIND_FEATS[kind] if f != "sec"]
    psvi_cached = lambda: kind in ("sax", "sax2") and any(o in ("Fcache=1", "Fuse=1") for o in ops)
    def pick_doc():
        return r.below(NDOC)
    while len(ops) < n:
        c = r.below(100)
        if c < 24:
            f = r.choice(feats)
            v = r.below(3) if (f == "val" and kind in ("sax", "dom")) else r.below(2)
            ops.append("F%s=%d" % (f, v))
        elif c < 27:
            ops.append("S%d" % r.below(4)); live = None
        elif c < 30:
            ops.append(r.choice(["XS1", "XS2", "XS0", "XN3", "XN0"]))
        elif c < 34:
            # SecurityManager: install one with an entity-expansion limit, change the limit of the installed one, remove it
            ops.append(r.choice(["MI5", "MI7", "MI10", "MI12", "ML5", "ML7", "ML10", "ML12", "MI10", "M0"]))
        elif c < 56:
            ops.append("P%d" % (r.choice([20, 21, 22]) if r.chance(1, 6) else pick_doc())); live = None
        elif c < 64:
            ops.append("E%d.%d" % (pick_doc(), 1 + r.below(12))); live = None
        elif c < 74 and kind != "ls":
            d = pick_doc()
            ops.append("QF%d" % d)
            t = ntok; ntok += 1
            for _ in range(r.below(5)):
                ops.append("QN%d" % t)
            if r.chance(1, 2):
                ops.append("QR%d" % t); live = None
            else:
                live = t          # abandoned without parseReset
        elif c < 78 and ntok:
            ops.append(r.choice(["QN%d", "QR%d"]) % r.below(ntok))       # stale (or finished) token probe
        elif c < 84:
            # (loadGrammar over an open progressive scan: recorded finding loadgrammar-over-live-progressive-scan, curated witness)
            if live is not None: ops.append("QR%d" % live); live = None
            ops.append("G%d.%d" % (1 + r.below(5), r.below(2)))
        elif c < 87:
            if psvi_cached():
                continue      # recorded memory error pool-xsmodel-deleted-under-resolver-use-after-free (witness in CRASH_WITNESSES)
            if live is not None: ops.append("QR%d" % live); live = None
            ops.append("RG")
        elif c < 90 and kind in ("dom", "ls"):
            if live is not None: ops.append("QR%d" % live); live = None
            ops.append("RD")
        elif c < 94 and kind in ("dom", "ls"):
            ops.append("A")
            if r.chance(1, 3):
                # the adopted document is the parser's current document: the pool reset / the next parse must not touch it
                if live is not None: ops.append("QR%d" % live); live = None
                ops.append("RD")
        elif c < 97:
            ops.append("L")
        elif not psvi_cached():     # unlockPool deletes the pool's XSModel like resetCachedGrammarPool does (same recorded memory error)
            ops.append("U")
    return ops[:max(n, 1)]

class Hist:
    """one history with the model's per-op information and the implementation's per-op observations"""
    def __init__(self, kind, ops):
        self.kind, self.ops = kind, ops
        self.model = None      # list of dicts: cfg(str), locked(bool), prov(list of int), obs(str)
        self.impl = None       # list of dicts ev/cfg/pool (+ trailing verdict)
        self.verdict = None
        self.raw = None
    def line(self):
        return "H %s %s" % (self.kind, ";".join(self.ops))
    def mline(self):
        ops = [("Qf" + o[2:]) if (o.startswith("QF") and not getattr(self, "first_ok", {}).get(k, True)) else o for k, o in enumerate(self.ops)]
        return "M %s %s %s" % (self.kind, cfg0(self.kind).replace(" ", ","), ";".join(ops))

def attach(hists, extra_lines=()):
    """runs the histories (and, in the same process, `extra_lines`) on the implementation, then the model.
    Returns (crashes, outputs of extra_lines)"""
    pre = [] if _cfg0 else ["H %s V" % k for k in KINDS]
    i, crashes = run_impl(pre + [h.line() for h in hists] + list(extra_lines))
    if pre:
        _set_cfg0(i[:len(pre)])
    extra_out = i[len(pre) + len(hists):]
    i = i[len(pre):len(pre) + len(hists)]
    # whether a parseFirst succeeds is part of what a scan does (abstract in the model): the model is told
    for h, io in zip(hists, i):
        h.first_ok = {}
        if not (io.startswith("CRASH") or io in ("bad-op", "NO-OUTPUT")):
            for k, part in enumerate(io.split(" ;; ")[:-1]):
                if k < len(h.ops) and h.ops[k].startswith("QF"):
                    h.first_ok[k] = "first:1" in part
    m = run_model([h.mline() for h in hists])
    for h, mo, io in zip(hists, m, i):
        h.raw = io
        if mo == "bad-op":
            raise common.InfraError("model rejected history " + h.line())
        h.model = []
        for part in mo.split(" ;; "):
            f = part.split(" | ")
            h.model.append({"cfg": f[0].strip(), "locked": f[1].strip() == "L1", "prov": [int(x) for x in f[2].strip().split(".") if x],
                            "obs": f[3].strip()})
        if io.startswith("CRASH") or io in ("bad-op", "NO-OUTPUT"):
            h.impl = None
            continue
        parts = io.split(" ;; ")
        if len(parts) - 1 != len(h.ops):
            h.impl = None          # an exception escaped the harness' per-op guards (reported as a crash-type finding)
            continue
        h.verdict = parts[-1]
        h.impl = [split_op(p) for p in parts[:-1]]
    return crashes, extra_out

def extras_before(h, i):
    e = {"scanner": 0, "xsl": 0, "xnl": 0}
    for op in h.ops[:i]:
        if op[0] == "S": e["scanner"] = int(op[1:])
        elif op.startswith("XS"): e["xsl"] = int(op[2:])
        elif op.startswith("XN"): e["xnl"] = int(op[2:])
    return e

def session(h, i):
    """indices of the ops that belong to the scan started at op i (QF + its accepted parseNext calls), or None when
    other state-changing ops are interleaved (then the scan is not compared)"""
    op = h.ops[i]
    if not op.startswith("QF"):
        return [i]
    tok = sum(1 for o in h.ops[:i] if o.startswith("QF"))
    idx = [i]
    j = i + 1
    while j < len(h.ops):
        o = h.ops[j]
        if o == "QN%d" % tok and h.model[j]["obs"] == "accepted":
            idx.append(j)
        elif o in ("A", "RD"):
            pass
        else:
            break
        j += 1
    return idx

def seg_ops(h, idx):
    """the ops of one scan as they are replayed on a fresh parser (token index 0)"""
    out = []
    for j in idx:
        o = h.ops[j]
        out.append("QN0" if o.startswith("QN") else o)
    return out

def reference_line(h, i):
    """history -> line that makes a FRESH parser do op i under cfgOf / poolOf of the prefix, as the model computes them"""
    def cfg_before(j):
        return parse_cfg(h.model[j - 1]["cfg"]) if j > 0 else parse_cfg(cfg0(h.kind))
    segs = []
    prov = h.model[i - 1]["prov"] if i > 0 else []
    for j in prov:
        segs.append(config_ops(h.kind, cfg_before(j), extras_before(h, j)) + seg_ops(h, session(h, j)))
    locked = h.model[i - 1]["locked"] if i > 0 else False
    final = config_ops(h.kind, cfg_before(i), extras_before(h, i)) + (["L"] if locked else []) + seg_ops(h, session(h, i))
    segs.append(final)
    return "H %s %s" % (h.kind, ";N;".join(";".join(s) for s in segs if s or True)), len(seg_ops(h, session(h, i)))

def outcome_of(impl_ops, idx):
    return " >> ".join(impl_ops[j]["ev"] for j in idx)

def check_histories(ctx, hists, origin, want_refs=True, extra_lines=()):
    """returns list of raw findings: dicts with hist, index, kind of problem, details (extra_lines ride along in the same
    harness process; their outputs are left in ctx.extra_out)"""
    finds = []
    crashes, ctx.extra_out = attach(hists, extra_lines)
    refs = {}          # reference line -> list of (hist, i, idx)
    for h in hists:
        if h.impl is None:
            finds.append({"h": h, "i": len(h.ops) - 1, "type": "crash", "detail": h.raw})
            continue
        lock_sig, lock_uri = None, None
        g_since_scan = False
        for i, op in enumerate(h.ops):
            mo, io = h.model[i], h.impl[i]
            # configuration read-back vs the model's stored configuration
            if io["cfg"] != mo["cfg"]:
                finds.append({"h": h, "i": i, "type": "cfg", "detail": "read-back %s | model %s" % (io["cfg"], mo["cfg"])})
                break
            # tokens
            if op[0] == "G":
                g_since_scan = True
            elif is_scan(op):
                g_since_scan = False
            if op.startswith("QN") or op.startswith("QR"):
                rej = "exc:RuntimeException" in io["ev"] or io["ev"] == "no-token"
                if (mo["obs"] == "rejected") != rej and io["ev"] not in ("unsupported", "ended"):
                    finds.append({"h": h, "i": i, "type": "token", "detail": "model %s, implementation %s" % (mo["obs"], io["ev"][-60:])})
                    break
            # (whether loadGrammar drops the current document differs between parser classes and grammar types: not compared)
            if op == "A" and io["ev"].startswith("adopt:") and not g_since_scan:
                if (mo["obs"] == "docnone") != io["ev"].startswith("adopt:null"):
                    finds.append({"h": h, "i": i, "type": "adopt", "detail": "model %s, implementation %s" % (mo["obs"], io["ev"])})
                    break
            # locked pool: registry (keys + content fingerprints) frozen between L and U; URI pool back to its size at U
            sig, _, uri = io["pool"].rpartition("]u")
            if op in ("L", "U") and io["ev"] != "ok":
                finds.append({"h": h, "i": i, "type": "lock-exc", "detail": "%s -> %s" % ("lockPool()" if op == "L" else "unlockPool()", io["ev"])})
                break
            if op == "L" and lock_sig is None:
                lock_sig, lock_uri = sig[2:], int(uri)
            elif op == "U":
                if lock_sig is not None and int(uri) != lock_uri:
                    finds.append({"h": h, "i": i, "type": "locked-uri", "detail": "URI string pool has %s strings after unlock, %d at lock" % (uri, lock_uri)})
                    break
                lock_sig = None
            elif lock_sig is not None and sig[2:] != lock_sig:
                finds.append({"h": h, "i": i, "type": "locked-pool", "detail": "locked pool changed: %s -> %s" % (lock_sig, sig[2:])})
                break
            if io["ev"].startswith("ADOPTED-CHANGED"):
                finds.append({"h": h, "i": i, "type": "adopted", "detail": io["ev"]})
                break
            # the property: compare with a fresh parser
            if want_refs and (is_scan(op) or op[0] == "G"):
                idx = session(h, i)
                line, nops = reference_line(h, i)
                refs.setdefault(line, []).append((h, i, idx, nops))
        if h.verdict and "CHANGED" in h.verdict:
            finds.append({"h": h, "i": len(h.ops) - 1, "type": "adopted", "detail": h.verdict})
    ncmp = 0
    if refs:
        rl = list(refs)
        ro, _ = run_impl(rl)
        for line, out in zip(rl, ro):
            for (h, i, idx, nops) in refs[line]:
                ncmp += 1
                if out.startswith("CRASH") or out in ("bad-op", "NO-OUTPUT"):
                    finds.append({"h": h, "i": i, "type": "ref-crash", "detail": out, "ref": line})
                    continue
                parts = [split_op(p) for p in out.split(" ;; ")[:-1]]
                want = " >> ".join(p["ev"] for p in parts[-nops:])
                got = outcome_of(h.impl, idx)
                if want != got:
                    finds.append({"h": h, "i": i, "type": "outcome", "detail": "after history: %s | fresh parser: %s" % (got, want), "ref": line,
                                  "got": got, "want": want})
    ctx.stats["compared_with_fresh"] = ctx.stats.get("compared_with_fresh", 0) + ncmp
    ctx.stats["history_crashes"] = ctx.stats.get("history_crashes", 0) + len(crashes)
    return finds

def first_find(finds, h):
    fs = [f for f in finds if f["h"] is h]
    return min(fs, key=lambda f: f["i"]) if fs else None

def shrink_all(sel):
    """greedy minimisation, all selected findings in lock step (one model run + two harness runs per round): drop one op
    at a time from the prefix as long as a finding of the same type remains on the last op"""
    cur = [{"kind": f["h"].kind, "ops": (f["h"].ops if f["type"] == "crash" else f["h"].ops[:f["i"] + 1]), "f": f, "done": False} for f in sel]
    for _ in range(6):
        cands, owner = [], []
        for ci, c in enumerate(cur):
            if c["done"] or len(c["ops"]) <= 1:
                c["done"] = True
                continue
            for k in range(len(c["ops"]) - 1):
                o, nxt = c["ops"][k], c["ops"][k + 1]
                if o.startswith("QR") and nxt in ("RG", "RD"):
                    continue      # would leave a progressive scan open across the pool resets (recorded crashes)
                cands.append(Hist(c["kind"], c["ops"][:k] + c["ops"][k + 1:]))
                owner.append(ci)
        if not cands:
            break
        try:
            fs = check_histories(_Shadow(), cands, "shrink")
        except common.InfraError:
            break
        byh = {}
        for f in fs:
            byh.setdefault(id(f["h"]), []).append(f)
        progressed = set()
        for h, ci in zip(cands, owner):
            if ci in progressed:
                continue
            c = cur[ci]
            ffs = byh.get(id(h), [])
            ff = min(ffs, key=lambda f: f["i"]) if ffs else None
            if ff and ff["type"] == c["f"]["type"] and (ff["i"] == len(h.ops) - 1 or ff["type"] == "crash"):
                c["ops"], c["f"] = h.ops, ff
                progressed.add(ci)
        for ci, c in enumerate(cur):
            if ci not in progressed:
                c["done"] = True
    return [(c["ops"], c["f"]) for c in cur]

class _Shadow:
    def __init__(self):
        self.stats = {}

def renumber_tokens(ops):
    """after removing ops, token indices must keep pointing at the same parseFirst (or at nothing)"""
    return ops   # indices refer to "the t-th parseFirst": removing a QF shifts later ones; acceptable for shrinking (the
                 # candidate is re-judged by model and implementation alike)

def abandoned_before_scan(ops):
    """a progressive scan left open (no parseReset of its token) when a later scan starts"""
    open_tok, ntok = None, 0
    for o in ops:
        if is_scan(o) and open_tok is not None:
            return True
        if o.startswith("QF"): open_tok = ntok; ntok += 1
        elif o[0] in "PES": open_tok = None
        elif o.startswith("QR") and open_tok is not None and o == "QR%d" % open_tok: open_tok = None
    return False

def classify(ops, f):
    t = f["type"]
    pre = ops[:-1]
    had11 = any((o[0] in "PE" and int(o[1:].split(".")[0]) in V11_DOCS) or (o.startswith("QF") and int(o[2:]) in V11_DOCS) for o in pre)
    if t == "cfg":
        d = f["detail"]
        rb, _, mo = d.partition(" | model ")
        a, b = parse_cfg(rb[len("read-back "):]), parse_cfg(mo)
        diff = sorted(k for k in b if a.get(k) != b.get(k))
        if any(o[0] == "S" for o in ops) and set(diff) <= {"icd", "skip", "multi"} and ops[-1][0] == "S":
            return "use-scanner-drops-settings"
        if diff == ["skip"]:
            return "skip-dtd-validation-cleared-by-parse"
        return "config-readback:" + ",".join(diff)
    if t == "outcome" and f.get("got") is not None:
        import re as _re
        nopsvi = lambda x: _re.sub(r"psvi\([^)]*\),", "", x)
        if nopsvi(f["got"]) == nopsvi(f["want"]):
            return "psvi-anonymous-type-name-differs-with-pooled-grammar"
    if t == "outcome" or t == "ref-crash":
        # was a progressive scan left open (parseFirst without a later parseReset / other scan) right before the final op?
        open_tok, ntok = None, 0
        for o in pre:
            if o.startswith("QF"): open_tok = ntok; ntok += 1
            elif o[0] in "PES": open_tok = None
            elif o.startswith("QR") and open_tok is not None and o == "QR%d" % open_tok: open_tok = None
        if open_tok is not None and ops[-1][0] == "G":
            return "loadgrammar-over-live-progressive-scan"
        if open_tok is not None:
            # (also carries the XML version of the abandoned document: ReaderMgr::fXMLVersion is reset by ReaderMgr::reset() only)
            return "abandoned-progressive-parse-poisons-next-parse"
        # a SecurityManager op in the history is not enough: the two outcomes must differ in the expansion-limit error
        # (otherwise an open finding about the locked pool was filed under this key in the thorough tier)
        if any(o[0] == "M" for o in pre) and "expansions" in (str(f.get("got", "")) + str(f.get("want", ""))):
            return "entity-expansion-state-history-dependent"
        if "L" in pre and any(o == "Fcache=1" or (o[0] == "G" and o.endswith(".1")) for o in pre):
            return "schema-info-cache-stale-when-pool-refuses-grammar"
        if had11:
            return "xml-version-not-reset"
        ss = [o for o in pre if o[0] == "S"]
        if ss and ss[-1] == "S3":
            return "sgscanner-history-dependent-outcome"
        if ss:
            return "history-dependent-outcome-after-scanner-change"
        return "history-dependent-outcome"
    if t == "crash":
        d = f["detail"]
        if "L" in ops and any(o == "Fcache=1" for o in ops) and ("use-after-free" in d or "double-free" in d):
            return "locked-pool-dtd-grammar-rekeyed-use-after-free"
        if abandoned_before_scan(ops):
            return "abandoned-progressive-parse-poisons-next-parse"
        last_s = [o for o in ops if o[0] == "S"]
        if any(o == "Fcache=1" for o in ops) and last_s and last_s[-1] == "S2" and "L" not in ops and ("use-after-free" in d or "double-free" in d):
            return "dgscanner-cache-dtd-rekey-double-free"
        if ("RG" in ops or "U" in ops) and "XSModel" in d:
            return "pool-xsmodel-deleted-under-resolver-use-after-free"
        return "history-crash"
    return {"token": "token-acceptance", "adopt": "adopt-document", "lock-exc": "lockpool-throws", "locked-pool": "locked-pool-modified", "locked-uri": "locked-pool-uri-strings",
            "adopted": "adopted-document-changed"}.get(t, t)

def crash_detail(line):
    """re-run one crashing line to get the sanitizer's SUMMARY (file:line and function), which names the defect"""
    try:
        p = common.run_harness("hx_hist", [corpus()], input=(line + "\n").encode(), env=_env(), timeout=900)
    except Exception as e:
        return "crash (re-run failed: %r)" % e
    err = p.stderr.decode(errors="replace")
    first = ""
    for l in err.split("\n"):
        if "ERROR: AddressSanitizer" in l and not first:
            first = l.split("ERROR: ")[1].split(" on address")[0].strip()
        if l.startswith("SUMMARY: AddressSanitizer"):
            return (first + " | " + l.strip())[:400]
    return common.sanitizer_summary(err) or "process died without sanitizer report (rc=%d)" % p.returncode

def report(ctx, finds, origin):
    """shrink up to two findings per provisional category (in lock step) and turn them into violations"""
    known = {f["key"] for f in common.load_findings() if f.get("property") == PID and f.get("status") == "open"}
    seen, sel = {}, []
    for f in sorted(finds, key=lambda f: len(f["h"].ops)):
        key0 = classify(f["h"].ops if f["type"] == "crash" else f["h"].ops[:f["i"] + 1], f)
        if seen.get(key0, 0) >= (1 if key0 in known else 2) or len(sel) >= 12:
            continue
        seen[key0] = seen.get(key0, 0) + 1
        sel.append(f)
    if not sel:
        return
    for (ops, f2), f in zip(shrink_all(sel), sel):
        if f2["type"] == "crash":
            f2 = dict(f2, detail=crash_detail("H %s %s" % (f["h"].kind, ";".join(ops))))
        key = classify(ops, f2)
        what = "%s parser, history %s: %s" % (f["h"].kind, ";".join(ops), f2["detail"][:700])
        if any(v["key"] == key for v in ctx.violations):
            continue
        ctx.violations.append({"key": key, "concrete": True, "what": what,
                               "replay": {"op": "history", "kind": f["h"].kind, "ops": ops, "type": f2["type"], "reference": f2.get("ref"),
                                          "after_history": f2.get("got"), "fresh_parser": f2.get("want"), "detail": f2["detail"][:2000],
                                          "origin": origin}})

def pair_sweep(ctx, quick_fraction):
    """ALL ordered pairs of documents as two-parse histories, for 7 parser/scanner combinations x 3 configurations"""
    r = ctx.rng
    combos = [("sax", 0), ("sax2", 0), ("dom", 0), ("ls", 0), ("sax2", 1), ("sax2", 2), ("sax2", 3)]
    presets = {"plain": [], "dtdval": ["Fval=1"], "schema": ["Fns=1", "Fschema=1", "Fval=1"], "sec": ["MI10"]}
    hists = []
    for kind, sc in combos:
        for pname, pops in presets.items():
            pre = (["S%d" % sc] if sc else []) + pops
            if kind == "ls" and pname != "plain":
                pre = [o for o in pre if o != "Fval=1"] + ["Fval=1"]
            for d1 in range(NDOC):
                for d2 in range(NDOC):
                    if pname == "sec":
                        if not (d1 in EXP_DOCS and d2 in EXP_DOCS):
                            continue      # entity-expansion budget: all pairs of the k-expansion documents under limit 10
                    elif d1 in SUBSET_FAIL_DOCS and d2 in INT_SUBSET_DOCS and kind in ("dom", "ls") and sc == 0 and pname != "schema":
                        pass          # a parse that ends early (inside the internal subset, an entity, the prolog, ...) followed by
                                      # a document with an internal subset, on the DOM kinds: always
                    elif quick_fraction < 1 and not r.below(1000) < int(1000 * quick_fraction):
                        continue
                    hists.append(Hist(kind, pre + ["P%d" % d1, "P%d" % d2]))
    ctx.stats["pair_histories"] = len(hists)
    return hists

SCHEMES = ("never", "auto", "always")
def scheme_ops(kind, scheme):
    if scheme == "never":
        return [] if kind == "ls" else ["Fval=0"]
    if scheme == "always":
        return ["Fval=1", "Fdyn=0"] if kind == "sax2" else ["Fval=1"]
    return {"sax": ["Fval=2"], "dom": ["Fval=2"], "sax2": ["Fval=1", "Fdyn=1"], "ls": ["Fvis=1"]}[kind]

# (grammar id, instance document, a valid 'other' document that brings the same grammar, schema?)
MATRIX_CASES = [(1, 3, 13, False), (1, 5, 3, False), (2, 4, 4, False),
                (3, 6, 8, True), (3, 8, 6, True), (4, 7, 7, True), (5, 17, 17, True),
                (6, 23, 24, True), (6, 25, 24, True), (6, 24, 23, True)]

def matrix_lines():
    """(grammar, instance) transparency: validation scheme {never, auto, always} x {grammar inline, preloaded with loadGrammar
    toCache + useCachedGrammarInParse, cached from an earlier parse} x 4 parser kinds (IGXMLScanner) + SAX2 with SGXMLScanner,
    over valid and INVALID instances whose errors sit in the root's attributes, inside the first child, after the first child,
    deep, and at the end.  Instances name the grammar the same way in all three runs; compared: EVERYTHING the parse delivers
    (events, defaulted attributes with type and specified flag, every error with line/column, PSVI / DOM type info) except the
    entity-resolver calls and DTD boundary events that fetching the grammar itself produces."""
    lines, meta = [], []
    combos = [(k, 0) for k in KINDS] + [("sax2", 3)]
    for kind, sc in combos:
        for scheme in SCHEMES:
            for g, d, other, schema in MATRIX_CASES:
                if sc == 3 and not schema:
                    continue
                cfg = (["S3"] if sc else []) + (["Fns=1", "Fschema=1"] if schema else []) + scheme_ops(kind, scheme)
                c = ";".join(cfg)
                inline = "H %s %s;P%d" % (kind, c, d)
                pre = "H %s %s;G%d.1;Fuse=1;P%d" % (kind, c, g, d)
                cached = "H %s %s;Fcache=1;P%d;Fcache=0;Fuse=1;P%d" % (kind, c, other, d)
                for tag, l in (("inline", inline), ("preloaded", pre), ("cached", cached)):
                    lines.append(l.replace(" ;", " ")); meta.append((kind, sc, scheme, g, d, tag))
    return lines, meta, MATRIX_CASES

def matrix_judge(ctx, lines, meta, cases, out):
    import re as _re
    def strip_fetch(ev):
        keep = []
        for e in ev.split(","):
            if e.startswith("ent(") or e.startswith("sen([dtd])") or e.startswith("een([dtd])"):
                continue
            keep.append(e)
        t = ",".join(keep)
        return "" if t == "-" else t.lstrip("-") if t.startswith("-|") else t
    res = {}
    for m, o, l in zip(meta, out, lines):
        if o.startswith("CRASH") or " ;; " not in o:
            res[m] = (o, l); continue
        parts = [split_op(p) for p in o.split(" ;; ")[:-1]]
        res[m] = (strip_fetch(parts[-1]["ev"]), l)
    n = 0
    strip_ents = lambda t: _re.sub(r" [&!][^ >]+", "", t)
    for m in meta:
        kind, sc, scheme, g, d, tag = m
        if tag == "inline":
            continue
        n += 1
        base = res[(kind, sc, scheme, g, d, "inline")]
        cur = res[m]
        if cur[0] != base[0]:
            if kind in ("dom", "ls") and strip_ents(cur[0]) == strip_ents(base[0]):
                key = "dom-doctype-entities-missing-with-cached-dtd"
            else:
                key = "grammar-transparency:%s" % tag
            if not any(v["key"] == key for v in ctx.violations):
                ctx.violations.append({"key": key, "concrete": True,
                    "what": "%s parser%s, validation %s: grammar %s (%s) %s gives a different result for document %d than the grammar inline: %s | inline: %s" % (
                        kind, " (SGXMLScanner)" if sc else "", scheme, g, GRAMS[g][1], tag, d, cur[0][:600], base[0][:600]),
                    "replay": {"op": "matrix", "lines": [base[1], cur[1]], "inline": base[0], tag: cur[0]}})
    ctx.stats["matrix_cells"] = n
    return n

CRASH_WITNESSES = [
    ("resetcachedgrammarpool-during-progressive-scan-use-after-free", "H sax2 Fcache=1;QF3;QN0;RG;QN0;QN0",
     "resetCachedGrammarPool between parseNext calls deletes the cached DTD grammar the running scan validates against"),
    ("pool-xsmodel-deleted-under-resolver-use-after-free", "H sax2 Fuse=1;P6;RG",
     "resetCachedGrammarPool deletes the pool's XSModel while the resolver's own XSModel (PSVI handler installed, cached grammars in use) still has it as parent: ~XSModel reads freed memory when the parser is destroyed"),
    ("pool-xsmodel-deleted-under-resolver-use-after-free", "H sax2 Fcache=1;P0;L;P7;U",
     "the same through unlockPool(), which also deletes the pool's XSModel"),
    ("resetdocumentpool-during-progressive-parse-crash", "H dom QF0;RD;QN0",
     "resetDocumentPool between parseFirst and parseNext is accepted (fParseInProgress is not set by a progressive parse) and releases the document being built"),
]

# witnesses of REPAIRED findings: ordinary histories now (compared with a fresh parser like any other), kept for regressions
REPAIRED_WITNESSES = [
    ("sax2", ["P11", "P12"]), ("dom", ["P11", "P19"]), ("sax2", ["QF11", "P19"]),                      # c5d1395 XML version
    ("sax", ["QF0", "QN0", "P3"]), ("dom", ["QF0", "P1"]), ("sax", ["QF3", "QN0", "QN0", "QN0", "P3", "P18"]),   # 66d76a0 reader manager
    ("sax", ["Fskip=1", "P18"]), ("sax", ["Fskip=1", "P0", "Fschema=1", "P15"]),                        # 3eb9a2e F11
    ("sax2", ["Ficd=1", "Fskip=1", "Fmulti=1", "S2"]), ("dom", ["Fmulti=1", "S3"]),                     # 3f55b7a setParseSettings
    ("sax2", ["Fcache=1", "P0", "L", "P3"]), ("sax2", ["Fcache=1", "P6", "L", "QF5"]), ("sax", ["S2", "Fcache=1", "P0", "P13"]),   # 5620f5d re-key guard
    ("sax", ["QF9", "QN0", "QN0", "QN0", "QN0"]), ("sax2", ["QF0", "G1.0", "QN0"]),                     # b09cd0c scanNext after the end
    ("ls", ["G2.1", "L"]),                                                                              # 1ef5f24 lockPool and EMPTY/ANY
]
# witnesses of OPEN findings that do not kill the process, the entity-expansion budget, adopted documents, ID tables, standalone
CURATED = [
    ("dom", ["Fcache=1", "P0", "L", "P1", "P7", "U"]), ("sax", ["L", "P0", "U"]), ("sax2", ["QF0", "G1.0"]), ("sax2", ["Fuse=1", "Fval=1", "G5.1", "P17"]),
    ("sax", ["Fns=1", "Fschema=1", "Fval=1", "Fcache=1", "L", "P7", "P7"]), ("sax2", ["S3", "XS1", "P16", "P17"]),
    ("dom", ["P1", "A", "P2", "RD", "P3", "A", "P0"]), ("dom", ["P1", "A", "RD", "P2"]), ("ls", ["P6", "A", "RD", "P0", "A"]),
    ("sax2", ["Fval=1", "P1", "P2"]), ("sax2", ["Fval=1", "P13", "P3"]), ("sax", ["QF1", "QN0", "P0", "QN0", "QR0"]),
    ("sax", ["MI10", "P20", "P20"]), ("sax2", ["MI10", "P21", "P20"]), ("dom", ["MI10", "P22", "P22"]), ("ls", ["MI10", "P20", "P20", "P20"]),
    ("sax2", ["MI5", "P0", "ML10", "P20"]), ("dom", ["MI12", "P21", "ML7", "P20", "ML5", "P20"]), ("sax", ["MI7", "E20.9", "P20"]),
    ("dom", ["P26", "P1"]), ("ls", ["P26", "P31"]), ("dom", ["Fval=1", "E27.3", "P31"]), ("ls", ["Fval=1", "E27.2", "P1"]), ("dom", ["P30", "P20"]),
    ("dom", ["P26", "RD", "P31"]), ("dom", ["P28", "P31"]), ("dom", ["E26.2", "P2"]), ("sax2", ["P26", "P1"]), ("sax", ["Fval=1", "E27.2", "P31"]),
    ("sax2", ["MI10", "QF20", "QN0", "QN0", "QN0", "QR0", "P20"]), ("sax2", ["S2", "MI10", "P20", "P20"]), ("sax", ["MI10", "P20", "M0", "P21", "MI5", "P20"]),
]

def crash_witnesses(ctx):
    """operations interleaved with a live progressive scan / a pool reset under a PSVI handler: the generator avoids these at
    random because on the current library they kill the process (recorded findings); one witness of each stays under observation"""
    lines = [w[1] for w in CRASH_WITNESSES]
    out, crashes = run_impl(lines)
    for (key, line, why), o in zip(CRASH_WITNESSES, out):
        if o.startswith("CRASH") or "exc:FOREIGN" in o:
            ctx.violations.append({"key": key, "concrete": True, "what": "%s -> %s (%s)" % (line, o[:200], why),
                                   "replay": {"op": "line", "line": line, "impl": o, "spec": "no crash: either the operation is rejected or the scan continues"}})
    ctx.stats["crash_witnesses"] = len(lines)

def correspondence(ctx):
    import time, resource
    t0 = time.time()
    c0 = resource.getrusage(resource.RUSAGE_CHILDREN)
    def stage(name):
        c = resource.getrusage(resource.RUSAGE_CHILDREN)
        common.log("C15 %s done at %.0fs wall, %.0fs cpu of child processes" % (name, time.time() - t0, c.ru_utime + c.ru_stime - c0.ru_utime - c0.ru_stime))
    a = run_pool(ctx)
    stage("pool")
    r = ctx.rng
    budget = float(os.environ.get("C15_BUDGET", "1"))      # <1 only for the builder's mutation experiments
    nh = int((1500 if ctx.thorough() else 250) * budget)   # thorough sized to ~10-15 min (10000 x 30 ops did not finish in 50 min)
    nops = 20 if ctx.thorough() else 12
    hists = []
    for k in range(nh):
        kind = KINDS[k % 4]
        hists.append(Hist(kind, gen_history(r, kind, nops)))
    nrandom = len(hists)
    hists += [Hist(k, list(o)) for k, o in REPAIRED_WITNESSES + CURATED]
    ph = pair_sweep(ctx, 0.4 if ctx.thorough() else 0.10 * budget)
    mlines, mmeta, mcases = matrix_lines()
    finds = []
    allh = hists + ph
    chunk = 4000
    for s in range(0, len(allh), chunk):
        finds += check_histories(ctx, allh[s:s + chunk], "correspondence", extra_lines=mlines if s == 0 else ())
        if s == 0:
            mout = ctx.extra_out
    stage("histories + pairs + matrix (%d raw findings)" % len(finds))
    nm = matrix_judge(ctx, mlines, mmeta, mcases, mout)
    report(ctx, finds, "correspondence")
    stage("shrink/report")
    crash_witnesses(ctx)
    stage("crash witnesses")
    ncmp = ctx.stats.get("compared_with_fresh", 0)
    ctx.stats["histories"] = len(hists)
    ctx.stats["random_histories"] = nrandom
    ctx.stats["history_findings_raw"] = len(finds)
    ctx.stats["evaluations"] = a + ncmp + nm
    # non-trivial: compared ops that were preceded by another scan on the same object
    nt = 0
    for h in allh:
        scans = 0
        for op in h.ops:
            if is_scan(op):
                if scans: nt += 1
                scans += 1
    ctx.stats["distinct_nontrivial"] = nt
    hist = {}
    for f in finds:
        hist[f["type"]] = hist.get(f["type"], 0) + 1
    ctx.stats["finding_types"] = hist
    opk = {}
    for h in hists:
        for op in h.ops:
            k = op[:2] if op[0] in "QXM" else op[0]
            opk[k] = opk.get(k, 0) + 1
    ctx.stats["op_histogram"] = opk
    c = resource.getrusage(resource.RUSAGE_CHILDREN)
    ctx.stats["cpu_children_s"] = round(c.ru_utime + c.ru_stime - c0.ru_utime - c0.ru_stime, 1)
    ctx.samples.append({"history": hists[0].line(), "impl_first_ops": (hists[0].raw or "")[:600]})
    ctx.samples.append({"history": hists[1].line(), "model_first_op": hists[1].model[0] if hists[1].model else None})

def search(ctx, broken):
    """a broken obligation (a per-parse member no longer reset, a new unclassified member, a translator failure).  The
    correspondence above IS the spec-judged search (the implementation against a fresh copy of itself); a concrete violation
    that is not a recorded finding explains the break.  Otherwise the complete two-parse sweep and a larger random budget are
    run once; if that finds nothing new either, the break is reported on its own (no-failing-input-found) - recorded findings
    must not absorb it."""
    known = {f["key"] for f in common.load_findings() if f.get("property") == PID and f.get("status") == "open"}
    def unrecorded():
        return [v for v in ctx.violations if v.get("concrete") and v["key"] not in known]
    if unrecorded():
        return None
    if not getattr(ctx, "_c15_searched", False):
        ctx._c15_searched = True
        r = ctx.rng
        hists = pair_sweep(ctx, 1.0) + [Hist(KINDS[k % 4], gen_history(r, KINDS[k % 4], 14)) for k in range(1200)]
        finds = check_histories(ctx, hists, "search")
        before = len(ctx.violations)
        report(ctx, finds, "search")
        new = [v for v in ctx.violations[before:] if v["key"] not in known]
        del ctx.violations[before:]
        if new:
            return new[0]
    name = "%s %s" % (broken.get("kind"), broken.get("name"))
    return {"key": "broken:" + common.sha(name), "concrete": False,
            "what": "no longer checks: %s (%s); neither the correspondence nor the complete two-parse sweep found an input on which the "
                    "implementation differs from a fresh parser beyond the recorded findings" % (name, str(broken.get("detail"))[:300]),
            "replay": {"broken": broken}}

def replay(ctx, path):
    r = json.load(open(path))["replay"]
    if r.get("op") == "history":
        h = Hist(r["kind"], r["ops"])
        attach([h])
        print("history :", h.line())
        for i, op in enumerate(h.ops):
            print("  op %-8s model: %s" % (op, h.model[i]))
            print("  %-11s impl : %s" % ("", h.impl[i] if h.impl else h.raw))
        i = len(h.ops) - 1
        if h.impl and (is_scan(h.ops[i]) or h.ops[i][0] == "G"):
            line, nops = reference_line(h, i)
            out, _ = run_impl([line])
            print("fresh   :", line)
            print("  impl  :", out[0])
            print("spec    : the last operation must deliver what the fresh parser delivers")
    elif r.get("op") == "matrix":
        out, _ = run_impl(r["lines"])
        for l, o in zip(r["lines"], out):
            print("case :", l); print("impl :", o)
        print("spec : identical results up to the events of fetching the grammar")
    elif r.get("op") == "line":
        m = run_model([r["line"]]); i, _ = run_impl([r["line"]])
        print("case :", r["line"]); print("model:", m[0]); print("impl :", i[0]); print("spec :", r.get("spec"))
    else:
        print(json.dumps(r)[:3000])
    return 0
