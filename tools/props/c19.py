"""C19 — no external resource is touched unless permitted; entity expansion is bounded.

Theorems: XV.Props.C19 (entity expansion: expansion_terminates, recursion_always_reported, limit_enforced,
within_limit_unaffected over ALL entity tables; fetch gating: no_fetch_when_disabled, gates_spec, resolver_first,
resolver_source_used over ALL document trees / configurations / resolvers; RFC 2396 5.2: XV.Props.C19Uri).

Correspondence (harness/hx_ext.cpp on the real library; no source hook: the public statics fgFileMgr / fgNetAccessor are
replaced by recording objects and an entity resolver is installed):
  gate tier   generated file trees (main document, external subsets, external general and parameter entities nested in
              sub-directories, schemas via xsi:schemaLocation / noNamespaceSchemaLocation with import / include / redefine
              chains, schema documents with a DOCTYPE; relative, ./, ../, absolute, file: and http://example.invalid/
              references) x configurations {scanner, disableDefaultEntityResolution, loadExternalDTD, validation scheme,
              loadSchema, doSchema, resolver none/declines/supplies (XMLEntityResolver and SAX EntityResolver), SAX2/DOM}.
              The Lean model predicts the exact ordered trace of resolver calls and opens.  The judge is the property
              text, evaluated on the IMPLEMENTATION's trace with the Spec's switch table (xvdriver `P`) and an
              independent RFC 2396 resolver: forbidden open / open without resolver offer / wrong base or wrongly
              resolved system id / resolver-supplied source ignored.
  expansion   generated entity tables needing exactly k expansions, limits k-1, k, k+1 (k = 0..13), sites: content,
              attribute values, attribute defaults in the DTD, parameter entities in the internal and external subset;
              recursion cycles of length 1..6 at every site; exponential ("billion laughs") tables with a limit.
  uri         XMLURL(base, rel) / XMLUri(base, rel) against the RFC 2396 Spec (tools/props/c19_uri.py)."""
import json, os, shutil, subprocess
import common

PID = "C19"
GEN = ["ErrCodes", "ScannerCopy"]
LEAN_MODULE = "XV.Props.C19"
THEOREMS = ["XV.Props.C19." + t for t in (
    "expansion_terminates", "expansion_terminates_any_budget", "expansion_correct", "expansion_ok_iff",
    "recursion_always_reported", "recursion_reported_as_such", "limit_enforced_count", "limit_enforced_general",
    "limit_enforced", "within_limit_unaffected", "within_limit_unaffected_general", "limit_and_recursion_errors_are_fatal",
    "fetch_permitted", "no_fetch_when_disabled", "no_open_in_trace_when_disabled", "gate_scanner_ignores_dtd",
    "gate_load_external_dtd", "gate_load_schema", "gate_do_schema", "gate_disable_default", "gates_spec",
    "resolver_first", "resolver_first_sax", "resolver_source_used",
    "settings_survive", "policy_setters_copied", "every_setter_copied", "policy_survives_scanner_switch")] + ["XV.Props.C19Uri." + t for t in (
    "step6e_complete", "remove_dots_idempotent", "zipper_eq_iterated_leftmost", "weave_eq_rfc", "resolve_rfc2396",
    "seturl_rfc2396", "xmluri_resolve_rfc2396")]
RULE = ("ORDERED configuration histories: every case sets the policy switches in a fixed order with the scanner switch "
        "(useScanner / fgXercesScannerName) inserted before step sp = 0..9 and optionally a first switch to another scanner "
        "(pre), on XercesDOMParser, SAXParser and SAX2XMLReader; the model's effective policy is the last value set "
        "(policy_survives_scanner_switch). External general/parameter entities are declared directly or through the replacement "
        "text of internal parameter entities (nested 1-2 levels) in the internal subset, external subsets and external PEs in "
        "other directories, with decoy files of the same name where a wrong base would look. "
        "gate tier: random file trees (DTD family: external subset + internal subset with external general/parameter entities "
        "nested up to 3 levels in 5 directories; schema family: xsi:schemaLocation / noNamespaceSchemaLocation with "
        "import/include/redefine chains up to depth 3, optionally a DOCTYPE inside schema documents; references spelled "
        "relative, ./, detour/../, absolute, file://, http://example.invalid, missing files) x random configurations over "
        "{scanner IG/DG/WF/SG, disableDefaultEntityResolution, loadExternalDTD, validation never/auto/always, loadSchema, "
        "doSchema, resolver none/XMLEntityResolver/SAX EntityResolver declining or supplying a random subset, SAX2/DOM, "
        "main document as path or file: URL}; non-trivial = a trace with at least one event besides the opening of the "
        "document, distinct by canonical trace. expansion tier: tables needing exactly k = 0..13 expansions at the sites "
        "content / attribute value / attribute default / PE in internal subset / PE in external subset (in and outside "
        "literals) x limits k-1, k, k+1, k-3, none; predefined entities x 4 scanners; cycles of length 1..6 x 5 sites x "
        "prefix 0/2 x 5 limits; exponential tables (4 levels x 8) x 5 sites x limits 100/1000. uri tier: see c19_uri.py. "
        "evaluations = number of (input, configuration) pairs run on the real library")
ASSUMPTIONS = ["skipDTDValidation and standardUriConformant are covered by the copy-list theorems (policy_setters_copied / "
               "every_setter_copied over the regenerated XMLScanner::setParseSettings) only, not by the correspondence",
               "an internal parameter entity carrying declarations is declared and referenced in the same external entity",
               "exit-on-first-fatal-error (the default): a fatal error ends the parse; the model stops there",
               "general and parameter entities have disjoint names in the generated documents (ReaderMgr::pushReader compares names only)",
               "entity references to undeclared entities are not generated for the IG/DG scanners (WF/SG: every non-predefined reference is EntityNotFound)",
               "SGXMLScanner forces fDoSchema/fDoNamespaces on: choosing it means schema processing, fgXercesSchema is not a gate there",
               "standard-URI-conformant mode, grammar caching (useCachedGrammar), externalSchemaLocation properties, "
               "handleMultipleImports and XInclude are not modelled",
               "default resolution on strings in the driver (XV.Driver.Ext.defaultSource) covers the reference shapes the tree generator "
               "produces; the component-level model with theorems is XV.Model.Uri",
               "the fetch-gate interpreter is correct by construction: its log type carries for every fetch the proof that the "
               "site was permitted and that the block came from mkBlock (XV.Model.ExtGate.Fetched)"]
TRUSTED = ["XV.Spec.Entity (Expands / SelfRef), XV.Spec.ExtGate (mayFetch switch table), XV.Spec.Uri (RFC 2396 5.2) as transcribed",
           "Python tree / document renderers and the independent RFC 2396 resolver used by the judge (tools/props/c19.py)"]

XSI = "http://www.w3.org/2001/XMLSchema-instance"
XS = "http://www.w3.org/2001/XMLSchema"
FAST = {"ASAN_OPTIONS": "detect_leaks=0:symbolize=0:allocator_may_return_null=1:hard_rss_limit_mb=1500", "UBSAN_OPTIONS": "print_stacktrace=0:halt_on_error=0"}

def hexs(s):
    return ".".join("%x" % ord(c) for c in s) if s else "-"

def run_parallel(harness, lines, timeout, nproc=None):
    """run_lines_resilient on contiguous chunks in parallel (the harness is stateless between lines)"""
    from concurrent.futures import ThreadPoolExecutor
    nproc = nproc or max(1, min(12, common.NCPU - 2))
    if len(lines) < 4 * nproc:
        return common.run_lines_resilient(harness, lines, env=FAST, timeout=timeout)
    common.build_harness(harness)
    size = (len(lines) + nproc - 1) // nproc
    chunks = [lines[k:k + size] for k in range(0, len(lines), size)]
    with ThreadPoolExecutor(len(chunks)) as ex:
        res = list(ex.map(lambda ch: common.run_lines_resilient(harness, ch, env=FAST, timeout=timeout), chunks))
    out, crashes, base = [], [], 0
    for ch, (o, c) in zip(chunks, res):
        out += o
        crashes += [(base + i, l, s) for i, l, s in c]
        base += len(ch)
    return out, crashes

# =====================================================================================================================
#  gate tier: file trees
# =====================================================================================================================
class Res:
    """one resource of a tree: an instance document, a DTD piece, an external parsed entity or a schema document"""
    def __init__(self, kind, path):
        self.kind, self.path = kind, path      # kind: doc | dtd | ent | schema ; path: canonical absolute path
        self.doctype = None                    # (sys or None, pub, [dtd items])
        self.dtd = []                          # dtd items: ("g"|"p", name, sys, pub) | ("r", name)
        self.body = []                         # ("e", name) | ("l", [(ns, loc)]) | ("n", loc)
        self.tns = ""
        self.xs = []                           # ("i", ns, loc) | ("c", loc) | ("d", loc)

class Tree:
    def __init__(self, root):
        self.root = root
        self.res = {}          # canonical path -> Res
        self.main = None
        self.lits = {}         # literal system id -> (container path, ctx, site, target key)   (literals are unique)
        self.unreach = set()   # http URLs referenced
        self.decoys = {}       # path -> text: same file name as a referenced entity, in a directory a WRONG base would lead to

def enc_dtd(items):
    out = []
    for it in items:
        if it[0] in "gp":
            out.append("%s:%s:%s:%s" % (it[0], hexs(it[1]), hexs(it[2]), hexs(it[3])))
        elif it[0] == "q":
            out.append("q:%s:%s" % (hexs(it[1]), hexs(enc_dtd(it[2]))))
        else:
            out.append("r:" + hexs(it[1]))
    return ",".join(out) or "-"

def enc_body(items):
    out = []
    for it in items:
        if it[0] == "e":
            out.append("e:" + hexs(it[1]))
        elif it[0] == "l":
            out.append("l:" + ">".join(hexs(a) + ">" + hexs(b) for a, b in it[1]))
        else:
            out.append("n:" + hexs(it[1]))
    return ",".join(out) or "-"

def enc_xs(items):
    out = []
    for it in items:
        if it[0] == "i":
            out.append("i:%s:%s" % (hexs(it[1]), hexs(it[2])))
        else:
            out.append("%s:%s" % (it[0], hexs(it[1])))
    return ",".join(out) or "-"

def enc_doctype(dt):
    if dt is None:
        return "-"
    sys, pub, items = dt
    return "%s^%s^%s" % ("~" if sys is None else hexs(sys), hexs(pub), enc_dtd(items))

def enc_content(r):
    if r.kind == "doc":
        return "D(%s|%s)" % (enc_doctype(r.doctype), enc_body(r.body))
    if r.kind == "dtd":
        return "T(%s)" % enc_dtd(r.dtd)
    if r.kind == "ent":
        return "E(%s)" % enc_body(r.body)
    return "S(%s|%s|%s|%s)" % (enc_doctype(r.doctype), hexs(r.tns), enc_xs(r.xs), enc_body(r.body))

# ------------------------------------------------------------------ rendering to XML text
def ext_id(sys, pub):
    return ('PUBLIC "%s" "%s"' % (pub, sys)) if pub else ('SYSTEM "%s"' % sys)

def render_inner(items):
    """DTD text inside the literal of an internal parameter entity: single quotes, % written as a character reference"""
    out = []
    for it in items:
        xid = ("PUBLIC '%s' '%s'" % (it[3], it[2])) if it[0] in "gp" and it[3] else ("SYSTEM '%s'" % it[2]) if it[0] in "gp" else ""
        if it[0] == "g":
            out.append("<!ENTITY %s %s>" % (it[1], xid))
        elif it[0] == "p":
            out.append("<!ENTITY &#37; %s %s>" % (it[1], xid))
        elif it[0] == "r":
            out.append("&#37;%s;" % it[1])
    return " ".join(out)

def render_dtd_items(items):
    out = []
    for it in items:
        if it[0] == "q":
            out.append('<!ENTITY %% %s "%s">' % (it[1], render_inner(it[2])))
        elif it[0] == "g":
            out.append("<!ENTITY %s %s>" % (it[1], ext_id(it[2], it[3])))
        elif it[0] == "p":
            out.append("<!ENTITY %% %s %s>" % (it[1], ext_id(it[2], it[3])))
        else:
            out.append("%%%s;" % it[1])
    return "\n".join(out)

def render_doctype(root, dt):
    if dt is None:
        return ""
    sys, pub, items = dt
    s = "<!DOCTYPE " + root
    if sys is not None:
        s += " " + ext_id(sys, pub)
    if items:
        s += " [\n" + render_dtd_items(items) + "\n]"
    return s + ">\n"

def render(r):
    if r.kind == "dtd":
        return "<!-- %s -->\n" % os.path.basename(r.path) + render_dtd_items(r.dtd) + "\n"
    if r.kind == "ent":
        return "t" + "".join("&%s;" % it[1] for it in r.body if it[0] == "e") + "u"
    if r.kind == "schema":
        s = '<?xml version="1.0"?>\n' + render_doctype("xs:schema", r.doctype)
        s += '<xs:schema xmlns:xs="%s"%s elementFormDefault="qualified">\n' % (XS, (' targetNamespace="%s" xmlns="%s"' % (r.tns, r.tns)) if r.tns else "")
        for it in r.xs:
            if it[0] == "i":
                s += '<xs:import namespace="%s" schemaLocation="%s"/>\n' % (it[1], it[2])
            elif it[0] == "c":
                s += '<xs:include schemaLocation="%s"/>\n' % it[1]
            else:
                s += '<xs:redefine schemaLocation="%s"/>\n' % it[1]
        ents = "".join("&%s;" % it[1] for it in r.body if it[0] == "e")
        if ents:
            s += "<xs:annotation><xs:documentation>%s</xs:documentation></xs:annotation>\n" % ents
        s += '<xs:element name="e%s" type="xs:string"/>\n</xs:schema>\n' % (sum(ord(c) for c in os.path.basename(r.path)) % 1000)
        return s
    # instance document
    s = '<?xml version="1.0"?>\n' + render_doctype("r", r.doctype)
    attrs = ' xmlns:xsi="%s"' % XSI
    k = 0
    while k < len(r.body) and r.body[k][0] in "ln":
        it = r.body[k]
        if it[0] == "l":
            attrs += ' xsi:schemaLocation="%s"' % " ".join(a + " " + b for a, b in it[1])
        else:
            attrs += ' xsi:noNamespaceSchemaLocation="%s"' % it[1]
        k += 1
    s += "<r%s>" % attrs
    for it in r.body[k:]:
        if it[0] == "e":
            s += "x&%s;y" % it[1]
        elif it[0] == "l":
            s += '<c xsi:schemaLocation="%s"/>' % " ".join(a + " " + b for a, b in it[1])
        else:
            s += '<c xsi:noNamespaceSchemaLocation="%s"/>' % it[1]
    return s + "</r>\n"

# ------------------------------------------------------------------ generation
DIRS = ["", "a", "a/b", "c", "c/d/e"]

class TreeGen:
    def __init__(self, rng, root, idx):
        self.r, self.root, self.idx = rng, root, idx
        self.t = Tree(root)
        self.n = 0

    def newpath(self, ext):
        self.n += 1
        d = self.r.choice(DIRS)
        return os.path.normpath(os.path.join(self.root, d, "f%d.%s" % (self.n, ext)))

    def literal(self, frm, to, allow_http=True, force_rel=False):
        """a system identifier written in `frm` (absolute path of the referrer) designating `to`"""
        r = self.r
        k = r.below(70) if force_rel else r.below(100)
        rel = os.path.relpath(to, os.path.dirname(frm))
        if k < 45:
            lit = rel
        elif k < 60:
            lit = "./" + rel
        elif k < 70:
            # detour through a sibling directory:  x/../rel
            lit = "zz/../" + rel
        elif k < 82:
            lit = to
        else:
            lit = "file://" + to
        return lit

    def ref(self, frm_res, ctx, site, to_path, http=False, missing=False, force_rel=False):
        if http:
            self.n += 1
            lit = "http://example.invalid/t%d/n%d.x" % (self.idx, self.n)
            self.t.unreach.add(lit)
            self.t.lits[lit] = (frm_res.path, ctx, site, lit)
            return lit
        lit = self.literal(frm_res.path, to_path, force_rel=force_rel)
        while lit in self.t.lits:      # same target referenced twice from the same place: vary the spelling
            lit = "./" + lit if not lit.startswith(("/", "file:")) else "file://" + lit if lit.startswith("/") else lit + ""
            if lit in self.t.lits:
                break
        self.t.lits[lit] = (frm_res.path, ctx, site, to_path)
        return lit

    def add(self, res):
        self.t.res[res.path] = res
        return res

    # -- DTD family
    def gen_ent(self, ctx, depth, declared):
        e = self.add(Res("ent", self.newpath("ent")))
        # nested references to already declared general entities
        if declared and self.r.chance(1, 3):
            e.body.append(("e", self.r.choice(declared)))
        return e

    def gen_dtd_items(self, holder, ctx, depth, gnames, pnames):
        """declarations + PE references inside `holder` (a doc's internal subset or a dtd resource)"""
        r = self.r
        items = []
        def emit(decl, target):
            """the declaration either stands in `holder` directly or is produced by the replacement text of an internal
            parameter entity (nested 1-2 levels) declared and referenced in `holder`: its base is still holder's URI"""
            if target is not None and r.chance(2, 5):
                self.nip = getattr(self, "nip", 0) + 1
                ip = "ip%d" % self.nip
                items.append(("q", ip, [decl]))
                if r.chance(1, 3):
                    self.nip += 1
                    ip2 = "ip%d" % self.nip
                    items.append(("q", ip2, [("r", ip)]))
                    ip = ip2
                items.append(("r", ip))
                # the same file name where a wrong base (document, sibling directory) would look for it
                for d in (self.root, os.path.join(self.root, "a"), os.path.join(self.root, "c")):
                    dp = os.path.join(d, os.path.basename(target))
                    if dp != target and dp not in self.t.res:
                        self.t.decoys[dp] = "DECOY" if decl[0] == "g" else "<!-- decoy -->"
            else:
                items.append(decl)
        for _ in range(r.below(3) + (1 if depth == 0 else 0)):
            k = r.below(10)
            pub = "-//XV//P%d" % self.n if r.chance(1, 4) else ""
            wrap = r.chance(2, 5)
            if k < 5:
                name = "g%d" % (len(gnames) + 1)
                http = r.chance(1, 14)
                if http:
                    lit = self.ref(holder, ctx, "generalEntity", None, http=True)
                    items.append(("g", name, lit, pub))
                else:
                    ent = self.gen_ent(ctx, depth, list(gnames))
                    if r.chance(1, 16):
                        del self.t.res[ent.path]          # missing file
                    lit = self.ref(holder, ctx, "generalEntity", ent.path, force_rel=wrap)
                    if wrap: emit(("g", name, lit, pub), ent.path)
                    else: items.append(("g", name, lit, pub))
                gnames.append(name)
            elif depth < 3:
                name = "p%d" % (len(pnames) + 1)
                pe = self.add(Res("dtd", self.newpath("pe")))
                lit = self.ref(holder, ctx, "paramEntity", pe.path, force_rel=wrap)
                pnames.append(name)
                if wrap: emit(("p", name, lit, pub), pe.path)
                else: items.append(("p", name, lit, pub))
                if r.chance(5, 6):
                    items.append(("r", name))
                pe.dtd = self.gen_dtd_items(pe, ctx, depth + 1, gnames, pnames)
        return items

    def gen_doctype(self, holder, ctx, gnames, pnames, rootname):
        r = self.r
        sys = None; pub = ""
        internal = self.gen_dtd_items(holder, ctx, 0, gnames, pnames) if r.chance(3, 4) else []
        if r.chance(3, 4):
            if r.chance(1, 12):
                sys = self.ref(holder, ctx, "extSubset", None, http=True)
            else:
                ext = self.add(Res("dtd", self.newpath("dtd")))
                sys = self.ref(holder, ctx, "extSubset", ext.path)
                pub = "-//XV//DTD %d" % self.n if r.chance(1, 3) else ""
                ext.dtd = self.gen_dtd_items(ext, ctx, 1, gnames, pnames)
        if sys is None and not internal:
            return None
        return (sys, pub, internal)

    # -- schema family
    def gen_schema(self, tns, depth, with_dtd):
        s = self.add(Res("schema", self.newpath("xsd")))
        s.tns = tns
        r = self.r
        if with_dtd and r.chance(1, 2):
            g, p = [], []
            s.doctype = self.gen_doctype(s, "S", g, p, "xs:schema")
            if g and r.chance(2, 3):
                s.body.append(("e", r.choice(g)))
        if depth < 3:
            for _ in range(r.below(3)):
                k = r.below(10)
                if k < 4:
                    inc = self.gen_schema(tns if r.chance(3, 4) else "", depth + 1, with_dtd)
                    s.xs.append(("c", self.ref(s, "S", "xsInclude", inc.path)))
                elif k < 8:
                    ns = "urn:n%d" % (self.n + 1)
                    if r.chance(1, 10):
                        s.xs.append(("i", ns, self.ref(s, "S", "xsImport", None, http=True)))
                    else:
                        imp = self.gen_schema(ns, depth + 1, with_dtd)
                        s.xs.append(("i", ns, self.ref(s, "S", "xsImport", imp.path)))
                else:
                    red = self.gen_schema(tns, depth + 1, False)
                    s.xs.append(("d", self.ref(s, "S", "xsRedefine", red.path)))
        return s

    def gen(self):
        r = self.r
        fam = r.below(10)          # 0-3 DTD, 4-6 schema, 7-9 both
        main = self.add(Res("doc", os.path.join(self.root, "main.xml")))
        self.t.main = main
        gnames, pnames = [], []
        if fam < 4 or fam >= 7:
            main.doctype = self.gen_doctype(main, "I", gnames, pnames, "r")
        if fam >= 4:
            with_dtd = r.chance(1, 3)
            if r.chance(1, 2):
                pairs = []
                for _ in range(1 + r.below(2)):
                    ns = "urn:t%d" % (self.n + 1)
                    if r.chance(1, 12):
                        pairs.append((ns, self.ref(main, "I", "schemaLocation", None, http=True)))
                    else:
                        sch = self.gen_schema(ns, 0, with_dtd)
                        if r.chance(1, 14):
                            del self.t.res[sch.path]
                        pairs.append((ns, self.ref(main, "I", "schemaLocation", sch.path)))
                main.body.append(("l", pairs))
            if r.chance(1, 2) or not main.body:
                sch = self.gen_schema("", 0, with_dtd)
                main.body.append(("n", self.ref(main, "I", "noNsSchemaLocation", sch.path)))
        for g in gnames:
            if r.chance(2, 3):
                main.body.append(("e", g))
        if gnames and r.chance(1, 3):
            main.body.append(("e", r.choice(gnames)))
        return self.t

def materialise(t):
    for r in t.res.values():
        os.makedirs(os.path.dirname(r.path), exist_ok=True)
        with open(r.path, "w") as f:
            f.write(render(r))
    for pth, txt in t.decoys.items():
        if pth not in t.res:
            os.makedirs(os.path.dirname(pth), exist_ok=True)
            with open(pth, "w") as f:
                f.write(txt)

SCANNERS = ["IG", "DG", "WF", "SG"]
def gen_cfgs(r, n):
    out = []
    for _ in range(n):
        out.append({"sc": SCANNERS[r.below(4)] if r.chance(2, 3) else "IG", "dd": r.below(2), "ld": r.below(2), "vs": r.choice("NAY"),
                    "ls": 1 if r.chance(3, 4) else 0, "ds": 1 if r.chance(3, 4) else 0, "ns": 1,
                    "res": r.choice(["none", "xml", "xml", "xml", "sax"]), "api": r.choice(["sax2", "dom", "sax1"]),
                    # ordered configuration history: the scanner switch happens before policy step sp (0 = first, 9 = after
                    # everything), optionally preceded by a switch to another scanner
                    "sp": r.choice([0, 0, 9, 9, 8, 6, 5, r.below(10)]), "pre": 1 if r.chance(1, 4) else 0})
    return out

def cfg_str(c):
    return ",".join("%s=%s" % (k, c.get(k, 0)) for k in ("sc", "dd", "ld", "vs", "ls", "ds", "ns", "res", "api", "sp", "pre"))

def gate_case(t, cfg, main_spelling, supply):
    """supply: list of (literal, path, bufId)"""
    res = ";".join("%s=%s" % (hexs(p), enc_content(r)) for p, r in sorted(t.res.items()))
    for u in sorted(t.unreach):
        res += ";%s=U" % hexs(u)
    msup = ";".join("%s>%s>%s" % (hexs(l), hexs(b), hexs(p)) for l, p, b in supply) or "-"
    hsup = ";".join("%s>%s>%s" % (l, p, b) for l, p, b in supply) or "-"
    model = "G %s %s %s %s %s" % (cfg_str(cfg), hexs(main_spelling), hexs(t.main.path), msup, res)
    impl = "G %s %s %s" % (cfg_str(cfg), main_spelling, hsup)
    return model, impl

# ------------------------------------------------------------------ the judge (property text on the implementation's trace)
def canon(p):
    """canonical location of a system id / opened path: strip file://, percent-decode, remove dot segments"""
    if p.startswith("file://"):
        p = p[7:]
        if not p.startswith("/"):
            p = p[p.find("/"):] if "/" in p else "/"
    if p.startswith(("http:", "https:", "ftp:")):
        return p
    out = ""
    i = 0
    while i < len(p):
        if p[i] == "%" and i + 2 < len(p) + 0 and all(c in "0123456789abcdefABCDEF" for c in p[i + 1:i + 3]) and len(p[i + 1:i + 3]) == 2:
            out += chr(int(p[i + 1:i + 3], 16)); i += 3
        else:
            out += p[i]; i += 1
    return os.path.normpath(out) if out.startswith("/") else out

def rfc_resolve(base, ref):
    """independent RFC 2396 5.2 resolution of a system identifier against a base (both strings); returns canonical target"""
    if ref.startswith(("http:", "https:", "ftp:", "file:")):
        return canon(ref)
    b = base
    scheme = ""
    for s in ("file://", "http://", "https://", "ftp://"):
        if b.startswith(s):
            scheme = s
            b = b[len(s):]
            auth = b[:b.find("/")] if "/" in b else b
            b = b[len(auth):] or "/"
            scheme += auth
            break
    if ref.startswith("/"):
        path = ref
    else:
        segs = b.split("/")[:-1] + ref.split("/")
        out = []
        for k, s in enumerate(segs):
            last = k == len(segs) - 1
            if s == ".":
                if last: out.append("")
                continue
            if s == ".." and len(out) > 1 and out[-1] != "..":
                out.pop()
                if last: out.append("")
                continue
            out.append(s)
        path = "/".join(out)
    if scheme and not scheme.startswith("file://"):
        return scheme + path
    return canon(path)

def parse_perm(line):
    d = {}
    for tok in line.split():
        k, v = tok.split("=")
        d[k] = (v[0] == "1", v[1] == "1")
    return d

def parse_trace(line):
    if " = " in line:
        evs, res = line.rsplit(" = ", 1)
    elif line.startswith("= "):
        evs, res = "", line[2:]
    else:
        return None, line
    out = []
    for e in evs.split():
        if e.startswith("R:"):
            f = e[2:].split("|")
            f += [""] * (5 - len(f))
            out.append(("R", f[0], f[1], "" if f[2] == "~" else f[2], "" if f[3] == "~" else f[3], "" if f[4] == "~" else f[4]))
        elif e.startswith(("O:", "N:", "W:")):
            out.append((e[0], e[2:]))
    return out, res

def canon_line(line):
    evs, res = parse_trace(line)
    if evs is None:
        return line
    return " ".join("|".join(e) for e in evs) + " = " + res

def judge_gate(t, cfg, perm, supply, line):
    """returns list of (key, text) — violations of the property text by the implementation's observation"""
    evs, res = parse_trace(line)
    bad = []
    if evs is None:
        return [("extgate-crash", "no trace: " + line[:200])]
    if res.startswith("exc:") and "FOREIGN" in res:
        bad.append(("extgate-foreign-exception", res))
    sup = {l: (p, b) for l, p, b in supply}
    main_seen = False
    prev = None
    for k, e in enumerate(evs):
        if e[0] == "W":
            bad.append(("extgate-file-written", "file opened for writing: " + e[1]))
        if e[0] in "ON":
            tgt = canon(e[1])
            if not main_seen and tgt == t.main.path:
                main_seen = True; prev = e; continue
            # which reference leads here?
            cands = [(lit, v) for lit, v in t.lits.items() if (v[3] == tgt)]
            if not cands:
                bad.append(("extgate-open-of-unreferenced-resource", "opened %s which no external identifier of the tree designates" % e[1]))
            else:
                ok = any(perm[("I." if v[1] == "I" else "S.") + v[2]][1] for _, v in cands)
                if not ok:
                    in_schema = all(v[1] == "S" and v[2] in ("extSubset", "paramEntity", "generalEntity") for _, v in cands)
                    key = "schema-doc-dtd-ignores-entity-settings" if in_schema else "extgate-forbidden-open:" + cands[0][1][2]
                    bad.append((key, "opened %s (site %s) although the configuration %s forbids default resolution there" % (
                        e[1], ",".join(sorted({v[1] + "." + v[2] for _, v in cands})), cfg_str(cfg))))
                if cfg["res"] != "none":
                    # resolver first: the event before must be the offer of an identifier that designates this resource
                    offer = prev if (prev is not None and prev[0] == "R" and t.lits.get(prev[2], (0, 0, 0, None))[3] == tgt) else None
                    if offer is None:
                        bad.append(("extgate-open-without-resolver-offer", "opened %s without a directly preceding resolver call for an identifier designating it" % e[1]))
                    else:
                        lit = offer[2]
                        if lit in sup:
                            bad.append(("extgate-resolver-source-ignored", "resolver supplied a source for %s but %s was opened" % (lit, e[1])))
                        if cfg["res"] == "xml" and rfc_resolve(offer[3], lit) != tgt:
                            bad.append(("extgate-wrong-resolution", "system id %s with base %s resolves (RFC 2396) to %s but %s was opened" % (
                                lit, offer[3], rfc_resolve(offer[3], lit), e[1])))
        if e[0] == "R":
            lit = e[2]
            if lit not in t.lits:
                bad.append(("extgate-resolver-offered-unknown-id", "resolver offered system id %s which is not an external identifier of the tree" % lit))
            else:
                cont, ctx, site, _ = t.lits[lit]
                if not perm[("I." if ctx == "I" else "S.") + site][0]:
                    in_schema = ctx == "S" and site in ("extSubset", "paramEntity", "generalEntity")
                    bad.append(("schema-doc-dtd-ignores-entity-settings" if in_schema else "extgate-forbidden-fetch:" + site,
                                "identifier %s (site %s.%s) offered to the resolver although %s forbids fetching it" % (lit, ctx, site, cfg_str(cfg))))
                if cfg["res"] == "xml" and canon(e[3]) != cont:
                    bad.append(("extgate-wrong-base", "identifier %s occurs in %s but the resolver was given base %s" % (lit, cont, e[3])))
        prev = e
    if cfg["dd"] == 1 and (cfg["res"] == "none" or not supply):
        extra = [e for e in evs if e[0] in "ON" and canon(e[1]) != t.main.path]
        if extra and not any(b[0].startswith(("extgate-forbidden-open", "schema-doc")) for b in bad):
            bad.append(("extgate-forbidden-open:disabled", "default resolution disabled and resolver declines, yet opened %s" % extra[0][1]))
    return bad

# ------------------------------------------------------------------ running the gate tier
def scratch_root(ctx):
    d = os.path.join(common.WORK, "c19", "s%d-%s-%d" % (ctx.seed, ctx.tier, os.getpid()))
    shutil.rmtree(d, ignore_errors=True)
    os.makedirs(d)
    return d

def choose_supply(r, t, cfg):
    if cfg["res"] == "none" or r.chance(1, 3):
        return []
    out = []
    for lit, (cont, ctx, site, tgt) in sorted(t.lits.items()):
        if tgt in t.res and r.chance(1, 2):
            out.append((lit, tgt, tgt if r.chance(1, 2) else "file://" + tgt))
    return out

def run_gate(ctx, ntrees=None, ncfg=None):
    r = ctx.rng
    root = scratch_root(ctx)
    ntrees = ntrees or (400 if ctx.thorough() else 70)
    ncfg = ncfg or (16 if ctx.thorough() else 10)
    cases = []          # (tree, cfg, supply, model line, impl line)
    try:
        for i in range(ntrees):
            t = TreeGen(r, os.path.join(root, "t%d" % i), i).gen()
            materialise(t)
            for cfg in gen_cfgs(r, ncfg):
                sup = choose_supply(r, t, cfg)
                main_sp = t.main.path if r.chance(3, 4) else "file://" + t.main.path
                m, h = gate_case(t, cfg, main_sp, sup)
                cases.append((t, cfg, sup, m, h))
        # fixed witnesses: schema document with a DOCTYPE while default resolution is disabled and the resolver supplies the schema
        cases += witness_cases(root)
        perms = {}
        cfgs = sorted({cfg_str(c[1]) for c in cases})
        po = common.run_driver(["extgate"], input=("\n".join("P " + c for c in cfgs) + "\n").encode()).decode().split("\n")
        for c, o in zip(cfgs, po):
            perms[c] = parse_perm(o)
        mo = common.run_driver(["extgate"], input=("\n".join(c[3] for c in cases) + "\n").encode()).decode().split("\n")
        io, crashes = run_parallel("hx_ext", [c[4] for c in cases], 900)
        nviol = {}
        first_corr = None
        hist = {}
        nontrivial = set()
        for k, (t, cfg, sup, ml, hl) in enumerate(cases):
            m = canon_line(mo[k]) if k < len(mo) else "NO-OUTPUT"
            i = canon_line(io[k]) if k < len(io) else "NO-OUTPUT"
            if mo[k] == "bad-op":
                raise common.InfraError("model rejected generated gate case: " + ml[:300])
            evs, res = parse_trace(io[k])
            hist[res.split(":")[0] + ":" + (res.split(":")[1] if ":" in res else "")] = hist.get(res.split(":")[0] + ":" + (res.split(":")[1] if ":" in res else ""), 0) + 1
            if evs and len(evs) > 1:
                nontrivial.add(i)
            bad = judge_gate(t, cfg, perms[cfg_str(cfg)], sup, io[k]) if not io[k].startswith("CRASH") else [("extgate-crash", io[k])]
            for key, text in bad:
                n, best = nviol.get(key, (0, None))
                if best is None or len(hl) + len(best[1]["tree"]) * 0 < len(best[1]["impl_line"]):
                    best = (text, replay_of(t, cfg, sup, ml, hl, m, i))
                nviol[key] = (n + 1, best)
            if m != i and not bad and first_corr is None:
                first_corr = (replay_of(t, cfg, sup, ml, hl, m, i), m, i)
        for key, (n, (text, rp)) in sorted(nviol.items()):
            ctx.violations.append({"key": key, "concrete": True, "what": "%s  [%d case(s)]" % (text, n), "replay": rp})
        if first_corr:
            ctx.violations.append({"key": "corr:extgate", "concrete": False,
                                   "what": "correspondence fetch-gate model vs implementation no longer checks: model=%s impl=%s" % (first_corr[1][:600], first_corr[2][:600]),
                                   "replay": first_corr[0]})
        ctx.stats["gate_cases"] = len(cases)
        ctx.stats["gate_trees"] = ntrees
        ctx.stats["gate_outcomes"] = hist
        ctx.stats["gate_distinct_traces"] = len(nontrivial)
        ctx.stats["gate_crashes"] = len(crashes)
        ctx.stats["gate_spec_violation_cases"] = {k: v[0] for k, v in nviol.items()}
        mid = cases[len(cases) // 3]
        ctx.samples.append({"cfg": cfg_str(mid[1]), "impl": canon_line(io[len(cases) // 3])[:500], "model": canon_line(mo[len(cases) // 3])[:500]})
        return len(cases), len(nontrivial)
    finally:
        shutil.rmtree(root, ignore_errors=True)
        try:
            os.rmdir(os.path.dirname(root))
        except OSError:
            pass

def replay_of(t, cfg, sup, ml, hl, m, i):
    tree = {os.path.relpath(p, t.root): render(r) for p, r in t.res.items()}
    tree.update({os.path.relpath(p, t.root): txt for p, txt in t.decoys.items() if p not in t.res})
    return {"op": "G", "cfg": cfg_str(cfg), "tree": tree,
            "root": t.root, "main": os.path.relpath(t.main.path, t.root), "supply": sup, "model_line": ml, "impl_line": hl,
            "model": m, "impl": i}

def witness_cases(root):
    out = []
    # W1: schema document with DOCTYPE (external subset, external PE, external GE); resolver supplies only the schema
    t = Tree(os.path.join(root, "w1"))
    main = Res("doc", os.path.join(t.root, "main.xml")); t.res[main.path] = main; t.main = main
    sch = Res("schema", os.path.join(t.root, "sub", "s.xsd")); t.res[sch.path] = sch
    d1 = Res("dtd", os.path.join(t.root, "sub", "deep", "e.dtd")); t.res[d1.path] = d1
    d2 = Res("dtd", os.path.join(t.root, "sub", "deep", "p.ent")); t.res[d2.path] = d2
    e1 = Res("ent", os.path.join(t.root, "sub", "deep", "g.ent")); t.res[e1.path] = e1
    main.body = [("n", "sub/s.xsd")]
    sch.doctype = ("deep/e.dtd", "", [("p", "p1", "deep/p.ent", ""), ("r", "p1"), ("g", "g1", "deep/g.ent", "")])
    sch.body = [("e", "g1")]
    t.lits = {"sub/s.xsd": (main.path, "I", "noNsSchemaLocation", sch.path), "deep/e.dtd": (sch.path, "S", "extSubset", d1.path),
              "deep/p.ent": (sch.path, "S", "paramEntity", d2.path), "deep/g.ent": (sch.path, "S", "generalEntity", e1.path)}
    materialise(t)
    for sc in ("IG", "SG"):
        for dd, ld in ((1, 0), (1, 1), (0, 0)):
            for api in ("sax2", "dom"):
                cfg = {"sc": sc, "dd": dd, "ld": ld, "vs": "N", "ls": 1, "ds": 1, "ns": 1, "res": "xml", "api": api}
                sup = [("sub/s.xsd", sch.path, sch.path)]
                m, h = gate_case(t, cfg, main.path, sup)
                out.append((t, cfg, sup, m, h))
    # W2: an external parameter entity that refers to an external parameter entity which cannot be opened
    t = Tree(os.path.join(root, "w2"))
    main = Res("doc", os.path.join(t.root, "main.xml")); t.res[main.path] = main; t.main = main
    p1 = Res("dtd", os.path.join(t.root, "p1.pe")); t.res[p1.path] = p1
    main.doctype = (None, "", [("p", "p1", "p1.pe", ""), ("r", "p1")])
    p1.dtd = [("p", "p2", "missing.pe", ""), ("r", "p2")]
    t.lits = {"p1.pe": (main.path, "I", "paramEntity", p1.path), "missing.pe": (p1.path, "I", "paramEntity", os.path.join(t.root, "missing.pe"))}
    materialise(t)
    for sc, api in (("IG", "sax2"), ("DG", "dom")):
        cfg = {"sc": sc, "dd": 0, "ld": 1, "vs": "N", "ls": 1, "ds": 0, "ns": 1, "res": "none", "api": api}
        m, h = gate_case(t, cfg, main.path, [])
        out.append((t, cfg, [], m, h))
    # W3: external entities declared through the replacement text of an internal parameter entity, in an external subset
    # that lives in another directory; the same file name exists next to the document with other content
    t = Tree(os.path.join(root, "w3"))
    main = Res("doc", os.path.join(t.root, "main.xml")); t.res[main.path] = main; t.main = main
    ext = Res("dtd", os.path.join(t.root, "dtd", "ext.dtd")); t.res[ext.path] = ext
    e1 = Res("ent", os.path.join(t.root, "dtd", "e.ent")); t.res[e1.path] = e1
    e2 = Res("ent", os.path.join(t.root, "dtd", "d.ent")); t.res[e2.path] = e2
    pe = Res("dtd", os.path.join(t.root, "dtd", "sub", "p.pe")); t.res[pe.path] = pe
    e3 = Res("ent", os.path.join(t.root, "dtd", "sub", "f.ent")); t.res[e3.path] = e3
    main.doctype = ("dtd/ext.dtd", "", [])
    main.body = [("e", "viaPE"), ("e", "direct"), ("e", "viaPE2")]
    ext.dtd = [("q", "decls", [("g", "viaPE", "e.ent", "")]), ("r", "decls"), ("g", "direct", "d.ent", ""),
               ("q", "d1", [("p", "xp", "sub/p.pe", "-//XV//W3")]), ("q", "d2", [("r", "d1")]), ("r", "d2"), ("r", "xp")]
    pe.dtd = [("q", "d3", [("g", "viaPE2", "f.ent", "")]), ("r", "d3")]
    t.lits = {"dtd/ext.dtd": (main.path, "I", "extSubset", ext.path), "e.ent": (ext.path, "I", "generalEntity", e1.path),
              "d.ent": (ext.path, "I", "generalEntity", e2.path), "sub/p.pe": (ext.path, "I", "paramEntity", pe.path),
              "f.ent": (pe.path, "I", "generalEntity", e3.path)}
    for d in (t.root, os.path.join(t.root, "dtd")):
        for n in ("e.ent", "f.ent"):
            if os.path.join(d, n) not in t.res:
                t.decoys[os.path.join(d, n)] = "DECOY"
    t.decoys[os.path.join(t.root, "sub", "p.pe")] = "<!-- decoy -->"
    materialise(t)
    for sc, api, res in (("IG", "dom", "xml"), ("DG", "sax2", "xml"), ("IG", "sax1", "none"), ("DG", "dom", "sax")):
        cfg = {"sc": sc, "dd": 0, "ld": 1, "vs": "N", "ls": 1, "ds": 0, "ns": 1, "res": res, "api": api, "sp": 0, "pre": 0}
        m, h = gate_case(t, cfg, main.path, [])
        out.append((t, cfg, [], m, h))
    # W4: every no-fetch policy set BEFORE the scanner is selected (and with a scanner switch on either side)
    t = Tree(os.path.join(root, "w4"))
    main = Res("doc", os.path.join(t.root, "main.xml")); t.res[main.path] = main; t.main = main
    ext = Res("dtd", os.path.join(t.root, "ext.dtd")); t.res[ext.path] = ext
    e1 = Res("ent", os.path.join(t.root, "secret.ent")); t.res[e1.path] = e1
    sch = Res("schema", os.path.join(t.root, "s.xsd")); t.res[sch.path] = sch
    main.doctype = ("ext.dtd", "", [("g", "x", "secret.ent", "")])
    main.body = [("n", "s.xsd"), ("e", "x")]
    t.lits = {"ext.dtd": (main.path, "I", "extSubset", ext.path), "secret.ent": (main.path, "I", "generalEntity", e1.path),
              "s.xsd": (main.path, "I", "noNsSchemaLocation", sch.path)}
    materialise(t)
    k = 0
    for sc in ("IG", "DG"):
        for api in ("dom", "sax1", "sax2"):
            for sp, pre in ((9, 0), (0, 0), (6, 1), (8, 0)):
                for dd, ld, ls, res in ((1, 1, 1, "none"), (1, 0, 0, "xml"), (0, 0, 0, "none")):
                    k += 1
                    if k % 2 and sp not in (9,):
                        continue
                    cfg = {"sc": sc, "dd": dd, "ld": ld, "vs": "N", "ls": ls, "ds": 1, "ns": 1, "res": res, "api": api, "sp": sp, "pre": pre}
                    m, h = gate_case(t, cfg, main.path, [])
                    out.append((t, cfg, [], m, h))
    return out

# =====================================================================================================================
#  expansion tier
# =====================================================================================================================
class EntDoc:
    """entity table + document segments; names: ("g", i) general, ("p", i) parameter"""
    def __init__(self):
        self.ge = []        # list of item lists; index = entity number; items ("c", ch) | ("s", ch) | ("r", ("g"|"p", i))
        self.pe = []
        self.segs = []      # (site, items)   site: attdef | pe_int | pe_ext | pe_ext_lit | attr | content
        self.note = ""

def mname(n):
    return 2 * n[1] if n[0] == "g" else 2 * n[1] + 1

def enc_items(items):
    out = []
    for it in items:
        if it[0] == "c": out.append("c%x" % ord(it[1]))
        elif it[0] == "s": out.append("s%x" % ord(it[1]))
        else: out.append("r%d" % mname(it[1]))
    return ",".join(out) or "-"

SPECIAL = {"&": "amp", "<": "lt", ">": "gt", "'": "apos", '"': "quot"}
def text_of(items, pe_value=False):
    """XML text of an item list; in a parameter-entity *value* nested PE references are written &#37;n; so that they are
    expanded when the entity is referenced, not when it is declared"""
    s = ""
    for it in items:
        if it[0] == "c": s += it[1]
        elif it[0] == "s": s += "&" + SPECIAL[it[1]] + ";"
        elif it[1][0] == "g": s += "&e%d;" % it[1][1]
        else: s += ("&#37;p%d;" if pe_value else "%%p%d;") % it[1][1]
    return s

def model_line(d, cs, limit):
    tbl = ";".join("%d=%s" % (mname(("g", i)), enc_items(v)) for i, v in enumerate(d.ge))
    tp = ";".join("%d=%s" % (mname(("p", i)), enc_items(v)) for i, v in enumerate(d.pe))
    tbl = ";".join(x for x in (tbl, tp) if x) or "-"
    doc = "/".join(("C:" if site == "content" else "A:") + enc_items(items) for site, items in d.segs) or "-"
    return "X %d %s %s %s" % (cs, "-" if limit is None else limit, tbl, doc)

def render_ent_doc(d):
    """returns (main document text, {name: external text})"""
    internal = []; ext = []
    for i, v in enumerate(d.ge):
        internal.append('<!ENTITY e%d "%s">' % (i, text_of(v)))
    use_ext = any(site.startswith("pe_ext") for site, _ in d.segs)
    pe_decl = ext if use_ext else internal
    for i, v in enumerate(d.pe):
        body = text_of(v, pe_value=True)
        pe_decl.append('<!ENTITY %% p%d "%s">' % (i, body if (v or True) and any(it[0] == "r" for it in v) else "<!--c-->"))
    attr = ""; content = ""; k = 0
    for site, items in d.segs:
        if site == "attdef":
            internal.append('<!ATTLIST r d CDATA "%s">' % text_of(items))
        elif site == "attr":
            attr = ' a="%s"' % text_of(items)
        elif site == "content":
            content += text_of(items)
        elif site == "pe_int":
            internal.append(text_of(items))
        elif site == "pe_ext":
            ext.append(text_of(items))
        elif site == "pe_ext_lit":
            k += 1
            ext.append('<!ENTITY %% q%d "%s">' % (k, text_of(items)))      # references expanded while the literal is scanned
    has_dtd = bool(internal or ext)
    s = ""
    if has_dtd:
        s += "<!DOCTYPE r" + (' SYSTEM "ext.dtd"' if use_ext else "")
        if internal:
            s += " [\n" + "\n".join(internal) + "\n]"
        s += ">\n"
    s += "<r%s>%s</r>" % (attr, content)
    return s, ({"ext.dtd": "\n".join(ext) + "\n"} if use_ext else {})

def impl_line(d, sc, api, limit):
    doc, exts = render_ent_doc(d)
    sup = ";".join("%s>%s" % (n, hexs(t)) for n, t in exts.items()) or "-"
    h = sum(ord(c) for c in doc) + (limit or 0)
    cfg = "sc=%s,api=%s,ns=1,ds=0,vs=N,res=%s,sp=%d,pre=%d" % (sc, api, "xml" if exts else "none", (0, 9, 7, 6, 9, 0, 8)[h % 7], 1 if h % 5 == 0 else 0)
    return "X %s %s %s %s" % (cfg, "-" if limit is None else limit, hexs(doc), sup)

class EntGen:
    def __init__(self, rng):
        self.r = rng

    def text_needing(self, d, kind, k, depth=0):
        """items whose processing expands exactly k references of `kind` ("g"/"p")"""
        r = self.r
        pool = d.ge if kind == "g" else d.pe
        items = []
        if k > 0:
            m = 1 + r.below(min(k, 3))
            rest = k - m
            parts = [0] * m
            for _ in range(rest):
                parts[r.below(m)] += 1
            for p in parts:
                # an entity needing exactly p expansions
                cands = [i for i, v in enumerate(pool) if self.need(d, kind, i) == p]
                if cands and r.chance(1, 2):
                    i = r.choice(cands)
                else:
                    v = self.text_needing(d, kind, p, depth + 1)
                    pool.append(v); i = len(pool) - 1
                if kind == "g" and r.chance(1, 2):
                    items.append(("c", r.choice("abcxyz")))
                items.append(("r", (kind, i)))
        if kind == "g" and (not items or r.chance(1, 2)):
            items.append(("c", r.choice("abcxyz")))
        return items

    def need(self, d, kind, i, memo=None):
        pool = d.ge if kind == "g" else d.pe
        return sum(1 + self.need(d, it[1][0], it[1][1]) for it in pool[i] if it[0] == "r")

    def gen_counted(self, k):
        r = self.r
        d = EntDoc()
        fam = r.below(10)
        if fam < 6:
            # general entities over attdef|attr + content
            a = r.below(k + 1) if r.chance(1, 2) else 0
            if a or r.chance(1, 4):
                site = "attdef" if r.chance(1, 2) else "attr"
                d.segs.append((site, self.text_needing(d, "g", a)))
            d.segs.append(("content", self.text_needing(d, "g", k - a)))
            d.note = "ge"
        elif fam < 8:
            d.segs.append(("pe_int", self.text_needing(d, "p", k)))
            d.segs.append(("content", [("c", "t")]))
            d.note = "pe-int"
        else:
            a = r.below(k + 1)
            if a:
                d.segs.append(("pe_ext_lit", self.text_needing(d, "p", a)))
            d.segs.append(("pe_ext", self.text_needing(d, "p", k - a)))
            d.segs.append(("content", [("c", "t")]))
            d.note = "pe-ext"
        return d

    def gen_cycle(self, n, site, prefix):
        """cycle of length n reached through `prefix` acyclic steps, referenced at `site`"""
        d = EntDoc()
        kind = "p" if site.startswith("pe") else "g"
        pool = d.ge if kind == "g" else d.pe
        for i in range(prefix):
            pool.append([("r", (kind, i + 1))] + ([("c", "v")] if kind == "g" else []))
        for i in range(n):
            nxt = prefix + (i + 1) % n
            pool.append(([("c", "w")] if kind == "g" else []) + [("r", (kind, nxt))])
        start = [("r", (kind, 0))]
        if site in ("attdef", "attr"):
            d.segs.append((site, start)); d.segs.append(("content", [("c", "t")]))
        elif site == "content":
            d.segs.append(("content", [("c", "t")] + start))
        else:
            d.segs.append((site, start)); d.segs.append(("content", [("c", "t")]))
        d.note = "cycle%d-%s" % (n, site)
        return d

    def gen_laughs(self, levels, fan, site):
        d = EntDoc()
        kind = "p" if site.startswith("pe") else "g"
        pool = d.ge if kind == "g" else d.pe
        pool.append([("c", "x")] if kind == "g" else [])
        for i in range(levels):
            pool.append([("r", (kind, i))] * fan)
        start = [("r", (kind, levels))]
        if site == "content":
            d.segs.append(("content", start))
        else:
            d.segs.append((site, start)); d.segs.append(("content", [("c", "t")]))
        d.note = "laughs-%s" % site
        return d

def parse_x(o):
    f = o.split()
    d = {"verdict": f[0] if f else "NO-OUTPUT"}
    for t in f[1:]:
        if "=" in t:
            k, v = t.split("=", 1); d[k] = v
        else:
            d.setdefault("opens", []).append(t)
    return d

def run_expand(ctx):
    r = ctx.rng
    g = EntGen(r)
    cases = []    # (doc, sc, api, limit, kind)
    big = ctx.thorough()
    reps = 6 if big else 2
    for k in range(0, 14):
        for _ in range(reps):
            d = g.gen_counted(k)
            for L in sorted(({k - 1, k, k + 1, max(0, k - 3)} if big else {k - 1, k, k + 1}) - {-1}) + [None]:
                cases.append((d, "IG" if r.chance(2, 3) else "DG", r.choice(["sax2", "dom"]), L, "counted"))
    # predefined entities only: all four scanners
    for k in range(0, 6 if big else 4):
        d = EntDoc(); d.segs.append(("content", [("c", "a")] + [("s", r.choice("&<>'\""))] * k)); d.note = "specials"
        for sc in SCANNERS:
            for L in sorted({k - 1, k, k + 1} - {-1}) + [None]:
                cases.append((d, sc, "sax2", L, "specials"))
    sites = ["content", "attr", "attdef", "pe_int", "pe_ext"]
    for n in range(1, 7):
        for site in sites:
            for prefix in ((0, 2) if big else ((0,) if n % 2 else (2,))):
                d = g.gen_cycle(n, site, prefix)
                for L in ((None, 0, 1, n + prefix, 50) if big else (None, 1, 50)):
                    cases.append((d, "IG" if (n + prefix) % 2 else "DG", "sax2" if n % 2 else "dom", L, "cycle"))
    for site in sites:
        d = g.gen_laughs(4 if big else 3, 8, site)
        for L in (50, 200):
            cases.append((d, "IG", "sax2", L, "laughs"))
            if big:
                cases.append((d, "DG", "dom", L, "laughs"))
    mlines = []; hlines = []
    for d, sc, api, L, kind in cases:
        cs = 1 if sc in ("WF", "SG") else 0
        mlines.append(model_line(d, cs, L))
        mlines.append(model_line(d, cs, None))
        hlines.append(impl_line(d, sc, api, L))
    mo = common.run_driver(["extgate"], input=("\n".join(mlines) + "\n").encode()).decode().split("\n")
    io, crashes = run_parallel("hx_ext", hlines, 400)
    bad = {}
    first_corr = None
    hist = {}
    for k, (d, sc, api, L, kind) in enumerate(cases):
        m = parse_x(mo[2 * k]); free = parse_x(mo[2 * k + 1]); i = parse_x(io[k] if k < len(io) else "NO-OUTPUT")
        if mo[2 * k] == "bad-op":
            raise common.InfraError("model rejected generated expansion case " + mlines[2 * k][:300])
        hist[kind + ":" + i["verdict"]] = hist.get(kind + ":" + i["verdict"], 0) + 1
        def add(key, text):
            cur = bad.get(key)
            size = len(hlines[k])
            if cur is None or size < cur[2]:
                bad[key] = (text, {"op": "X", "note": d.note, "scanner": sc, "api": api, "limit": L, "document": render_ent_doc(d)[0],
                                   "external": render_ent_doc(d)[1], "impl_line": hlines[k], "model_line": mlines[2 * k],
                                   "impl": io[k] if k < len(io) else "NO-OUTPUT", "model": mo[2 * k], "needed_expansions": free.get("count")}, size,
                            (cur[3] + 1) if cur else 1)
            else:
                bad[key] = (cur[0], cur[1], cur[2], cur[3] + 1)
        iv = i["verdict"]
        where = "dtd" if any(s in ("attdef", "pe_int", "pe_ext", "pe_ext_lit") and any(it[0] == "r" for it in items) for s, items in d.segs) else "doc"
        if iv.startswith("CRASH") or iv == "NO-OUTPUT":
            add("expansion-crash-or-hang", "%s: %s" % (d.note, io[k][:200] if k < len(io) else "no output"))
            continue
        needed = int(free.get("count", "0"))
        acyclic = free["verdict"] == "ok"
        # --- the property, judged on the implementation's observation
        if acyclic and L is not None:
            if needed > L and not iv.startswith("fatal"):
                add("entity-expansion-limit-not-enforced-in-dtd" if where == "dtd" else "entity-expansion-limit-not-enforced",
                    "%s: needs %d expansions, limit %d, but no fatal error (%s scanner): %s" % (d.note, needed, L, sc, io[k][:120]))
            if needed <= L and iv != "ok":
                add("entity-expansion-within-limit-rejected", "%s: needs %d expansions, limit %d, yet %s" % (d.note, needed, L, iv))
        if acyclic and (L is None or needed <= L) and iv == "ok":
            if (i.get("n"), i.get("h")) != (free.get("n"), free.get("h")):
                add("entity-expansion-content-differs", "%s: delivered content n=%s h=%s, expansion semantics n=%s h=%s" % (
                    d.note, i.get("n"), i.get("h"), free.get("n"), free.get("h")))
        if not acyclic and free["verdict"] == "fatal:recursive" and not iv.startswith("fatal"):
            add("entity-recursion-not-reported", "%s: self-referential entity not reported: %s" % (d.note, io[k][:120]))
        if L is not None and int(i.get("se", "0")) > L + 1:
            add("entity-expansion-overrun", "%s: %s entity starts with limit %d" % (d.note, i.get("se"), L))
        if i.get("opens"):
            add("expansion-unexpected-open", "%s: in-memory parse opened %s" % (d.note, i["opens"]))
        # --- exact correspondence with the model
        mm = (m["verdict"], m.get("se")) + ((m.get("n"), m.get("h")) if m["verdict"] == "ok" else ())
        ii = (iv, i.get("se")) + ((i.get("n"), i.get("h")) if iv == "ok" else ())
        if mm != ii and first_corr is None:
            first_corr = (k, mm, ii)
    for key, (text, rp, _, n) in sorted(bad.items()):
        ctx.violations.append({"key": key, "concrete": True, "what": "%s  [%d case(s)]" % (text, n), "replay": rp})
    if first_corr and not bad:
        k = first_corr[0]
        ctx.violations.append({"key": "corr:entity-expansion", "concrete": False,
                               "what": "correspondence entity-expansion model vs implementation no longer checks: %s model=%s impl=%s" % (
                                   cases[k][0].note, first_corr[1], first_corr[2]),
                               "replay": {"op": "X", "impl_line": hlines[k], "model_line": mlines[2 * k], "document": render_ent_doc(cases[k][0])[0]}})
    ctx.stats["expansion_cases"] = len(cases)
    ctx.stats["expansion_outcomes"] = hist
    ctx.stats["expansion_crashes"] = len(crashes)
    ctx.samples.append({"document": render_ent_doc(cases[7][0])[0][:300], "limit": cases[7][3], "impl": io[7], "model": mo[14]})
    return len(cases), len({h for h in hlines})


# =====================================================================================================================
#  crash diagnosis, entry points
# =====================================================================================================================
def diagnose(line):
    """re-run one case alone and summarise the sanitizer report (the batch summary shows UBSan noise first)"""
    try:
        p = common.run_harness("hx_ext", input=(line + "\n").encode(), timeout=120, env={"ASAN_OPTIONS": "detect_leaks=0"})
    except subprocess.TimeoutExpired:
        return "hang", "TIMEOUT (120 s) on a single case"
    err = p.stderr.decode(errors="replace")
    kind = None; frames = []
    for l in err.split("\n"):
        if "ERROR: AddressSanitizer:" in l and kind is None:
            kind = l.split("ERROR: AddressSanitizer:")[1].split(" on ")[0].strip().split()[0]
        if l.strip().startswith("#") and "/repo/src/" in l and len(frames) < 4:
            frames.append(l.strip().split(" in ", 1)[-1][:140])
        if "SUMMARY: AddressSanitizer" in l:
            break
    if kind is None:
        return ("exit-%d" % p.returncode), err[-300:]
    return kind, "AddressSanitizer %s: %s" % (kind, " <- ".join(frames))

def fix_crash_keys(ctx):
    """turn the generic crash key into a category derived from the sanitizer report of the smallest crashing case"""
    for v in ctx.violations:
        if v["key"] in ("extgate-crash", "expansion-crash-or-hang"):
            line = v["replay"].get("impl_line")
            keep_tree = v["replay"].get("tree")
            kind, text = ("unknown", "")
            if line and keep_tree is not None:
                root = v["replay"]["root"]
                try:
                    for rel, txt in keep_tree.items():
                        pth = os.path.join(root, rel); os.makedirs(os.path.dirname(pth), exist_ok=True)
                        open(pth, "w").write(txt)
                    kind, text = diagnose(line)
                finally:
                    shutil.rmtree(root, ignore_errors=True)
            elif line:
                kind, text = diagnose(line)
            if kind == "heap-use-after-free" and "getLastExtEntity" in text:
                v["key"] = "uaf-entity-decl-after-exception-in-external-pe"
            else:
                v["key"] = v["key"] + ":" + kind
            v["what"] = text + " | " + v["what"]

def correspondence(ctx):
    import time
    t0 = time.time()
    a, an = run_gate(ctx)
    t1 = time.time()
    b, bn = run_expand(ctx)
    t2 = time.time()
    c = 0
    try:
        from props import c19_uri
    except ImportError:
        import c19_uri
    c = c19_uri.run_uri(ctx, common, env=FAST) or 0
    t3 = time.time()
    fix_crash_keys(ctx)
    ctx.stats["wall_s"] = {"gate": round(t1 - t0, 1), "expansion": round(t2 - t1, 1), "uri": round(t3 - t2, 1), "diagnose": round(time.time() - t3, 1)}
    try:
        os.rmdir(os.path.join(common.WORK, "c19"))
    except OSError:
        pass
    ctx.stats["evaluations"] = a + b + c
    ctx.stats["distinct_nontrivial"] = an + bn + int(ctx.stats.get("uri_judged", 0))

def search(ctx, broken):
    # the correspondence already judges every implementation observation with the Spec (switch table, independent RFC 2396
    # resolver, proved expansion model); a broken theorem or translator tie adds no further input to try.
    if broken.get("kind") == "translator" or "errors_are_fatal" in str(broken.get("name", "")):
        # the severity tie: does a recursion / limit error still end the parse?
        d = EntGen(ctx.rng).gen_cycle(2, "content", 0)
        out, _ = common.run_lines_resilient("hx_ext", [impl_line(d, "IG", "sax2", None), impl_line(EntGen(ctx.rng).gen_laughs(2, 3, "content"), "IG", "sax2", 2)], env=FAST, timeout=120)
        for o, what in zip(out, ("recursive entity", "entity expansion limit")):
            if not o.startswith("fatal"):
                return {"key": "entity-error-not-fatal", "concrete": True,
                        "what": "%s is no longer reported as a fatal error: %s" % (what, o), "replay": {"op": "X", "impl": o}}
    return None

def replay(ctx, path):
    rp = json.load(open(path))["replay"]
    op = rp.get("op")
    if op == "G":
        root = rp["root"]
        try:
            for rel, txt in rp["tree"].items():
                pth = os.path.join(root, rel); os.makedirs(os.path.dirname(pth), exist_ok=True)
                open(pth, "w").write(txt)
            m = common.run_driver(["extgate"], input=(rp["model_line"] + "\n").encode()).decode().strip()
            i, _ = common.run_lines_resilient("hx_ext", [rp["impl_line"]], env=FAST, timeout=300)
            perm = common.run_driver(["extgate"], input=("P " + rp["cfg"] + "\n").encode()).decode().strip()
            print("config :", rp["cfg"]); print("main   :", os.path.join(root, rp["main"])); print("resolver supplies (literal, file, bufId):", rp["supply"])
            for rel, txt in sorted(rp["tree"].items()):
                print("--- %s\n%s" % (rel, txt.rstrip()))
            print("model  :", canon_line(m)); print("impl   :", canon_line(i[0])); print("spec   : mayFetch/mayOpen =", perm)
        finally:
            shutil.rmtree(root, ignore_errors=True)
    elif op == "X":
        m = common.run_driver(["extgate"], input=(rp["model_line"] + "\n").encode()).decode().strip() if rp.get("model_line") else "-"
        i, _ = common.run_lines_resilient("hx_ext", [rp["impl_line"]], env=FAST, timeout=300)
        print("document:\n" + rp.get("document", "")); print("limit  :", rp.get("limit"), " needs:", rp.get("needed_expansions"))
        print("model  :", m); print("impl   :", i[0])
    else:
        try:
            from props import c19_uri
        except ImportError:
            import c19_uri
        c19_uri.replay_uri(ctx, common, rp, env=FAST)
    return 0
