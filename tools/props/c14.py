"""C14 - live lists, iterators, walkers and ranges stay consistent under mutation.
Theorems: XV.Props.C14 (on the C13 reference store: NodeIterator steps / removal fix-up = the position functions of DOM
Traversal 1.1.1 and are total, TreeWalker = the logical view, getElementsByTagName caches are transparent, Range fix-ups =
DOM Range 2.12 and keep ranges valid, compareBoundaryPoints is the order of the linearised tree, content operations).
Correspondence: C13 operation histories (its generator, its handles, its structural dump) interleaved with creation,
stepping and querying of several simultaneously live NodeIterators, TreeWalkers (whatToShow masks, accept/skip/reject
filters), tag-name lists and Ranges, executed on the real DOM (harness/hx_views.cpp) and on the Lean model (xvdriver views);
after EVERY operation the observable state of every live view is dumped on both sides.
The judge of a disagreement is the specification, checked here DIRECTLY on the implementation's dumps and independently of
the model (`judge_history`): lists = the matching elements of the CURRENT tree in document order; an iterator returns the
next/previous accepted node of its position and never a node outside its root; a walker navigates the logical view;
range boundary points stay valid after every operation and move as DOM Range 2.12 says; toString / compareBoundaryPoints /
clone / extract / deleteContents against a second, Python reference."""
import copy, importlib.util, json, os, subprocess, sys, time
import common

PID = "C14"
GEN = ["KidOK"]
LEAN_MODULE = "XV.Props.C14"
THEOREMS = ["XV.Props.C14." + t for t in (
    "iterator_next_spec", "iterator_prev_spec", "iterator_remove_spec", "iterator_remove_outside", "iterator_in_subtree",
    "iterator_remove_leaves_subtree", "iterator_total",
    "walker_std_of_rule", "walker_std_of_code", "walker_next_spec", "walker_eq_filter", "walker_child_sibling_parent_spec",
    "walker_eq_filter_code_partial", "walker_code_deviates", "split_code_breaks_validity",
    "split_detached_code_breaks_validity", "insertNode_code_raises_after_split",
    "deeplist_item_spec", "deeplist_length_spec", "deeplist_step", "deeplist_cache_transparent",
    "range_fixup_spec", "insertedText_asIs_wrong", "bounds_insertData", "bounds_deleteData", "bounds_setData",
    "bounds_removeChild", "bounds_insertBefore", "range_valid_preserved_partial", "compareBoundaryPoints_order",
    "clone_pure", "extract_eq_clone_then_delete_partial", "toString_spec_partial")]
RULE = ("histories = 'reset k' + operation lines of the C13 protocol + view operation lines (ni/nn/np/nd, tw/w*/wsc, gl/ll/li/lq, "
        "rc/rss/rse/rsb/rsa/reb/rea/rco/rsn/rsc/rcb/rts/rdc/rex/rcl/rin/rsu/rdt); exhaustive tier: a fixed prefix that builds "
        "a{b{T},c{U},comment} and creates 2 stepped iterators, 3 walkers, 2 tag-name lists and 2 ranges (one with both "
        "boundary points inside text), followed by every sequence of <= 2 operations from a list of mutations and view "
        "operations; random tier: C13's generator with view operations injected between its operations (several views of each "
        "kind alive, roots/reference nodes/boundary points anywhere incl. inside text that is split, merged, deleted and in "
        "subtrees that are removed), total length ~150 (quick) / ~800 (thorough); an evaluation = one operation executed and "
        "dumped (tree + all views) on both sides; non-trivial = the operation changed the dump or a view, or raised; distinct by "
        "(operation line, digest before it)")
ASSUMPTIONS = ["the assumptions of C13 (ASCII names/data, no DocumentType/Entity/Notation, no NS methods)",
               "expandEntityReferences = true; entity references are empty and read-only; range content operations are not "
               "exercised on ranges whose common ancestor holds an EntityReference or whose root container is not a Document / "
               "DocumentFragment / Attr (DOM Range 2.2), nor insertNode/surroundContents with a Comment/PI start container "
               "(non-standard splitText of those); surroundContents is exercised with an Element that can be inserted at the "
               "start point (otherwise the library raises after having extracted the contents); selectNode(Contents) only "
               "with nodes of the range's document",
               "views that refer to a node released by the library (old attribute values, removed attributes) are dead on both sides",
               "getElementById, NS variants of getElementsByTagName and XPath evaluation are not exercised",
               "two Lean configurations of one model are run on every history: the code-shaped model (cfgCode) mirrors the code "
               "as it is, including the two behaviours that contradict DOM Traversal / DOM Range but are pinned by the library's "
               "own test-suite (TreeWalker consults the filter for nodes hidden by whatToShow; splitText leaves a point directly "
               "after the node between the halves) and must agree with the implementation on every line; the Spec-rule model "
               "(cfgSpec) selects the histories handed to the Python judge, which reports those two as concrete violations "
               "(open known findings); where the specifications leave a point open (position of a boundary point directly after "
               "a split Text node while the range stays valid) a difference from the Spec-rule model is not a violation"]
TRUSTED = ["tools/props/c14.py judge_history (DOM Traversal 1.1.1/1.2, DOM Range 2.5/2.12 and content operations as transcribed)"]

# ----------------------------------------------------------------------------- a private instance of the C13 module
def _load_c13():
    path = os.path.join(os.path.dirname(os.path.abspath(__file__)), "c13.py")
    spec = importlib.util.spec_from_file_location("props._c13_for_c14", path)
    m = importlib.util.module_from_spec(spec)
    spec.loader.exec_module(m)
    return m

K = _load_c13()
K.AREA, K.AREA_FULL, K.AREA_GEN, K.HARNESS = "views", "viewsfull", "viewsgen", "hx_views"
_c13_split_out = K.split_out
# `views*`  = the model that mirrors the code as it is (XV.Driver.Views.cfgCode): must agree with the implementation everywhere
# `viewsspec*` = the rule of the specifications everywhere (cfgSpec): a history on which the implementation differs from it is
#                handed to the Python specification judge (which knows nothing of either model)
AREA_SPEC, AREA_SPEC_FULL = "viewsspec", "viewsspecfull"

def run_model_spec(hists, full=False):
    from concurrent.futures import ThreadPoolExecutor
    area = AREA_SPEC_FULL if full else AREA_SPEC
    res = [None] * len(hists)
    with ThreadPoolExecutor(K.NPAR) as ex:
        futs = [(idx, ex.submit(K._run_model_chunk, area, [hists[j] for j in idx])) for idx in K._chunks(hists, K.NPAR)]
        for idx, fu in futs:
            for j, r in zip(idx, fu.result()):
                res[j] = r
    return res

def split3(line):
    """full-mode line -> (result, tree dump, views dump)"""
    res, d = _c13_split_out(line)
    if d is None:
        return res, None, None
    if " # " in d:
        t, v = d.split(" # ", 1)
        return res, t, v
    if d.endswith(" #"):
        return res, d[:-2], ""
    return res, d, ""

def _split_tree_only(line):
    r, t, _ = split3(line)
    return r, t

K.split_out = _split_tree_only
VIEW_CREATING = ("ni", "tw", "gl", "rc", "rex", "rcl", "rin", "rsu", "lmode")
K.CREATING = tuple(K.CREATING) + VIEW_CREATING
K.key_of = lambda cat: "views:" + cat

hx, unhx = K.hx, K.unhx
K_ELEM, K_ATTR, K_TEXT, K_CDATA, K_EREF, K_ENT, K_PI, K_COMM, K_DOC, K_DT, K_FRAG, K_NOT = range(1, 13)
TEXTLIKE = (K_TEXT, K_CDATA, K_COMM, K_PI)
CHARTEXT = (K_TEXT, K_CDATA)

# ----------------------------------------------------------------------------- tree helpers on a parsed dump
def kids(nodes, x):
    return [c for c in nodes[x].children if c in nodes] if x in nodes else []

def doc_order(nodes, root):
    out, stack, guard = [], [root], 0
    while stack and guard < 100000:
        x = stack.pop(); guard += 1
        out.append(x)
        stack.extend(reversed(kids(nodes, x)))
    return out

def ancestors(nodes, x):
    out, k = [], 0
    a = nodes[x].parent if x in nodes else None
    while a is not None and a in nodes and k <= len(nodes):
        out.append(a); a = nodes[a].parent; k += 1
    return out

def root_of(nodes, x):
    a = ancestors(nodes, x)
    return a[-1] if a else x

def is_anc_of(nodes, a, b):
    return a == b or a in ancestors(nodes, b)

def node_name(n):
    return unhx(n.name) if n.name != "#" else "#"

def length_of(nodes, x):
    n = nodes[x]
    return len(n.value or "") if n.kind in TEXTLIKE else len(kids(nodes, x))

def weight(nodes, x):
    n = nodes[x]
    if n.kind in TEXTLIKE:
        return 2 + len(n.value or "")
    return 2 + sum(weight(nodes, c) for c in kids(nodes, x))

def inner_pos(nodes, x, o):
    if nodes[x].kind in TEXTLIKE:
        return 1 + o
    return 1 + sum(weight(nodes, c) for c in kids(nodes, x)[:o])

def bp_key(nodes, c, o):
    p = inner_pos(nodes, c, o)
    x = c
    for a in ancestors(nodes, c):
        p += inner_pos(nodes, a, kids(nodes, a).index(x)); x = a
    return p

# ----------------------------------------------------------------------------- Spec: filters
ACCEPT, SKIP, REJECT = 1, 2, 3

def shown(w, kind):
    return (w >> (kind - 1)) & 1 == 1

def filter_verdict(f, n):
    elem_b = n.kind == K_ELEM and node_name(n) == "b"
    if f == 1: return SKIP if elem_b else ACCEPT
    if f == 2: return REJECT if elem_b else ACCEPT
    if f == 3: return ACCEPT if n.kind == K_TEXT else SKIP
    return ACCEPT

def iter_accepts(w, f, n):
    return shown(w, n.kind) and (f == 0 or filter_verdict(f, n) == ACCEPT)

def walker_verdict(w, f, n, asis=False):
    """DOM Traversal 1.2: whatToShow first; a node it hides is skipped and the filter is not consulted"""
    if shown(w, n.kind):
        return ACCEPT if f == 0 else filter_verdict(f, n)
    if asis and f != 0 and filter_verdict(f, n) == REJECT:
        return REJECT
    return SKIP

# ----------------------------------------------------------------------------- Spec: the logical view of a TreeWalker
class View:
    def __init__(self, nodes, root, w, f, asis=False):
        self.nodes, self.root, self.w, self.f, self.asis = nodes, root, w, f, asis
    def v(self, x):
        return walker_verdict(self.w, self.f, self.nodes[x], self.asis)
    def vkids(self, x, depth=0):
        out = []
        if depth > 5000: return out
        for c in kids(self.nodes, x):
            vd = self.v(c)
            if vd == ACCEPT: out.append(c)
            elif vd == SKIP: out += self.vkids(c, depth + 1)
        return out
    def vorder(self, x, depth=0):
        out = []
        if depth > 5000: return out
        for c in self.vkids(x):
            out.append(c); out += self.vorder(c, depth + 1)
        return out
    def visible(self, x):
        if x == self.root: return True
        if self.v(x) != ACCEPT: return False
        for a in ancestors(self.nodes, x):
            if a == self.root: return True
            if self.v(a) == REJECT: return False
        return False            # not below the root
    def scope(self, x):
        """nearest ancestor that is the root or not skipped: the node whose visible children are x's siblings in the view"""
        for a in ancestors(self.nodes, x):
            if a == self.root or self.v(a) != SKIP: return a
        return None
    def nav(self, cur, d):
        if d == "wp":
            if cur == self.root: return None
            for a in ancestors(self.nodes, cur):
                if self.v(a) == ACCEPT: return a
                if a == self.root: return None
            return None
        if d == "wf":
            k = self.vkids(cur); return k[0] if k else None
        if d == "wl":
            k = self.vkids(cur); return k[-1] if k else None
        if d in ("wns", "wps"):
            if cur == self.root: return None
            sc = self.scope(cur)
            if sc is None: return None
            sib = self.vkids(sc)
            if cur not in sib: return None
            i = sib.index(cur) + (1 if d == "wns" else -1)
            return sib[i] if 0 <= i < len(sib) else None
        order = ([self.root] if (self.v(self.root) == ACCEPT or d == "wnn") else []) + self.vorder(self.root)
        if cur not in order:
            return "?"
        i = order.index(cur) + (1 if d == "wnn" else -1)
        return order[i] if 0 <= i < len(order) else None

# ----------------------------------------------------------------------------- Spec: range content, second reference
def child_toward(nodes, anc, x):
    for c in kids(nodes, anc):
        if is_anc_of(nodes, c, x): return c
    return None

def common_anc(nodes, a, b):
    for x in [a] + ancestors(nodes, a):
        if is_anc_of(nodes, x, b): return x
    return a

def struct_of(nodes, x, depth=0):
    """serialisation of a subtree: (kind, name, value, attrs, children)"""
    n = nodes[x]
    attrs = tuple(sorted((node_name(nodes[a]), nodes[a].value or "") for a in n.attrs if a in nodes))
    ch = tuple(struct_of(nodes, c, depth + 1) for c in kids(nodes, x)) if depth < 3000 else ()
    return (n.kind, node_name(n), n.value if n.kind in TEXTLIKE else None, attrs, ch)

def select(nodes, n, lo, hi, depth=0):
    """(selected, remaining): the structures of the selected part of n's content between the optional boundary points, and
    of what is left of n's content after its removal"""
    ks = kids(nodes, n)
    i0, lo0 = 0, None
    if lo is not None:
        if lo[0] == n: i0 = lo[1]
        else:
            k = child_toward(nodes, n, lo[0]); i0, lo0 = ks.index(k), lo
    i1, hi1 = len(ks), None
    if hi is not None:
        if hi[0] == n: i1 = hi[1]
        else:
            k = child_toward(nodes, n, hi[0]); i1, hi1 = ks.index(k) + 1, hi
    sel, rem = [], [struct_of(nodes, c) for c in ks[:i0]]
    part = ks[i0:i1]
    for j, k in enumerate(part):
        l = lo0 if j == 0 else None
        h = hi1 if j == len(part) - 1 else None
        nk = nodes[k]
        if l is None and h is None:
            sel.append(struct_of(nodes, k))
        elif nk.kind in TEXTLIKE:
            d = nk.value or ""
            a = l[1] if l is not None else 0
            b = h[1] if h is not None else len(d)
            sel.append((nk.kind, node_name(nk), d[a:b], (), ()))
            rem.append((nk.kind, node_name(nk), d[:a] + d[b:], (), ()))
        else:
            s2, r2 = select(nodes, k, l, h, depth + 1)
            base = struct_of(nodes, k)
            sel.append((base[0], base[1], base[2], base[3], tuple(s2)))
            rem.append((base[0], base[1], base[2], base[3], tuple(r2)))
    rem += [struct_of(nodes, c) for c in ks[i1:]]
    return sel, rem

def range_parts(nodes, sc, so, ec, eo):
    """(structures of the range content, structure of the common ancestor afterwards, common ancestor)"""
    if sc == ec and nodes[sc].kind in TEXTLIKE:
        n = nodes[sc]; d = n.value or ""
        if so == eo:
            return [], struct_of(nodes, sc), sc
        return [(n.kind, node_name(n), d[so:eo], (), ())], (n.kind, node_name(n), d[:so] + d[eo:], (), ()), sc
    ca = common_anc(nodes, sc, ec)
    sel, rem = select(nodes, ca, (sc, so), (ec, eo))
    base = struct_of(nodes, ca)
    return sel, (base[0], base[1], base[2], base[3], tuple(rem)), ca

def text_of_struct(st):
    if st[0] in CHARTEXT: return st[2] or ""
    return "".join(text_of_struct(c) for c in st[4])

# ----------------------------------------------------------------------------- views dump
def parse_views(v):
    out = {"I": {}, "W": {}, "L": {}, "R": {}}
    for tok in (v or "").split():
        if "=" not in tok: continue
        name, val = tok.split("=", 1)
        kind, k = name[0], int(name[1:])
        if kind == "R" and val not in ("d", "x"):
            f = val.split(",")
            out["R"][k] = tuple(int(x) if x.isdigit() else x for x in f)
        elif kind == "W" and val != "x":
            out["W"][k] = int(val) if val.isdigit() else val
        elif kind == "L" and ":" in val:
            n, items = val.split(":", 1)
            out["L"][k] = (int(n), [None if t == "-" else (int(t[1:]) if t[1:].isdigit() else t) for t in items.split(",")] if items else [])
        else:
            out[kind][k] = val
    return out

def res_node(res):
    """'ok n5' -> 5, 'ok -' -> None, else 'n/a'"""
    f = res.split()
    if len(f) == 2 and f[0] == "ok":
        if f[1] == "-": return None
        if f[1].startswith("n") and f[1][1:].isdigit(): return int(f[1][1:])
    return "n/a"

# ----------------------------------------------------------------------------- the judge
SIMPLE_STRUCT = ("rm", "ap", "ib")

def expected_matching(nodes, root, tag):
    return [x for x in doc_order(nodes, root)[1:] if nodes[x].kind == K_ELEM and (tag == "*" or node_name(nodes[x]) == tag)]

def bp_deleted_node(prev, c, b):
    p = prev[c].parent
    if p is None or p not in prev: return b
    idx = kids(prev, p).index(c)
    if is_anc_of(prev, c, b[0]): return (p, idx)
    if b[0] == p and b[1] > idx: return (p, b[1] - 1)
    return b

def bp_inserted_node(nodes, n, b):
    p = nodes[n].parent
    if p is None: return b
    idx = kids(nodes, p).index(n)
    if b[0] == p and idx < b[1]: return (p, b[1] + 1)
    return b

def py_detach(nodes, c):
    p = nodes[c].parent
    if p is not None and p in nodes:
        nodes[p].children = [x for x in nodes[p].children if x != c]
    nodes[c].parent = None

def py_insert(nodes, p, n, ref):
    py_detach(nodes, n)
    ch = nodes[p].children
    i = ch.index(ref) if ref is not None and ref in ch else len(ch)
    ch[i:i] = [n]
    nodes[n].parent = p

class Judge:
    """replays one history on the implementation's outputs and checks the C14 property text on them"""
    def __init__(self):
        self.iters, self.walkers, self.lists, self.ranges = [], [], [], []
        self.prev_nodes, self.prev_views = None, None

    # -- iterator position (DOM Traversal 1.1.1): (ref, after) or None when unknown
    def iter_removed(self, prev, d):
        for it in self.iters:
            pos = it.get("pos")
            if pos is None or pos == "start" or it["root"] not in prev: continue
            L = doc_order(prev, it["root"])
            if d == it["root"] or d not in L: continue
            blk = doc_order(prev, d)
            ref, after = pos
            if ref not in blk: continue
            i = L.index(d)
            if after:
                it["pos"] = (L[i - 1], True)
            else:
                j = i + len(blk)
                it["pos"] = (L[j], False) if j < len(L) else (L[i - 1], True)

    def forget_iter_positions(self):
        for it in self.iters:
            if it.get("pos") != "start": it["pos"] = None

    def check_iter_step(self, nodes, k, op, res):
        it = self.iters[k]
        x = res_node(res)
        if x == "n/a" or it["root"] not in nodes: return None
        L = doc_order(nodes, it["root"])
        w, f = it["w"], it["f"]
        if x is not None:
            if x not in nodes or x not in L:
                return ("iterator-returned-node-outside-its-root", "%s returned node %s, which is not in the subtree of the iterator's root %d "
                        "(a removed or foreign node)" % (op, x, it["root"]))
            if not iter_accepts(w, f, nodes[x]):
                return ("iterator-returned-filtered-node", "%s returned node %d, which whatToShow=%d / filter %d do not accept" % (op, x, w, f))
        pos = it.get("pos")
        if pos is not None:
            if pos == "start":
                ahead, behind = L, []
            else:
                ref, after = pos
                if ref not in L:
                    it["pos"] = None; pos = None
                else:
                    i = L.index(ref)
                    ahead = L[i + 1:] if after else L[i:]
                    behind = list(reversed(L[:i + 1] if after else L[:i]))
        if pos is not None:
            cand = ahead if op.startswith("nn") else behind
            exp = next((y for y in cand if iter_accepts(w, f, nodes[y])), None)
            if exp != x:
                return ("iterator-wrong-node", "%s returned %s; the iterator stands %s and the %s accepted node in document order is %s" % (
                    op, x, "before the first node" if pos == "start" else ("after" if pos[1] else "before") + " node %d" % pos[0],
                    "next" if op.startswith("nn") else "previous", exp))
        if x is not None:
            it["pos"] = (x, op.startswith("nn"))
        elif pos != "start" or op.startswith("nn"):
            it["pos"] = None if pos != "start" else pos
        if pos == "start" and x is None:
            it["pos"] = "start"
        return None

    API = {"sp": "splitText", "rin": "insertNode", "rsu": "surroundContents", "rss": "setStart", "rse": "setEnd", "rsb": "setStartBefore",
           "rsa": "setStartAfter", "reb": "setEndBefore", "rea": "setEndAfter", "rsn": "selectNode", "rsc": "selectNodeContents",
           "rco": "collapse", "rdc": "deleteContents", "rex": "extractContents", "rcl": "cloneContents", "rm": "removeChild",
           "ap": "appendChild", "ib": "insertBefore", "rp": "replaceChild", "nz": "normalize", "di": "insertData", "dd": "deleteData",
           "dr": "replaceData", "ds": "setData", "da": "appendData", "rc": "createRange"}

    def split_explains(self, prev, pviews, op, k):
        """Is the invalidity of range k after `op` the known consequence of splitText leaving a boundary point that stood directly
        after the split Text node, (parent, index + 1), between the two halves?  Only then the plain category is used (an open
        known finding); every other way of ending up with an invalid range gets a category of its own."""
        f = op.split(); o = f[0]
        pr = (pviews or {}).get("R", {}).get(k)
        if prev is None or not isinstance(pr, tuple):
            return False
        try:
            if o == "sp":
                t = int(f[1])
            elif o in ("rin", "rsu"):
                r = pviews["R"].get(int(f[1]))
                if not isinstance(r, tuple): return False
                t = r[0]
            else:
                return False
            if t not in prev or prev[t].kind not in CHARTEXT or prev[t].parent is None:
                return False
            par = prev[t].parent
            i = kids(prev, par).index(t)
            pts = ((pr[0], pr[1]), (pr[2], pr[3]))
            if o == "rsu":     # the extraction that precedes the split may have slid a later point of the parent down to index + 1
                return any(c == par and off >= i + 1 for c, off in pts)
            return any((c, off) == (par, i + 1) for c, off in pts)
        except (ValueError, IndexError, KeyError):
            return False

    def check_ranges_valid(self, nodes, views, op, prev=None, pviews=None):
        for k, b in views["R"].items():
            if not isinstance(b, tuple): continue
            sc, so, ec, eo, col = b
            if sc not in nodes or ec not in nodes:
                return ("range-container-not-a-live-node", "after %r range %d has a boundary container that is not a live node: %s" % (op, k, b))
            sfx = "" if self.split_explains(prev, pviews, op, k) else "-after-" + self.API.get(op.split()[0], op.split()[0])
            if root_of(nodes, sc) != root_of(nodes, ec):
                return ("range-containers-in-different-trees" + sfx, "after %r the boundary points of range %d are in different trees: %s" % (op, k, b))
            if so > length_of(nodes, sc) or eo > length_of(nodes, ec):
                return ("range-offset-out-of-bounds", "after %r range %d = %s has an offset beyond its container (lengths %d, %d)" % (
                    op, k, b, length_of(nodes, sc), length_of(nodes, ec)))
            if bp_key(nodes, sc, so) > bp_key(nodes, ec, eo):
                return ("range-start-after-end" + sfx, "after %r range %d = %s starts after it ends" % (op, k, b))
            if (col == 1) != (sc == ec and so == eo):
                return ("range-collapsed-flag", "after %r range %d = %s reports collapsed=%s" % (op, k, b, col))
        return None

    def expected_fixup(self, prev, nodes, op, res, b):
        """DOM Range 2.12 for one boundary point and one primitive mutation; None = not judged"""
        f = op.split(); o = f[0]
        if not res.startswith("ok"): return b
        try:
            if o in ("di", "dd", "dr", "ds", "da"):
                t = int(f[1])
                if t not in prev or prev[t].kind not in TEXTLIKE: return b
                if o == "ds" and prev[t].kind == K_PI: pass
                elif prev[t].kind == K_PI: return b
                ln = len(prev[t].value or "")
                if o == "da": return b
                if o == "ds": return (t, 0) if b[0] == t else b
                off = int(f[2])
                if o in ("dd", "dr"):
                    cnt = min(int(f[3]), ln - off)
                    if b[0] == t:
                        if b[1] > off + cnt: b = (t, b[1] - cnt)
                        elif b[1] > off: b = (t, off)
                if o in ("di", "dr"):
                    n = len(unhx(f[3] if o == "di" else f[4]))
                    if b[0] == t and b[1] > off: b = (t, b[1] + n)
                return b
            if o == "rm":
                return bp_deleted_node(prev, int(f[2]), b)
            if o in ("ap", "ib"):
                p, n = int(f[1]), int(f[2])
                if prev[n].kind == K_FRAG: return None
                if o == "ib" and f[3] != "-" and int(f[3]) == n: return b
                if prev[n].parent is not None: b = bp_deleted_node(prev, n, b)
                return bp_inserted_node(nodes, n, b)
            if o == "sp":
                t, off = int(f[1]), int(f[2])
                r = res.split()[1]
                k = int(r[1:])
                p = prev[t].parent
                if b[0] == t:
                    if b[1] > off and p is None:
                        return ("split-detached", (t, off), (k, b[1] - off))   # parentless: stay at the new end or follow; validity decides
                    return (k, b[1] - off) if b[1] > off else b
                if p is not None and b[0] == p:
                    i = kids(prev, p).index(t)
                    if b[1] > i + 1: return (p, b[1] + 1)
                    if b[1] == i + 1: return "split-gap"   # DOM Level 2 does not say which side of the new node; validity decides
                return b
        except (ValueError, IndexError, KeyError):
            return None
        return None

    def step(self, i, op, line):
        """returns (category, detail) or None"""
        res, d, vd = split3(line)
        if d is None or vd is None:
            return None
        try:
            nodes = K.parse_dump(d)
        except Exception:   # noqa
            return None
        views = parse_views(vd)
        prev, pviews = self.prev_nodes, self.prev_views
        f = op.split(); o = f[0]
        out = None
        try:
            out = self.judge_op(prev, pviews, nodes, views, op, f, o, res)
        finally:
            self.prev_nodes, self.prev_views = nodes, views
        return out

    def judge_op(self, prev, pviews, nodes, views, op, f, o, res):
        ok = res.startswith("ok")
        # ---------------- creation of views
        if o == "ni" and ok and res.split()[1].startswith("I"):
            self.iters.append({"root": int(f[1]), "w": int(f[2]), "f": int(f[3]), "pos": "start"})
        elif o == "tw" and ok and res.split()[1].startswith("W"):
            self.walkers.append({"root": int(f[1]), "w": int(f[2]), "f": int(f[3])})
        elif o == "gl" and ok and res.split()[1].startswith("L"):
            self.lists.append({"root": int(f[1]), "tag": unhx(f[2])})
        elif o == "rc" and ok and res.split()[1].startswith("R"):
            self.ranges.append({"doc": int(f[1])})
        if prev is None:
            return self.check_ranges_valid(nodes, views, op)
        # ---------------- iterators
        if o in ("nn", "np") and ok:
            k = int(f[1])
            if k < len(self.iters):
                v = self.check_iter_step(prev, k, op, res)
                if v: return v
        elif o == "nd":
            pass
        elif o in ("rm",) and ok:
            self.iter_removed(prev, int(f[2]))
        elif o in ("ap", "ib") and ok:
            n = int(f[2])
            if n in prev and prev[n].kind != K_FRAG and prev[n].parent is not None and not (o == "ib" and f[3] != "-" and int(f[3]) == n):
                self.iter_removed(prev, n)
            elif n in prev and prev[n].kind == K_FRAG:
                self.forget_iter_positions()
        elif o in ("rp", "nz", "ad", "sa", "sv", "ra", "rdc", "rex", "rsu", "rin", "sn", "rn") and ok:
            self.forget_iter_positions()
        # ---------------- walkers
        if o in ("wp", "wf", "wl", "wps", "wns", "wpn", "wnn") and ok:
            k = int(f[1])
            x = res_node(res)
            if k < len(self.walkers) and x != "n/a" and k in pviews["W"] and isinstance(pviews["W"][k], int):
                wk = self.walkers[k]; cur = pviews["W"][k]
                if wk["root"] in prev and cur in prev and is_anc_of(prev, wk["root"], cur):
                    vw = View(prev, wk["root"], wk["w"], wk["f"])
                    if vw.visible(cur):
                        exp = vw.nav(cur, o)
                        if exp != "?" and exp != x:
                            va = View(prev, wk["root"], wk["w"], wk["f"], asis=True)
                            alt = va.nav(cur, o) if va.visible(cur) else "?"
                            cat = "walker-filter-consulted-for-node-hidden-by-whatToShow" if alt == x and wk["f"] != 0 else "walker-%s-wrong" % {
                                "wp": "parentNode", "wf": "firstChild", "wl": "lastChild", "wps": "previousSibling", "wns": "nextSibling",
                                "wpn": "previousNode", "wnn": "nextNode"}[o]
                            return (cat, "%s from current node %d (root %d, whatToShow %d, filter %d) returned %s; the logical view of DOM "
                                    "Traversal 1.2 gives %s" % (op, cur, wk["root"], wk["w"], wk["f"], x, exp))
                        if views["W"].get(k) != (x if x is not None else cur):
                            return ("walker-current-node-wrong", "after %s the current node is %s" % (op, views["W"].get(k)))
        # ---------------- tag-name lists: explicit queries and per-operation dumps
        def exp_list(k, tree):
            l = self.lists[k]
            return expected_matching(tree, l["root"], l["tag"]) if l["root"] in tree else None
        if o in ("ll", "li", "lq") and ok:
            k = int(f[1])
            if k < len(self.lists):
                e = exp_list(k, prev)
                if e is not None:
                    r = res.split()[1]
                    if o == "ll" and r != "#%d" % len(e):
                        return ("taglist-not-the-matching-elements-of-the-current-tree", "%s returned %s; the tree has %d matching elements %s" % (op, r, len(e), e))
                    if o == "li":
                        idx = int(f[2]); want = e[idx] if idx < len(e) else None
                        if res_node(res) != want:
                            return ("taglist-not-the-matching-elements-of-the-current-tree", "%s returned %s; item %d of the matching elements %s is %s" % (op, r, idx, e, want))
                    if o == "lq":
                        want = "#%d:%s" % (len(e), ",".join("n%d" % x for x in e))
                        if r != want:
                            return ("taglist-not-the-matching-elements-of-the-current-tree", "%s returned %s; the matching elements of the current tree are %s" % (op, r, want))
        for k, val in views["L"].items():
            if isinstance(val, tuple) and k < len(self.lists):
                e = exp_list(k, nodes)
                if e is not None and (val[0] != len(e) or val[1] != e):
                    return ("taglist-not-the-matching-elements-of-the-current-tree", "after %r list %d (%r under %d) is %s; the matching elements "
                            "of the current tree are %s" % (op, k, self.lists[k]["tag"], self.lists[k]["root"], val, e))
        # ---------------- ranges: validity after every operation
        v = self.check_ranges_valid(nodes, views, op, prev, pviews)
        if v: return v
        # ---------------- ranges: movement per DOM Range 2.12 for the primitive mutations
        if o in ("di", "dd", "dr", "ds", "da", "rm", "ap", "ib", "sp") and ok:
            for k, b in views["R"].items():
                pb = pviews["R"].get(k)
                if not isinstance(b, tuple) or not isinstance(pb, tuple): continue
                for which, (c0, o0), (c1, o1) in (("start", (pb[0], pb[1]), (b[0], b[1])), ("end", (pb[2], pb[3]), (b[2], b[3]))):
                    e = self.expected_fixup(prev, nodes, op, res, (c0, o0))
                    if e == "split-gap":
                        # the point directly after the split node: before or after the new node, nowhere else
                        if (c1, o1) not in ((c0, o0), (c0, o0 + 1)):
                            return ("range-fixup-splitText", "%r: the %s point of range %d stood directly after the split node at (%s,%s) "
                                    "and moved to (%s,%s)" % (op, which, k, c0, o0, c1, o1))
                        continue
                    if isinstance(e, tuple) and e[0] == "split-detached":
                        if (c1, o1) not in e[1:]:
                            return ("range-fixup-splitText", "%r (parentless node): the %s point of range %d moved from (%s,%s) to (%s,%s)" % (
                                op, which, k, c0, o0, c1, o1))
                        continue
                    if e is not None and e != (c1, o1):
                        return ("range-fixup-%s" % {"di": "insertData", "dd": "deleteData", "dr": "replaceData", "ds": "setData", "da": "appendData",
                                                    "rm": "removeChild", "ap": "insertBefore", "ib": "insertBefore", "sp": "splitText"}[o],
                                "%r: the %s point of range %d moved from (%s,%s) to (%s,%s); DOM Range 2.12 requires (%s,%s)" % (
                                    op, which, k, c0, o0, c1, o1, e[0], e[1]))
        # ---------------- range operations
        if o in ("rss", "rse") and ok and int(f[1]) in views["R"] and isinstance(views["R"][int(f[1])], tuple):
            b = views["R"][int(f[1])]; n, off = int(f[2]), int(f[3])
            got = (b[0], b[1]) if o == "rss" else (b[2], b[3])
            if got != (n, off):
                return ("range-set-wrong", "%r left the %s point at %s" % (op, "start" if o == "rss" else "end", got))
            # the other boundary point: unchanged, unless the new point lies on the wrong side of it (or in another tree),
            # in which case the range collapses onto the new point (DOM Range 2.4 setStart / setEnd)
            pb = pviews["R"].get(int(f[1]))
            if isinstance(pb, tuple) and n in prev and off <= length_of(prev, n) and pb[0] in prev and pb[2] in prev:
                other_prev = (pb[2], pb[3]) if o == "rss" else (pb[0], pb[1])
                other_now = (b[2], b[3]) if o == "rss" else (b[0], b[1])
                if root_of(prev, other_prev[0]) != root_of(prev, n):
                    want = (n, off)
                else:
                    kn, ko = bp_key(prev, n, off), bp_key(prev, *other_prev)
                    wrong_side = kn > ko if o == "rss" else kn < ko
                    want = (n, off) if wrong_side else other_prev
                if other_now != want:
                    return ("range-set-wrong", "%r with the %s point at %s left it at %s; DOM Range requires %s" % (
                        op, "end" if o == "rss" else "start", other_prev, other_now, want))
        if o in ("rss", "rse") and res.startswith("ok") is False and res.startswith("exc INDEX_SIZE_ERR"):
            n, off = int(f[2]), int(f[3])
            if n in prev and off <= length_of(prev, n):
                return ("range-set-wrong", "%r raised INDEX_SIZE_ERR although the offset is within the container (length %d)" % (op, length_of(prev, n)))
        if o in ("rss", "rse") and ok:
            n, off = int(f[2]), int(f[3])
            if n in prev and off > length_of(prev, n):
                return ("range-set-wrong", "%r accepted an offset beyond the container (length %d)" % (op, length_of(prev, n)))
        if o == "rsn" and ok:
            k, n = int(f[1]), int(f[2])
            b = views["R"].get(k)
            if isinstance(b, tuple) and n in prev and prev[n].parent is not None and prev[n].kind not in (K_DOC, K_FRAG, K_ATTR):
                p = prev[n].parent; i = kids(prev, p).index(n)
                if b[:4] != (p, i, p, i + 1):
                    return ("range-selectNode-wrong", "%r: the range is %s; selectNode selects the node: (%d,%d)-(%d,%d)" % (op, b[:4], p, i, p, i + 1))
            elif isinstance(b, tuple) and n in prev and prev[n].parent is None and prev[n].kind in TEXTLIKE and b != pviews["R"].get(k) \
                    and (b[0] == n or b[2] == n):
                # (a node without a parent cannot be selected; what must not happen is that its CONTENTS get selected)
                return ("range-selectNode-wrong", "%r: the range is %s: the node itself became the container, i.e. its contents are "
                        "selected instead of the node" % (op, b[:4]))
        if o == "rsc" and ok:
            k, n = int(f[1]), int(f[2])
            b = views["R"].get(k)
            if isinstance(b, tuple) and n in prev and b[:4] != (n, 0, n, length_of(prev, n)):
                return ("range-selectNodeContents-wrong", "%r: the range is %s" % (op, b[:4]))
        if o == "rco" and ok:
            k = int(f[1]); b, pb = views["R"].get(k), pviews["R"].get(k)
            if isinstance(b, tuple) and isinstance(pb, tuple):
                want = (pb[0], pb[1], pb[0], pb[1]) if f[2] == "1" else (pb[2], pb[3], pb[2], pb[3])
                if b[:4] != want:
                    return ("range-collapse-wrong", "%r: the range is %s" % (op, b[:4]))
        if o == "rcb" and ok and res.split()[1].startswith("#"):
            k, how, other = int(f[1]), int(f[2]), int(f[3])
            a, b = pviews["R"].get(k), pviews["R"].get(other)
            if isinstance(a, tuple) and isinstance(b, tuple) and all(x in prev for x in (a[0], a[2], b[0], b[2])):
                pa = (a[0], a[1]) if how in (0, 3) else (a[2], a[3])
                pb_ = (b[0], b[1]) if how in (0, 1) else (b[2], b[3])
                if root_of(prev, pa[0]) == root_of(prev, pb_[0]):
                    ka, kb = bp_key(prev, *pa), bp_key(prev, *pb_)
                    want = -1 if ka < kb else (1 if ka > kb else 0)
                    if int(res.split()[1][1:]) != want:
                        return ("range-compareBoundaryPoints-wrong", "%r compares %s with %s and returned %s; document order gives %d" % (
                            op, pa, pb_, res.split()[1][1:], want))
        if o in ("rts", "rdc", "rex", "rcl") and ok:
            k = int(f[1]); pb = pviews["R"].get(k)
            if isinstance(pb, tuple) and pb[0] in prev and pb[2] in prev:
                sel, rem, ca = range_parts(prev, pb[0], pb[1], pb[2], pb[3])
                if o == "rts":
                    want = "".join(text_of_struct(s) for s in sel)
                    got = unhx(res.split()[1][1:]) if len(res.split()) > 1 and res.split()[1].startswith("s") else None
                    if got is not None and got != want:
                        return ("range-toString-wrong", "%r of range %s returned %r; the character data (Text, CDATASection) in the range is %r" % (op, pb[:4], got, want))
                else:
                    if o in ("rex", "rcl"):
                        fr = res_node(res)
                        if isinstance(fr, int) and fr in nodes:
                            got = [struct_of(nodes, c) for c in kids(nodes, fr)]
                            if got != sel:
                                return ("range-%s-fragment-wrong" % ("extractContents" if o == "rex" else "cloneContents"),
                                        "%r of range %s returned %s; the selected content is %s" % (op, pb[:4], got, sel))
                    if ca in nodes:
                        got = struct_of(nodes, ca)
                        want = rem if o != "rcl" else struct_of(prev, ca)
                        if got != want:
                            return ("range-%s-tree-wrong" % {"rdc": "deleteContents", "rex": "extractContents", "rcl": "cloneContents"}[o],
                                    "%r of range %s leaves %s; expected %s" % (op, pb[:4], got, want))
                    b = views["R"].get(k)
                    if o != "rcl" and isinstance(b, tuple) and not (b[0] == b[2] and b[1] == b[3]):
                        return ("range-not-collapsed-after-content-operation", "%r leaves range %s" % (op, b))
                    # other ranges with a boundary point in a character-data container of this range: the characters
                    # [a, b) of that node were deleted (DOM Range 2.12.2)
                    if o != "rcl":
                        cuts = {}
                        if pb[0] == pb[2] and prev[pb[0]].kind in TEXTLIKE:
                            cuts[pb[0]] = (pb[1], pb[3])
                        else:
                            if prev[pb[0]].kind in TEXTLIKE: cuts[pb[0]] = (pb[1], len(prev[pb[0]].value or ""))
                            if prev[pb[2]].kind in TEXTLIKE: cuts[pb[2]] = (0, pb[3])
                        for k2, b2 in views["R"].items():
                            p2 = pviews["R"].get(k2)
                            if k2 == k or not isinstance(b2, tuple) or not isinstance(p2, tuple): continue
                            for which, (c0, o0), (c1, o1) in (("start", (p2[0], p2[1]), (b2[0], b2[1])), ("end", (p2[2], p2[3]), (b2[2], b2[3]))):
                                if c0 in cuts:
                                    a_, b_ = cuts[c0]
                                    want = o0 - (b_ - a_) if o0 > b_ else (a_ if o0 > a_ else o0)
                                    if (c1, o1) != (c0, want):
                                        return ("range-fixup-content-operation-text", "%r deletes the characters [%d,%d) of node %d; the %s point of "
                                                "range %d moved from (%d,%d) to (%s,%s); DOM Range 2.12.2 requires (%d,%d)" % (
                                                    op, a_, b_, c0, which, k2, c0, o0, c1, o1, c0, want))
        return None

def judge_history(ops, outs):
    """first contradiction between the implementation's outputs and the specifications: (index, category, detail) or None.
    The C13 judge (tree well-formedness, exceptions change nothing, DOM Core semantics) runs on the tree part of every line."""
    stripped = []
    for l in outs:
        if l is None or " | " not in l:
            stripped.append(l)
        else:
            r, t, _ = split3(l)
            stripped.append(r + " | " + (t or ""))
    base = _C13_JUDGE(ops, stripped)
    if base is not None and base[1].endswith("-accepted"):
        # DOM Level 3 Core, insertBefore: "Inserting a node before itself is implementation dependent" -- the C13 judge asks
        # such a call to raise when the node could not be inserted where it already is; that is no contradiction
        f = ops[base[0]].split()
        if f[0] == "ib" and len(f) == 4 and f[2] == f[3]:
            base = None
    jd = Judge()
    for i, (op, line) in enumerate(zip(ops, outs)):
        if base is not None and i >= base[0]:
            break
        if line is None or line.startswith(("HANG", "CRASH", "abandoned")):
            break
        if " | " not in line:
            continue
        try:
            v = jd.step(i, op, line)
        except Exception as e:      # noqa  (a judge that cannot read a line does not judge it)
            v = None
        if v:
            return (i, v[0], v[1])
    if base is not None:
        cat = base[1]
        if cat == "crash":
            # name the crash by the source file the sanitizer / signal report points at (stable across inputs)
            import re
            m = re.search(r"/([A-Za-z0-9_]+\.(?:cpp|hpp|c)):\d+", base[2] or "")
            cat = "crash-in-" + m.group(1) if m else "crash"
        if cat == "exception-changed-tree" and ops[base[0]].split()[0] in ("rin", "rsu"):
            return None if False else (base[0], "range-operation-raised-after-modifying-the-tree", base[2])
        return (base[0], cat, base[2])
    return None

_C13_JUDGE = K.judge_history
K.judge_history = judge_history

# ----------------------------------------------------------------------------- generators
PREFIX = ["reset 1", "lmode 1", "ce 0 61", "ce 0 62", "ce 0 63", "ct 0 41.42.43", "ct 0 44.45", "cc 0 4d", "ce 0 64",
          "ap 0 1", "ap 1 2", "ap 2 4", "ap 1 3", "ap 3 5", "ap 1 6",
          "ni 0 65535 0", "nn 0", "ni 1 5 1", "nn 1", "nn 1", "tw 0 65535 2", "tw 1 4 2", "wnn 0", "tw 0 65535 0", "wsc 2 6", "gl 0 2a", "gl 1 62",
          "rc 0", "rss 0 4 1", "rse 0 5 1", "rc 0", "rss 1 1 1", "rse 1 1 2",
          # iterator 2: over the whole document, walked to the end (0 1 2 4 3 5 6) and one step back: it stands BEFORE the
          # last node of its root's subtree (the removal fix-up of a backward iterator with nothing after the removed subtree)
          "ni 0 65535 0", "nn 2", "nn 2", "nn 2", "nn 2", "nn 2", "nn 2", "nn 2", "np 2"]
D0, A, B, C, T, U, M, X = 0, 1, 2, 3, 4, 5, 6, 7

def exhaustive_ops():
    """operations that change the tree or a view: every sequence of <= 2 of them is run"""
    ops = ["rm 1 2", "rm 2 4", "rm 0 1", "rm 1 3", "rm 1 6", "ap 3 2", "ib 1 3 2", "ap 1 4", "ib 1 7 3", "ap 2 7", "rp 1 7 2", "rp 1 7 3",
           "di 4 1 58.59", "di 5 0 58", "dd 4 0 2", "dd 5 1 5", "dr 4 1 1 58.59.5a", "ds 4 51", "da 4 51",
           "sp 4 1", "sp 4 2", "sp 5 1", "nz 1", "rnm 0 2 7a", "rnm 0 3 62", "rnm 0 7 62", "sa 2 69 76",
           "nn 0", "np 0", "nn 1", "np 1", "nn 2", "np 2", "nd 1", "ni 1 65535 0", "ni 2 1 2",
           "wnn 0", "wpn 0", "wf 0", "wl 0", "wns 0", "wps 0", "wp 0", "wsc 0 5", "wsc 0 3", "wnn 1", "wpn 1", "wsc 1 5", "wpn 2", "wps 2",
           "lq 0", "lq 1", "li 0 1", "ll 1",
           "rdc 0", "rex 0", "rcl 0", "rdc 1", "rex 1", "rin 0 7", "rin 1 7",
           "rsu 1 7", "rsn 1 4", "rsn 1 2", "rsc 1 2", "rsc 0 4", "rco 0 1", "rss 1 5 2", "rse 0 1 0", "rse 0 4 3", "rse 0 2 1", "sp 4 0", "rse 1 1 3", "rsb 1 6", "rea 0 3", "rdt 0"]
    return ops

def observer_ops():
    """pure observers (they change neither the tree nor a view): run alone and as the LAST operation after every operation of
    `exhaustive_ops` -- all four CompareHow values in both directions (after a removal / insertion slid an offset next to
    the child that holds the other point), toString"""
    return ["rts 0", "rts 1"] + ["rcb %d %d %d" % (k, how, 1 - k) for k in (0, 1) for how in (0, 1, 2, 3)]

def gen_exhaustive(maxlen):
    ops, obs = exhaustive_ops(), observer_ops()
    hists = []
    def rec(prefix, depth):
        if depth: hists.append(PREFIX + prefix)
        if depth == maxlen: return
        for o in ops: rec(prefix + [o], depth + 1)
        for o in obs: hists.append(PREFIX + prefix + [o])
    rec([], 0)
    return hists

# ----------------------------------------------------------------------------- geometry tier: all pairs of boundary points
GEO_PREFIX = ["reset 1", "lmode 1", "ce 0 61", "ce 0 62", "ce 0 63", "ct 0 41.42.43", "ct 0 44.45", "cc 0 4d", "ce 0 64",
              "ap 0 1", "ap 1 2", "ap 2 4", "ap 1 3", "ap 3 5", "ap 1 6", "rc 0", "rc 0"]
GEO_POINTS = [(0, 0), (0, 1), (1, 0), (1, 1), (1, 2), (1, 3), (2, 0), (2, 1), (3, 0), (3, 1), (4, 0), (4, 1), (4, 2), (4, 3),
              (5, 0), (5, 1), (5, 2), (6, 0), (6, 1), (7, 0)]

def gen_scenarios():
    """fixed histories for situations the prefix tree of the exhaustive tier does not contain"""
    return [
        # a range inside a PARENTLESS Text node that is split between its boundary points
        ["reset 1", "lmode 1", "ct 0 41.42.43", "rc 0", "rss 0 1 0", "rse 0 1 3", "sp 1 1", "rts 0"],
        ["reset 1", "lmode 1", "ct 0 41.42.43", "rc 0", "rss 0 1 2", "rse 0 1 3", "sp 1 1", "rts 0"],
        ["reset 1", "lmode 0", "cd 0 41.42.43", "rc 0", "rss 0 1 1", "rse 0 1 3", "sp 1 2", "rco 0 0"],
        # insertNode with the start point inside the Text value of an attribute: an Element cannot go under an Attr
        ["reset 1", "lmode 1", "ce 0 61", "ap 0 1", "sa 1 69 41.42.43", "ce 0 62", "rc 0", "rss 0 3 1", "rin 0 4", "rts 0"],
        ["reset 1", "lmode 1", "ce 0 61", "ap 0 1", "sa 1 69 41.42.43", "ce 0 62", "rc 0", "rss 0 3 0", "rin 0 4"],
        # a backward iterator whose reference node is the last node of its root's subtree, removed directly and with an ancestor
        ["reset 1", "lmode 1", "ce 0 61", "ce 0 62", "ct 0 41", "ap 0 1", "ap 1 2", "ap 2 3", "ni 1 65535 0", "nn 0", "nn 0", "nn 0",
         "np 0", "rm 2 3", "nn 0", "np 0", "np 0"],
        ["reset 1", "lmode 1", "ce 0 61", "ce 0 62", "ct 0 41", "ap 0 1", "ap 1 2", "ap 2 3", "ni 1 65535 0", "nn 0", "nn 0", "nn 0",
         "np 0", "rm 1 2", "nn 0", "np 0"],
    ]

def gen_geometry():
    """doc{a{b{'ABC'},c{'DE'},<!--M-->}} and the parentless element d: for EVERY ordered pair (p, q) of boundary points of these
    trees, compareBoundaryPoints with all four CompareHow values between the ranges [p,p] and [q,q], setStart(q) on [p,p] and
    setEnd(q) on [p,p] (the setters compare the new point with the other end to decide whether the range collapses).  One
    history per p."""
    hists = []
    for p in GEO_POINTS:
        h = list(GEO_PREFIX)
        for q in GEO_POINTS:
            h += ["rss 0 %d %d" % p, "rco 0 1", "rss 1 %d %d" % q, "rco 1 1",
                  "rcb 0 0 1", "rcb 0 1 1", "rcb 0 2 1", "rcb 0 3 1",
                  "rss 0 %d %d" % q, "rss 0 %d %d" % p, "rco 0 1", "rse 0 %d %d" % q]
        hists.append(h)
    return hists

SHOWS = [65535, 65535, 1, 4, 5, 0x85, 0x1FF, 0x4]
TAGS = ["*", "a", "b", "c", "d", "id"]

class ViewsOracle:
    """the Lean model (xvdriver viewsgen) as generation oracle, wrapped so that the C13 generator can be reused unchanged: it
    sends its operation lines through `send`; before most of them this wrapper injects view operations of its own."""
    def __init__(self):
        self.p = subprocess.Popen([common.driver_path(), "viewsgen"], stdin=subprocess.PIPE, stdout=subprocess.PIPE)
        self.begin(common.SplitMix(0), 0.8)
    def begin(self, rng, density):
        self.r, self.density = rng, density
        self.ops, self.model = [], []
        self.nodes, self.views = {}, {"I": {}, "W": {}, "L": {}, "R": {}}
        self.n = {"I": 0, "W": 0, "L": 0, "R": 0}
    def _emit(self, line):
        self.p.stdin.write((line + "\n").encode()); self.p.stdin.flush()
        out = self.p.stdout.readline().decode(errors="replace").rstrip("\n")
        if not out:
            raise common.InfraError("xvdriver viewsgen died on %r" % line)
        head, d, v = split3(out)
        self.ops.append(line); self.model.append(head)
        if d is not None:
            self.nodes = K.parse_dump(d or "")
            self.views = parse_views(v)
        r = head.split()
        if len(r) >= 2 and r[0] == "ok" and r[1][:1] in "IWLR" and r[1][1:].isdigit() and line.split()[0] in ("ni", "tw", "gl", "rc"):
            self.n[r[1][0]] += 1
        return head
    def send(self, line):
        if line.startswith("reset"):
            self._emit(line)
            self._emit("lmode %d" % self.r.below(2))
            return self.model[0], self.nodes
        k = 0
        while self.r.below(1000) < int(self.density * 500) and k < 4:
            v = self.view_op()
            if v: self._emit(v)
            k += 1
        head = self._emit(line)
        return head, self.nodes
    # -- one view operation
    def pick(self, pred=None, wild=3):
        hs = sorted(self.nodes)
        if not hs: return 0
        if self.r.below(100) < wild: return self.r.below(max(hs) + 3)
        c = [h for h in hs if pred is None or pred(self.nodes[h])]
        return self.r.choice(c) if c else self.r.choice(hs)
    def offset(self, n):
        ln = length_of(self.nodes, n) if n in self.nodes else 0
        k = self.r.below(100)
        if k < 85: return self.r.below(ln + 1)
        return ln + 1 + self.r.below(3)
    def view_op(self):
        r, n = self.r, self.n
        not_attr = lambda x: x.kind != K_ATTR
        parent_like = lambda x: x.kind in (K_DOC, K_ELEM, K_FRAG)
        c = r.below(1000)
        if c < 60 or (n["I"] == 0 and c < 200):
            if n["I"] >= 3: return None
            return "ni %d %d %d" % (self.pick(parent_like if r.below(100) < 85 else not_attr), r.choice(SHOWS), r.below(5))
        if c < 300 and n["I"]:
            k = r.below(n["I"])
            d = r.below(100)
            return ("nn %d" if d < 60 else "np %d" if d < 97 else "nd %d") % k
        if c < 340 or (n["W"] == 0 and c < 420):
            if n["W"] >= 3: return None
            return "tw %d %d %d" % (self.pick(parent_like if r.below(100) < 85 else not_attr), r.choice(SHOWS), r.below(5))
        if c < 520 and n["W"]:
            k = r.below(n["W"])
            d = r.below(100)
            if d < 8: return "wsc %d %d" % (k, self.pick(not_attr))
            return "%s %d" % (r.choice(["wp", "wf", "wl", "wps", "wns", "wpn", "wnn", "wnn", "wpn", "wnn"]), k)
        if c < 560 or (n["L"] == 0 and c < 620):
            if n["L"] >= 3: return None
            return "gl %d %s" % (self.pick(lambda x: x.kind in (K_DOC, K_ELEM)), hx(r.choice(TAGS)))
        if c < 680 and n["L"]:
            k = r.below(n["L"])
            d = r.below(100)
            if d < 35: return "lq %d" % k
            if d < 60: return "ll %d" % k
            return "li %d %d" % (k, r.below(6))
        if c < 720 or (n["R"] == 0 and c < 800):
            if n["R"] >= 3: return None
            return "rc %d" % self.pick(lambda x: x.kind == K_DOC, 1)
        if n["R"]:
            k = r.below(n["R"])
            d = r.below(1000)
            x = self.pick(not_attr if r.below(100) < 92 else None)
            if d < 230: return "rss %d %d %d" % (k, x, self.offset(x))
            if d < 460: return "rse %d %d %d" % (k, x, self.offset(x))
            if d < 520: return "%s %d %d" % (r.choice(["rsb", "rsa", "reb", "rea"]), k, x)
            if d < 560: return "rco %d %d" % (k, r.below(2))
            if d < 620: return "rsn %d %d" % (k, x)
            if d < 670: return "rsc %d %d" % (k, x)
            if d < 740: return "rcb %d %d %d" % (k, r.below(4), r.below(n["R"]))
            if d < 820: return "rts %d" % k
            if len(self.nodes) < 90:
                if d < 850: return "rdc %d" % k
                if d < 885: return "rex %d" % k
                if d < 925: return "rcl %d" % k
                if d < 960: return "rin %d %d" % (k, self.pick(lambda y: y.kind in (K_ELEM, K_TEXT, K_COMM, K_FRAG, K_CDATA)))
                if d < 990: return "rsu %d %d" % (k, self.pick(lambda y: y.kind == K_ELEM and not y.children))
            if d >= 997: return "rdt %d" % k
            return "rts %d" % k
        return None
    def close(self):
        try:
            self.p.stdin.close(); self.p.wait(timeout=10)
        except Exception:   # noqa
            self.p.kill()

def _gen_worker(args):
    seeds, length = args
    o = ViewsOracle()
    out = []
    try:
        for s in seeds:
            o.begin(common.SplitMix(s ^ 0x5DEECE66D), 0.9)
            K.gen_random_history(s, max(4, int(length * 0.5)), o, cap=60)
            out.append((o.ops[:length + 2], o.model[:length + 2]))
    finally:
        o.close()
    return out

def gen_random(ctx, nhist, length):
    seeds = [ctx.rng.next() for _ in range(nhist)]
    npar = K.NPAR
    groups = [seeds[i::npar] for i in range(npar) if seeds[i::npar]]
    import multiprocessing
    with multiprocessing.Pool(len(groups)) as pool:
        parts = pool.map(_gen_worker, [(g, length) for g in groups])
    by_seed = {}
    for g, part in zip(groups, parts):
        for s, h in zip(g, part):
            by_seed[s] = h
    return [by_seed[s] for s in seeds]

# ----------------------------------------------------------------------------- comparison, reports

def report(ctx, hist, j, origin, do_shrink=True):
    i, cat, detail = j
    ops = hist[:i + 1]
    if do_shrink and len(ops) > 6 and not cat.startswith(("hang", "crash")):
        try:
            ops = K.shrink(ops, cat, rounds=24)
        except Exception as e:   # noqa
            ctx.notes.append("shrink failed: %r" % e)
    ctx.violations.append({"key": K.key_of(cat), "concrete": True,
                           "what": "real DOM contradicts DOM Traversal/Range [%s]: %s (history of %d operations, %s)" % (cat, detail, len(ops) - 1, origin),
                           "replay": {"history": ops, "category": cat, "detail": detail, "origin": origin}})

def compare_and_judge(ctx, hists, model, impl, origin, max_judge=120, spec=False):
    """spec=False: `model` is the code-shaped model; every difference is either a fault the judge names or unexplained drift
    (corr:views).  spec=True: `model` follows the specifications everywhere; the histories on which the implementation differs
    from it are judged; a difference in which the judge finds no contradiction with what the property states is not a
    violation (counted in stats: the specifications leave the point open, e.g. where a boundary point directly after a Text
    node goes when the node is split, as long as the range stays valid)."""
    bad, evals = [], 0
    for k, (h, m, i) in enumerate(zip(hists, model, impl)):
        first = None
        for j in range(len(h)):
            a = m[j] if j < len(m) else None
            b = i[j] if i and j < len(i) else None
            if b == "SKIPPED": break
            evals += 1
            if a != b:
                first = j; break
        if first is not None:
            bad.append((first, k))
    if not spec:
        ctx.stats["evaluations"] = ctx.stats.get("evaluations", 0) + evals
    okey = ("differs_from_spec_model_" if spec else "disagreeing_histories_") + origin.split()[0]
    ctx.stats[okey] = ctx.stats.get(okey, 0) + len(bad)
    if not bad:
        return
    bad.sort(key=lambda t: (t[0], len(hists[t[1]])))
    # judge a spread of the disagreeing histories: round-robin over the kind of the operation at which they disagree
    # (the first few of each kind), so that one frequent defect does not hide the others
    buckets = {}
    for first, k in bad:
        buckets.setdefault(hists[k][first].split()[0], []).append((first, k))
    pick, depth = [], 0
    while len(pick) < max_judge and any(depth < len(b) for b in buckets.values()):
        for name in sorted(buckets):
            if depth < len(buckets[name]) and len(pick) < max_judge:
                pick.append(buckets[name][depth])
        depth += 1
    # against the code-shaped model the history is cut at the first difference (what follows is not comparable); against the
    # Spec-rule model the whole history is judged: the judge reads the implementation's outputs only, and a deviation that the
    # specifications tolerate at the point where it happens may still break the property later (a range that becomes invalid)
    sub = [hists[k] if spec else hists[k][:first + 1] for first, k in pick]
    tj = time.time()
    full_i, _ = K.run_impl(sub, full=True, wd_ms=3000, budget=10 ** 6)
    full_m = run_model_spec(sub, full=True) if spec else K.run_model(sub, full=True)
    common.log("c14 %s: %d of %d histories that differ from the %s model re-run in full mode %.1fs" % (
        origin, len(sub), len(bad), "spec" if spec else "code-shaped", time.time() - tj))
    seen_cat, unexplained = {}, []
    for (first, k), h, oi, om in zip(pick, sub, full_i, full_m):
        j = judge_history(h, oi)
        if j is None:
            unexplained.append((h[:first + 1] if spec else h, om[-1] if om else None, oi[-1] if oi else None))
            continue
        seen_cat.setdefault(j[1], []).append((h, j))
    for cat, lst in sorted(seen_cat.items()):
        ctx.stats.setdefault("violation_witnesses", {})[cat] = ctx.stats.get("violation_witnesses", {}).get(cat, 0) + len(lst)
        if any(v["key"] == K.key_of(cat) for v in ctx.violations):
            continue
        h, j = min(lst, key=lambda t: len(t[0]))
        report(ctx, h, j, origin)
    if spec:
        ctx.stats["spec_model_differences_without_contradiction"] = ctx.stats.get("spec_model_differences_without_contradiction", 0) + len(unexplained)
        if unexplained:
            h = min(unexplained, key=lambda t: len(t[0]))[0]
            ctx.notes.append("%s: on %d judged histories the implementation differs from the Spec-rule model without contradicting "
                             "what the property states (the specifications leave the point open); first: %s" % (
                                 origin, len(unexplained), " / ".join(h[-3:])))
        return
    if unexplained and not any(v["key"] == "corr:views" for v in ctx.violations):
        h, mo, io = min(unexplained, key=lambda t: len(t[0]))
        ctx.violations.append({"key": "corr:views", "concrete": False,
            "what": "correspondence views (Lean model of iterators/walkers/lists/ranges vs real DOM) no longer checks on %d histories (%s); "
                    "the specification judge finds no fault in the implementation's outputs; first: %s" % (len(unexplained), origin, " / ".join(h[-3:])),
            "replay": {"correspondence": "views", "history": h, "model": mo, "impl": io}})

def judge_sample(ctx, hists, origin):
    """The judge on the implementation's outputs of whole histories, whether or not a model disagrees: what the property
    states must hold of the implementation even where both Lean configurations happen to share its behaviour."""
    if not hists:
        return
    tj = time.time()
    outs, _ = K.run_impl(hists, full=True, wd_ms=3000, budget=10 ** 6)
    found = {}
    for h, o in zip(hists, outs):
        j = judge_history(h, o)
        if j is not None:
            found.setdefault(j[1], []).append((h, j))
    ctx.stats["independently_judged_histories"] = ctx.stats.get("independently_judged_histories", 0) + len(hists)
    for cat, lst in sorted(found.items()):
        ctx.stats.setdefault("violation_witnesses", {})[cat] = ctx.stats.get("violation_witnesses", {}).get(cat, 0) + len(lst)
        if any(v["key"] == K.key_of(cat) for v in ctx.violations):
            continue
        h, j = min(lst, key=lambda t: len(t[0]))
        report(ctx, h, j, origin + " (judged independently of the models)")
    common.log("c14 %s: %d histories judged independently of the models %.1fs" % (origin, len(hists), time.time() - tj))

def nontrivial_count(hists, model):
    seen = set()
    for h, m in zip(hists, model):
        prev = None
        for op, line in zip(h, m):
            f = line.split()
            dig = f[-1] if f else ""
            if prev is not None and (dig != prev or line.startswith("exc")):
                seen.add((op, prev))
            prev = dig
    return len(seen)

def correspondence(ctx):
    th = ctx.thorough()
    t0 = time.time()
    outcomes, kinds = {}, {}
    # ---- exhaustive tier
    ex = gen_exhaustive(2)
    m = K.run_model(ex)
    i, ev = K.run_impl(ex, wd_ms=800, budget=60)
    compare_and_judge(ctx, ex, m, i, "exhaustive")
    compare_and_judge(ctx, ex, run_model_spec(ex), i, "exhaustive", spec=True)
    nt = nontrivial_count(ex, m)
    ctx.stats["exhaustive_histories"] = len(ex)
    ctx.stats["exhaustive_op_instances"] = len(exhaustive_ops())
    ctx.stats["exhaustive"] = True
    ctx.stats["exhaustive_s"] = round(time.time() - t0, 1)
    ctx.samples += [{"history": ex[k][len(PREFIX):], "model": m[k][-1], "impl": (i[k] or [None])[-1]} for k in (0, len(ex) // 3, len(ex) - 1)]
    common.log("c14 exhaustive tier %.1fs (%d histories)" % (time.time() - t0, len(ex)))
    all_ev = list(ev)
    # ---- geometry tier: all pairs of boundary points of the prefix tree, every run
    tg = time.time()
    geo = gen_geometry()
    gm = K.run_model(geo)
    gi, gev = K.run_impl(geo, wd_ms=2000, budget=60)
    compare_and_judge(ctx, geo, gm, gi, "geometry")
    compare_and_judge(ctx, geo, run_model_spec(geo), gi, "geometry", spec=True)
    ctx.stats["geometry_point_pairs"] = len(GEO_POINTS) ** 2
    sc = gen_scenarios()
    sm = K.run_model(sc)
    si, sev = K.run_impl(sc, wd_ms=2000, budget=60)
    compare_and_judge(ctx, sc, sm, si, "scenarios")
    compare_and_judge(ctx, sc, run_model_spec(sc), si, "scenarios", spec=True)
    all_ev += list(sev)
    judge_sample(ctx, sc + geo + [h for h in ex if len(h) == len(PREFIX) + 1], "scenarios+geometry+single operations")
    all_ev += list(gev)
    common.log("c14 geometry tier %.1fs (%d ordered pairs of boundary points)" % (time.time() - tg, len(GEO_POINTS) ** 2))
    # ---- random tier
    t1 = time.time()
    nh, ln = (600, 800) if th else (240, 150)
    gen = gen_random(ctx, nh, ln)
    hists = [g[0] for g in gen]
    model = [g[1] for g in gen]
    ctx.stats["random_histories"] = nh; ctx.stats["random_length"] = ln
    ctx.stats["generate_s"] = round(time.time() - t1, 1)
    impl, ev2 = K.run_impl(hists, wd_ms=2000, budget=80)
    compare_and_judge(ctx, hists, model, impl, "random")
    compare_and_judge(ctx, hists, run_model_spec(hists), impl, "random", spec=True)
    judge_sample(ctx, hists[:(60 if th else 30)], "random")
    nt += nontrivial_count(hists, model)
    for h in ex + hists:
        for op in h:
            kinds[op.split()[0]] = kinds.get(op.split()[0], 0) + 1
    for lines in list(i) + list(impl):
        for l in lines or []:
            if l:
                k = " ".join(l.split()[:2]) if l.startswith("exc") else l.split()[0]
                outcomes[k] = outcomes.get(k, 0) + 1
    ctx.stats["op_kinds"] = kinds
    ctx.stats["impl_outcomes"] = outcomes
    ctx.stats["distinct_nontrivial"] = nt
    ctx.stats["random_s"] = round(time.time() - t1, 1)
    ctx.samples += [{"history_tail": hists[k][-3:], "model": model[k][-1], "impl": (impl[k] or [None])[-1]} for k in (0, len(hists) - 1)]
    for k, kind, s in all_ev + ev2:
        if kind == "sanitizer" and not any(v["key"].startswith("views:") for v in ctx.violations):
            ctx.violations.append({"key": "views:sanitizer", "concrete": True,
                                   "what": "sanitizer report in views harness: " + s, "replay": {"stderr": s}})
        if kind == "budget":
            ctx.notes.append(s)

_search_done = {}

def search(ctx, broken):
    """A theorem / translator tie broke: run the exhaustive corpus on the implementation alone and let the specification judge
    look for a concrete contradiction (no model involved)."""
    if "done" in _search_done:
        return None
    _search_done["done"] = True
    ex = gen_exhaustive(2)
    outs, _ = K.run_impl(ex, full=True, wd_ms=800, budget=60)
    best = None
    for h, o in zip(ex, outs):
        j = judge_history(h, o)
        if j and not any(v["key"] == K.key_of(j[1]) for v in ctx.violations):
            if best is None or len(h) < len(best[0]):
                best = (h, j)
    if best:
        before = len(ctx.violations)
        report(ctx, best[0], best[1], "search after broken %s %s" % (broken["kind"], broken["name"]), do_shrink=False)
        if len(ctx.violations) > before:
            return ctx.violations.pop()
    return None

def replay(ctx, path):
    r = json.load(open(path))["replay"]
    h = r.get("history")
    if not h:
        print(json.dumps(r)); return 0
    om = K.run_model([h], full=True)[0]
    oi, _ = K.run_impl([h], full=True, wd_ms=5000, budget=3)
    oi = oi[0]
    j = judge_history(h, oi)
    for k, op in enumerate(h):
        print("op   :", op)
        print("model:", om[k] if k < len(om) else None)
        print("impl :", oi[k] if oi and k < len(oi) else None)
    print("spec :", "no contradiction with DOM Traversal / DOM Range found in the implementation's outputs" if j is None else
          "operation %d %r: [%s] %s" % (j[0], h[j[0]], j[1], j[2]))
    return 0
