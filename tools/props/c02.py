"""C02 — fatal error iff the document is not well-formed.

Theorems: XV.Props.C02 (character tables of both XML versions = the productions, for all 65536 units and all 8 flags;
severity partition of the error-code enum; the reference recogniser accepts exactly the renderings of well-formed
trees, see the Lean file for the fragment).

Ties.  (1) translator: Gen/CharTables, Gen/ErrCodes regenerated every run; the harness reads both tables back through
the public XMLChar1_0/XMLChar1_1 API for all 65536 units and the result is compared with the generated Lean tables
(translator validation) and with the Lean Spec classes (implementation vs Spec -> one-character documents).
(2) correspondence: documents are drawn as syntax trees by a coverage-driven generator (valid stream), rendered by the
Python renderer below, and mutated by exactly one constraint violation (malformed stream); a third stream enumerates
ALL short strings over a markup alphabet.  Every document is judged by the Lean reference processor
(`xvdriver xmlwf`: ok / ok+nsfatal / fatal / unsupported) and run on the real library under
4 APIs x 4 scanners x namespaces on/off (harness/hx_wf.cpp); the library must report >=1 fatal error (or a documented
exception) iff the reference says not well-formed (namespace constraints: iff namespaces are on).  SG/WF scanners only
on DOCTYPE-free documents.  The generator's own expectation is compared with the reference too (spec disagreement =
generator/renderer/reference bug, reported separately, never as a defect of the library)."""
import json, os, re, threading
import common

PID = "C02"
GEN = ["CharTables", "ErrCodes"]
LEAN_MODULE = "XV.Props.C02"
THEOREMS = ["XV.Props.C02." + t for t in (
    "charTable10_eq_spec", "charTable11_eq_spec", "masks_are_classes", "flags11_productions", "fatal_partition", "wf_codes_fatal",
    "parse_render", "parse_sound", "accepted_iff", "violation_fatal", "render_injective",
    "mismatched_tag_fatal", "dup_attr_fatal", "lt_in_attvalue_fatal", "cdata_end_in_text_fatal", "bad_charref_fatal",
    "undeclared_entity_fatal", "illegal_char_fatal", "accepted_has_no_violation", "parse_sound_dtd_partial")]
RULE = ("evaluations = number of (document, configuration) parses judged against the reference verdict; a document is "
        "non-trivial when the reference accepts it or rejects it after the first 2 characters' worth of structure "
        "(i.e. it contains at least one complete tag); distinct by document bytes")
ASSUMPTIONS = ["documents are UTF-8 (with or without BOM / encoding declaration naming UTF-8); other encodings are C05's",
               "validation off, no external entity/DTD access; DOCTYPE with external ID or parameter-entity references answers 'unsupported' and is not judged",
               "VersionNum other than 1.0/1.1 is read as XML 1.0 (5th edition rule)"]
TRUSTED = ["XV.Spec.XmlChar (XML 1.0 5th ed. / 1.1 productions [2] [2a] [3] [4] [4a]) as transcribed",
           "XV.Spec.Xml (Doc, render, WF, nsDoc, parse) as transcribed", "XV.Spec.Utf8 decoder in front of the reference parser"]

SCANNERS_ALL = ["IG", "WF", "DG", "SG"]
APIS = ["sax", "sax2", "dom", "ls"]

def hexbytes(b):
    return ".".join("%x" % x for x in b) if b else "-"

def enc(s):
    """str (may contain lone surrogates / any int via chr) -> utf-8 bytes, surrogates passed through"""
    return s.encode("utf-8", "surrogatepass")

# ------------------------------------------------------------------ error-code names (from the translator's parse)
_codes = {}
def code_names():
    if not _codes:
        import translate_more
        c, _ = translate_more.enum_codes("framework/XMLErrorCodes.hpp", "XMLErrs")
        _codes["byval"] = {v: n for n, v in c}
        _codes["byname"] = dict(c)
    return _codes

def code_name(tok):
    """'fatal:180' -> 'ExpectedEndOfTagX'"""
    m = re.match(r"fatal:(-?\d+)(.*)", tok)
    if not m:
        return tok
    rest = m.group(2)
    if rest.startswith(":http://apache.org/xml/messages/XML4CErrors"):     # an XMLException turned into a fatal error
        return "XMLException(XMLExcepts code %s)%s" % (m.group(1), rest[len(":http://apache.org/xml/messages/XML4CErrors"):])
    n = code_names()["byval"].get(int(m.group(1)), m.group(1))
    return "%s%s" % (n, rest)

# ------------------------------------------------------------------ running both sides
def run_driver_lines(area, lines):
    if not lines:
        return []
    out = common.run_driver([area], input=("\n".join(lines) + "\n").encode(), timeout=3000).decode(errors="replace").split("\n")
    if out and out[-1] == "":
        out.pop()
    if len(out) != len(lines):
        raise common.InfraError("xvdriver %s: %d lines for %d cases" % (area, len(out), len(lines)))
    return out

def run_impl(lines, nproc=None, keep_order=False):
    """lines: '<configs> <hex>' -> list of observation lines (CRASH ... on crash), crashes"""
    if not lines:
        return [], []
    common.build_harness("hx_wf")
    nproc = nproc or min(common.NCPU, max(1, len(lines) // 200))
    if not keep_order:
        # A parser object that has read an XML 1.1 document keeps 1.1 character rules for the next document without a
        # declaration (finding 'history:xml-version-leaks'); to keep every other verdict independent of that, documents
        # mentioning 1.1 run last in each process.  The leak itself is tested by explicit sequences (SEQUENCES).
        def polluter(l):
            h = l.split(" ", 1)[1]
            if h.startswith("ef.bb.bf."):
                h = h[9:]
            return h.startswith("3c.3f.78.6d.6c") and ".31.2e.31" in h[:240]
        order = sorted(range(len(lines)), key=lambda k: (1 if polluter(lines[k]) else 0, k))
        o2, c2 = run_impl([lines[k] for k in order], nproc, keep_order=True)
        out = [None] * len(lines)
        for j, k in enumerate(order):
            out[k] = o2[j]
        return out, [(order[pos], line, summ) for pos, line, summ in c2]
    per = (len(lines) + nproc - 1) // nproc
    chunks = [lines[k * per:(k + 1) * per] for k in range(nproc)]
    res = [None] * nproc
    def work(k):
        res[k] = common.run_lines_resilient("hx_wf", chunks[k], timeout=3000)
    th = [threading.Thread(target=work, args=(k,)) for k in range(nproc)]
    for t in th: t.start()
    for t in th: t.join()
    out = [None] * len(lines)
    crashes = []
    for k in range(nproc):
        o, c = res[k]
        for j, v in enumerate(o):
            out[k * per + j] = v
        for (pos, line, summ) in c:
            crashes.append((k * per + pos, line, summ))
    return out, crashes

def parse_obs(line):
    """'cfg=obs cfg=obs' -> dict"""
    d = {}
    for tok in line.split():
        if "=" in tok:
            c, o = tok.split("=", 1)
            d[c] = o
    return d

REPORTED_EXC = ("exc:XMLException", "exc:SAXParseException", "exc:SAXException", "exc:DOMLSException", "exc:DOMException")

def reported(o):
    """did the library report the document as not well-formed (>=1 fatal error or a documented exception)?"""
    return o.startswith("fatal:") or o.startswith(REPORTED_EXC)

def bad_obs(o):
    return o.startswith("CRASH") or "FOREIGN" in o or "OutOfMemory" in o or "!nohandler" in o or o in ("NO-OUTPUT", "bad-op")

# ------------------------------------------------------------------ judge
def ref_class(r):
    """reference verdict line -> ('ok'|'nsfatal'|'fatal'|'unsupported', why)"""
    if r == "ok ok":
        return "ok", ""
    if r.startswith("ok nsfatal:"):
        return "nsfatal", r[len("ok nsfatal:"):]
    if r.startswith("fatal:"):
        return "fatal", r[6:]
    if r.startswith("unsupported:") or r.startswith("ok unsupported:"):
        return "unsupported", r.split(":", 1)[1]
    raise common.InfraError("xmlwf driver: " + r[:200])

def why_key(why):
    w = re.sub(r"_at_\d+", "", why)
    if w.startswith("encoding_"):
        w = "encoding"
    w = re.sub(r"[^A-Za-z0-9_<>'\-:]", "", w)
    return w[:70]

def judge(doc_bytes, ref, obs_line):
    """-> list of (key, what, cfgs) contradictions between the library and the reference verdict"""
    cls, why = ref_class(ref)
    if obs_line.startswith("CRASH") or obs_line in ("NO-OUTPUT", "bad-op"):
        return [("crash", "harness died / no output: " + obs_line[:200], ["?"])]
    obs = parse_obs(obs_line)
    res = {}
    for cfg, o in obs.items():
        ns_on = cfg.endswith("/1") or "/SG/" in cfg     # SGXMLScanner: "setting [namespaces] to off has no effect" (doc/program-others.xml)
        if bad_obs(o):
            res.setdefault(("bad-observation:" + re.sub(r"[^A-Za-z\-!]", "", o)[:30], "observation %s" % o), []).append(cfg)
            continue
        if cls == "unsupported":
            continue
        want_fatal = cls == "fatal" or (cls == "nsfatal" and ns_on)
        got = reported(o)
        if want_fatal and not got:
            k = ("accepted-malformed:" if cls == "fatal" else "ns-accepted-malformed:") + why_key(why)
            res.setdefault((k, "reference: not well-formed (%s); library reports no fatal error" % why), []).append(cfg)
        elif not want_fatal and got:
            what_ = code_name(o).split("+")[0].split("!")[0] if o.startswith("fatal") else re.sub(r"[^A-Za-z0-9]+", "-", o[4:]).strip("-")
            k = "rejected-wellformed:" + what_
            res.setdefault((k, "reference: well-formed%s; library reports %s" % (" (namespace constraints do not apply with namespaces off)" if cls == "nsfatal" else "", code_name(o))), []).append(cfg)
    return [(k, w, cfgs) for (k, w), cfgs in res.items()]

def nontrivial(doc_bytes):
    return b">" in doc_bytes and b"<" in doc_bytes

# ------------------------------------------------------------------ document generator (syntax trees)
NAME_START_ASCII = "abcdefghijklmnopqrstuvwxyzABCDEFGHIJKLMNOPQRSTUVWXYZ_"
NAME_CHAR_ASCII = NAME_START_ASCII + "0123456789.-"
# boundary characters of the name classes (5th edition): (char, isNameStart, isNameChar)
NAME_EDGE = [(0xB7, 0, 1), (0xC0, 1, 1), (0xD6, 1, 1), (0xD7, 0, 0), (0xD8, 1, 1), (0xF6, 1, 1), (0xF7, 0, 0), (0xF8, 1, 1),
             (0x2FF, 1, 1), (0x300, 0, 1), (0x36F, 0, 1), (0x370, 1, 1), (0x37D, 1, 1), (0x37E, 0, 0), (0x37F, 1, 1), (0x1FFF, 1, 1),
             (0x2000, 0, 0), (0x200C, 1, 1), (0x200D, 1, 1), (0x200E, 0, 0), (0x203F, 0, 1), (0x2040, 0, 1), (0x2041, 0, 0),
             (0x206F, 0, 0), (0x2070, 1, 1), (0x218F, 1, 1), (0x2190, 0, 0), (0x2BFF, 0, 0), (0x2C00, 1, 1), (0x2FEF, 1, 1),
             (0x2FF0, 0, 0), (0x3000, 0, 0), (0x3001, 1, 1), (0xD7FF, 1, 1), (0xE000, 0, 0), (0xF8FF, 0, 0), (0xF900, 1, 1),
             (0xFDCF, 1, 1), (0xFDD0, 0, 0), (0xFDEF, 0, 0), (0xFDF0, 1, 1), (0xFFFD, 1, 1), (0x10000, 1, 1), (0xEFFFF, 1, 1),
             (0xF0000, 0, 0), (0x10FFFF, 0, 0), (0x132, 1, 1), (0x2160, 1, 1), (0x660, 1, 1), (0x2D, 0, 1), (0x2E, 0, 1), (0x30, 0, 1)]
TEXT_EDGE = [0x9, 0xA, 0xD, 0x20, 0x7E, 0x7F, 0x80, 0x84, 0x85, 0x86, 0x9F, 0xA0, 0xD7FF, 0xE000, 0xFFFD, 0x10000, 0x10FFFF, 0x2028, 0x2029,
             0x3E, 0x5D, 0x22, 0x27, 0x2D, 0x3F, 0x21, 0x5B, 0x3D, 0x2F, 0x23, 0x3B, 0x25]
ILLEGAL_10 = [0x1, 0x8, 0xB, 0xC, 0xE, 0x1F, 0xFFFE, 0xFFFF, 0x0]
ILLEGAL_11 = [0x1, 0x8, 0xB, 0xC, 0xE, 0x1F, 0x7F, 0x84, 0x86, 0x9F, 0xFFFE, 0xFFFF, 0x0]

def is_char10(c):
    return c in (9, 10, 13) or 0x20 <= c <= 0xD7FF or 0xE000 <= c <= 0xFFFD or 0x10000 <= c <= 0x10FFFF
def is_char11(c):
    return 1 <= c <= 0xD7FF or 0xE000 <= c <= 0xFFFD or 0x10000 <= c <= 0x10FFFF
def is_restricted11(c):
    return 1 <= c <= 8 or 0xB <= c <= 0xC or 0xE <= c <= 0x1F or 0x7F <= c <= 0x84 or 0x86 <= c <= 0x9F
def literal_ok(v11, c):
    return (is_char11(c) and not is_restricted11(c)) if v11 else is_char10(c)

class G:
    """coverage-driven generator of Doc trees; every constructor / lexical alternative drawn is counted in .cov"""
    def __init__(self, rng):
        self.r = rng
        self.cov = {}
        self.v11 = False
        self.size = 0
        self.ents = {}
    def hit(self, k):
        self.cov[k] = self.cov.get(k, 0) + 1
    def pick(self, tag, options):
        """coverage-driven choice: prefer the alternative drawn least so far (with some randomness)"""
        r = self.r
        if r.chance(1, 3):
            o = r.choice(options)
        else:
            m = min(self.cov.get(tag + "." + str(o), 0) for o in options)
            o = r.choice([o for o in options if self.cov.get(tag + "." + str(o), 0) == m])
        self.hit(tag + "." + str(o))
        return o
    def ws(self, tag, allow_empty):
        n = self.pick(tag + ".len", ([0] if allow_empty else []) + [1, 1, 2])
        s = "".join(self.pick("S.char", [" ", "\t", "\n", "\r"]) if self.r.chance(1, 2) else " " for _ in range(n))
        return s
    def name(self, nc=True):
        r = self.r
        k = self.pick("name.kind", ["a", "ascii", "edge"])
        if k == "a":
            return r.choice(["a", "b", "c", "e", "x1"])
        s = r.choice(NAME_START_ASCII)
        if k == "edge":
            c = r.choice([e for e in NAME_EDGE if e[1]])
            s = chr(c[0]); self.hit("name.start.%x" % c[0])
        for _ in range(r.below(4)):
            if k == "edge" and r.chance(1, 2):
                c = r.choice([e for e in NAME_EDGE if e[2]]); s += chr(c[0]); self.hit("name.char.%x" % c[0])
            else:
                s += r.choice(NAME_CHAR_ASCII)
        if len(s) == 3 and s.lower() == "xml":
            s += "_"
        return s
    def charref(self, what):
        r = self.r
        if what == "text":
            cands = [0x41, 0x3C, 0x26, 0x5D, 0x3E, 0x9, 0xA, 0xD, 0x20, 0xD7FF, 0xE000, 0xFFFD, 0x10000, 0x10FFFF, 0x85, 0x2028]
        else:
            cands = [0x41, 0x3C, 0x26, 0x22, 0x27, 0x9, 0xA, 0xD, 0x20, 0xFFFD, 0x10FFFF]
        if self.v11:
            cands += [0x1, 0x1F, 0x7F, 0x9F]
        else:
            cands += [0x7F, 0x9F]
        c = r.choice(cands)
        hexa = self.pick("cref.radix", ["hex", "dec"]) == "hex"
        d = ("%x" % c) if hexa else str(c)
        if hexa and r.chance(1, 2):
            d = d.upper(); self.hit("cref.hex.upper")
        z = self.pick("cref.leadingzeros", [0, 0, 1, 7])
        return ("cref", hexa, "0" * z + d)
    def text_char(self, forbid):
        r = self.r
        k = self.pick("char.kind", ["ascii", "ascii", "edge"])
        for _ in range(20):
            c = r.choice(TEXT_EDGE) if k == "edge" else 0x20 + r.below(0x5F)
            if chr(c) in forbid or not literal_ok(self.v11, c):
                continue
            if k == "edge": self.hit("char.%x" % c)
            return chr(c)
        return "t"
    def pieces(self, q):
        r = self.r
        out = []
        for _ in range(self.pick("attval.len", [0, 1, 2, 5])):
            k = self.pick("piece", ["ch", "ch", "cref", "eref", "otherquote", "gt"])
            if k == "ch":
                out.append(("ch", self.text_char("<&" + q)))
            elif k == "cref":
                out.append(self.charref("att"))
            elif k == "eref":
                safe = [n for n, e in self.ents.items() if e[2]]
                if safe and self.r.chance(1, 2):
                    out.append(("eref", self.r.choice(safe))); self.hit("attval.entityref")
                else:
                    out.append(("eref", self.pick("predef", ["lt", "gt", "amp", "apos", "quot"])))
            elif k == "otherquote":
                out.append(("ch", "'" if q == '"' else '"'))
            else:
                out.append(("ch", ">"))
        return out
    def attr(self, used):
        for _ in range(10):
            n = self.name()
            if n not in used and not n.startswith("xmlns") and ":" not in n:
                break
        else:
            n = "q%d" % len(used)
        used.add(n)
        q = self.pick("quote", ['"', "'"])
        return {"pre": self.ws("att.pre", False), "name": n, "eq": (self.ws("eq.pre", True), self.ws("eq.post", True)),
                "q": q, "val": self.pieces(q)}
    def tag(self, name):
        used = set()
        atts = [self.attr(used) for _ in range(self.pick("tag.natts", [0, 0, 1, 2, 4]))]
        return {"name": name, "atts": atts, "ws": self.ws("tag.ws", True)}
    def comment(self):
        r = self.r
        s = ""
        for _ in range(self.pick("comment.len", [0, 1, 4])):
            k = self.pick("comment.char", ["c", "dash", "lt", "amp", "gt"])
            if k == "dash":
                if s.endswith("-"): s += "x"
                s += "-"
            else:
                s += {"c": self.text_char(""), "lt": "<", "amp": "&", "gt": ">"}[k]
        if s.endswith("-"):
            s += " "
        s = s.replace("--", "- -")
        return ("comment", s)
    def pi(self):
        t = self.name()
        if self.pick("pi.data", ["none", "data", "data", "emptydata"]) == "none":
            return ("pi", t, "", "")
        sp = self.ws("pi.sp", False)
        d = ""
        if self.cov.get("pi.data.emptydata", 0) and self.r.chance(1, 5):
            return ("pi", t, sp, "")
        for _ in range(self.r.below(6)):
            k = self.pick("pi.char", ["c", "q", "gt", "lt", "ws"])
            d += {"c": self.text_char(""), "q": "?", "gt": ">" if not d.endswith("?") else "x", "lt": "<", "ws": " "}[k]
        d = d.replace("?>", "? >").lstrip(" \t\r\n")
        return ("pi", t, sp, d)
    def cdata(self):
        s = ""
        for _ in range(self.pick("cdata.len", [0, 1, 5])):
            k = self.pick("cdata.char", ["c", "rb", "gt", "lt", "amp"])
            s += {"c": self.text_char(""), "rb": "]", "gt": ">", "lt": "<", "amp": "&"}[k]
        s = s.replace("]]>", "]] >")
        return ("cdata", s)
    def misc(self, where):
        out = []
        for _ in range(self.pick(where + ".nmisc", [0, 0, 1, 3])):
            k = self.pick(where + ".misc", ["ws", "comment", "pi"])
            if k == "ws":
                out.append(("ch", self.pick("S.char", [" ", "\t", "\n", "\r"])))
            elif k == "comment":
                out.append(self.comment())
            else:
                out.append(self.pi())
        return out
    def content(self, depth):
        out = []
        n = self.pick("content.len", [0, 1, 2, 4, 7])
        for _ in range(n):
            k = self.pick("content", ["text", "text", "cref", "eref", "cdata", "comment", "pi", "elem", "elem", "rb", "gt"])
            if k == "text":
                for _ in range(1 + self.r.below(4)):
                    out.append(("leaf", ("ch", self.text_char("<&"))))
            elif k == "rb":
                out.append(("leaf", ("ch", "]")))
                if self.r.chance(1, 2):
                    out.append(("leaf", ("ch", "]")))
            elif k == "gt":
                out.append(("leaf", ("ch", ">")))
            elif k == "cref":
                out.append(("leaf", self.charref("text")))
            elif k == "eref":
                safe = [n for n, e in self.ents.items() if e[1]]
                if safe and self.r.chance(2, 3):
                    out.append(("leaf", ("eref", self.r.choice(safe)))); self.hit("content.entityref")
                else:
                    out.append(("leaf", ("eref", self.pick("predef", ["lt", "gt", "amp", "apos", "quot"]))))
            elif k == "cdata":
                out.append(("leaf", self.cdata()))
            elif k == "comment":
                out.append(("leaf", self.comment()))
            elif k == "pi":
                out.append(("leaf", self.pi()))
            else:
                out.append(self.element(depth + 1))
        # no ]]> across adjacent literal characters
        fixed = []
        for nd in out:
            if (nd[0] == "leaf" and nd[1] == ("ch", ">") and len(fixed) >= 2 and fixed[-1] == ("leaf", ("ch", "]"))
                    and fixed[-2] == ("leaf", ("ch", "]"))):
                fixed.append(("leaf", ("cref", False, "62")))
            else:
                fixed.append(nd)
        return fixed
    def element(self, depth, name=None):
        self.size += 1
        name = name or self.name()
        t = self.tag(name)
        form = self.pick("element.form", ["empty", "pair", "pair"] if depth < 4 and self.size < 14 else ["empty", "pair-empty"])
        if form == "empty":
            return ("empty", t)
        kids = self.content(depth) if form == "pair" else []
        return ("elem", t, kids, name, self.ws("etag.ws", True))
    # ---- DOCTYPE with an internal subset
    def cspec(self, depth=0):
        k = self.pick("contentspec", ["EMPTY", "ANY", "pcdata", "mixed", "children", "children"]) if depth == 0 else "children"
        w = lambda: self.ws("cm.ws", True)
        if k in ("EMPTY", "ANY"):
            return k
        if k == "pcdata":
            return "(" + w() + "#PCDATA" + w() + ")" + self.r.choice(["", "*"])
        if k == "mixed":
            return "(" + w() + "#PCDATA" + "".join(w() + "|" + w() + self.name() for _ in range(1 + self.r.below(3))) + w() + ")*"
        sep = self.pick("cm.sep", [",", "|"])
        n = self.pick("cm.n", [1, 2, 3])
        items = []
        for _ in range(n):
            if depth < 2 and self.r.chance(1, 4):
                items.append(self.cspec(depth + 1))
            else:
                items.append(self.name() + self.pick("cm.occ", ["", "?", "*", "+"]))
        return "(" + w() + (w() + sep + w()).join(items) + w() + ")" + self.pick("cm.occ", ["", "?", "*", "+"])
    def atttype(self):
        k = self.pick("atttype", ["CDATA", "ID", "IDREF", "IDREFS", "ENTITY", "ENTITIES", "NMTOKEN", "NMTOKENS", "enum", "notation"])
        w = lambda: self.ws("enum.ws", True)
        if k == "enum":
            return "(" + w() + (w() + "|" + w()).join(self.r.choice(["a", "b1", "-x", "1", ".."]) + str(i) for i in range(1 + self.r.below(3))) + w() + ")"
        if k == "notation":
            return "NOTATION" + self.ws("notation.ws", False) + "(" + w() + (w() + "|" + w()).join("n%d" % i for i in range(1 + self.r.below(2))) + w() + ")"
        return k
    def doctype(self, rootname):
        """-> dict(text, misc, ents) ; ents: name -> (kind, content_safe, att_safe)"""
        r = self.r
        S = lambda tag: self.ws(tag, False)
        So = lambda tag: self.ws(tag, True)
        ents = {}
        order = []
        out = "<!DOCTYPE" + S("doctype.s1") + (rootname if r.chance(3, 4) else self.name())
        out += So("doctype.s2")
        if self.pick("doctype.subset", ["none", "subset", "subset", "subset"]) == "subset":
            out += "["
            for _ in range(self.pick("dtd.ndecl", [0, 1, 3, 6])):
                k = self.pick("decl", ["ws", "comment", "pi", "element", "attlist", "entity", "entity", "entity-ext", "notation"])
                if k == "ws":
                    out += self.pick("S.char", [" ", "\t", "\n", "\r"])
                elif k == "comment":
                    out += r_leaf(self.comment())
                elif k == "pi":
                    out += r_leaf(self.pi())
                elif k == "element":
                    out += "<!ELEMENT" + S("decl.s") + self.name() + S("decl.s") + self.cspec() + So("decl.end") + ">"
                elif k == "attlist":
                    out += "<!ATTLIST" + S("decl.s") + self.name()
                    for _ in range(self.pick("attlist.n", [0, 1, 2])):
                        out += S("attdef.s") + self.name() + S("attdef.s") + self.atttype() + S("attdef.s")
                        dk = self.pick("default", ["#REQUIRED", "#IMPLIED", "#FIXED", "value"])
                        if dk in ("#REQUIRED", "#IMPLIED"):
                            out += dk
                        else:
                            q = self.pick("quote", ['"', "'"])
                            ps = self.pieces(q)
                            safe = [n for n in order if ents[n][2]]
                            if safe and r.chance(1, 2):
                                ps.insert(r.below(len(ps) + 1), ("eref", r.choice(safe))); self.hit("default.entityref")
                            out += ("#FIXED" + S("fixed.s") if dk == "#FIXED" else "") + q + "".join(r_piece(x) for x in ps) + q
                    out += So("decl.end") + ">"
                elif k == "entity":
                    n = "e%d" % len(ents) if r.chance(3, 4) else self.name().replace(":", "_") + "%d" % len(ents)
                    q = self.pick("quote", ['"', "'"])
                    vk = self.pick("entity.value", ["text", "charrefs", "nested", "element", "escaped-lt", "empty", "att-only", "garbage-unused"])
                    cs = as_ = True
                    if vk == "text":
                        val = "".join(self.text_char("<&%" + q) for _ in range(1 + r.below(4)))
                    elif vk == "charrefs":
                        val = "x&#65;&#x42;" + r.choice(["&#38;#38;", "&#38;lt;", "&#x26;#60;", ""])
                    elif vk == "nested":
                        cands = [m for m in order if ents[m][0] == "internal"]
                        if cands:
                            m = r.choice(cands); val = "[&" + m + ";]"; cs, as_ = ents[m][1], ents[m][2]
                        else:
                            val = "n&amp;"
                    elif vk == "element":
                        val = r.choice(["<b>x</b>", "<b/>", "t<b a=%s1%s/>u" % (("'", "'") if q == '"' else ('"', '"')), "<!--c--><?p d?>", "<![CDATA[<]]>"]); as_ = False
                    elif vk == "escaped-lt":
                        val = r.choice(["&#60;b/>", "&#x3C;b>y&#60;/b>"]); as_ = False
                    elif vk == "empty":
                        val = ""
                    elif vk == "att-only":
                        val = r.choice(["a]]&gt;b", "a &#38;#38; b"])
                    else:
                        val = r.choice(["<b>", "</b>", "&" + n + ";", "&undeclared;", "a<b", "&#38;", "<b></c>", "]]>"]); cs = as_ = False
                        if val == "]]>": as_ = True
                    ents[n] = ("internal", cs, as_); order.append(n)
                    out += "<!ENTITY" + S("decl.s") + n + S("decl.s") + q + val + q + So("decl.end") + ">"
                elif k == "entity-ext":
                    n = "x%d" % len(ents)
                    q = self.pick("quote", ['"', "'"])
                    ident = ("SYSTEM" + S("extid.s") + q + "u.ent" + q) if r.chance(1, 2) else ("PUBLIC" + S("extid.s") + q + "-//p//" + q + S("extid.s") + "'u.ent'")
                    nd = self.pick("ndata", ["no", "yes"]) == "yes"
                    ents[n] = ("unparsed" if nd else "external", False, False); order.append(n)
                    out += "<!ENTITY" + S("decl.s") + n + S("decl.s") + ident + ((S("ndata.s") + "NDATA" + S("ndata.s") + "n0") if nd else "") + So("decl.end") + ">"
                else:
                    q = self.pick("quote", ['"', "'"])
                    ident = self.pick("notation.id", ["SYSTEM", "PUBLIC", "PUBLIC2"])
                    it = {"SYSTEM": "SYSTEM" + S("extid.s") + q + "prog" + q, "PUBLIC": "PUBLIC" + S("extid.s") + q + "-//n//" + q,
                          "PUBLIC2": "PUBLIC" + S("extid.s") + q + "-//n//" + q + S("extid.s") + q + "prog" + q}[ident]
                    out += "<!NOTATION" + S("decl.s") + "n%d" % r.below(3) + S("decl.s") + it + So("decl.end") + ">"
            out += "]" + So("doctype.s3")
        out += ">"
        return {"text": out, "misc": self.misc("afterdoctype"), "ents": ents}
    def pseudo(self):
        return {"pre": self.ws("decl.pre", False), "eq": (self.ws("decl.eq.pre", True), self.ws("decl.eq.post", True)),
                "q": self.pick("decl.quote", ['"', "'"])}
    def doc(self):
        self.size = 0
        decl = None
        dk = self.pick("decl", ["none", "none", "1.0", "1.0", "1.1", "1.x"])
        self.v11 = dk == "1.1"
        if dk != "none":
            minor = {"1.0": "0", "1.1": "1", "1.x": self.r.choice(["2", "00", "10", "01", "9"])}[dk]
            decl = {"version": self.pseudo(), "minor": minor, "encoding": None, "standalone": None, "ws": self.ws("decl.ws", True)}
            if self.pick("decl.encoding", ["none", "utf8"]) == "utf8":
                decl["encoding"] = (self.pseudo(), self.pick("decl.encname", ["UTF-8", "utf-8", "Utf-8"]))
            sd = self.pick("decl.standalone", ["none", "yes", "no"])
            if sd != "none":
                decl["standalone"] = (self.pseudo(), sd == "yes")
        self.ents = {}
        pre = self.misc("prolog")
        dt = None
        rootname = self.name()
        if self.pick("doctype", ["none", "none", "doctype"]) == "doctype":
            dt = self.doctype(rootname)
            self.ents = dt["ents"]
        root = self.element(0, rootname)
        d = {"decl": decl, "pre": pre, "doctype": dt, "root": root, "post": self.misc("epilog")}
        # a document without XMLDecl must not start with a PI that reads as one
        return d

# ------------------------------------------------------------------ renderer (independent of the Lean one)
def r_ref(p):
    if p[0] == "cref":
        return "&#" + ("x" if p[1] else "") + p[2] + ";"
    return "&" + p[1] + ";"
def r_piece(p):
    return p[1] if p[0] == "ch" else r_ref(p)
def r_attr(a):
    return a["pre"] + a["name"] + a["eq"][0] + "=" + a["eq"][1] + a["q"] + "".join(r_piece(p) for p in a["val"]) + a["q"]
def r_tagopen(t):
    return "<" + t["name"] + "".join(r_attr(a) for a in t["atts"]) + t["ws"]
def r_leaf(l):
    k = l[0]
    if k == "ch": return l[1]
    if k in ("cref", "eref"): return r_ref(l)
    if k == "cdata": return "<![CDATA[" + l[1] + "]]>"
    if k == "comment": return "<!--" + l[1] + "-->"
    if k == "pi": return "<?" + l[1] + l[2] + l[3] + "?>"
    raise ValueError(k)
def r_node(n):
    if n[0] == "leaf": return r_leaf(n[1])
    if n[0] == "empty": return r_tagopen(n[1]) + "/>"
    return r_tagopen(n[1]) + ">" + "".join(r_node(k) for k in n[2]) + "</" + n[3] + n[4] + ">"
def r_pseudo(p, name, val):
    return p["pre"] + name + p["eq"][0] + "=" + p["eq"][1] + p["q"] + val + p["q"]
def r_decl(d):
    s = "<?xml" + r_pseudo(d["version"], "version", "1." + d["minor"])
    if d["encoding"]: s += r_pseudo(d["encoding"][0], "encoding", d["encoding"][1])
    if d["standalone"]: s += r_pseudo(d["standalone"][0], "standalone", "yes" if d["standalone"][1] else "no")
    return s + d["ws"] + "?>"
def r_doc(d):
    s = r_decl(d["decl"]) if d["decl"] else ""
    s += "".join(r_leaf(l) for l in d["pre"])
    if d["doctype"]:
        s += d["doctype"]["text"] + "".join(r_leaf(l) for l in d["doctype"]["misc"])
    return s + r_node(d["root"]) + "".join(r_leaf(l) for l in d["post"])

# ------------------------------------------------------------------ single-violation mutations
def all_elems(n, acc):
    if n[0] in ("elem", "empty"):
        acc.append(n)
        if n[0] == "elem":
            for k in n[2]:
                all_elems(k, acc)
    return acc

def replace_node(root, old, new):
    if root is old:
        return new
    if root[0] == "elem":
        return ("elem", root[1], [replace_node(k, old, new) for k in root[2]], root[3], root[4])
    return root

def strip_erefs(n, keep):
    """replace references to declared (non-predefined) entities, except `keep`, by text (the DOCTYPE is being replaced)"""
    PRE = ("lt", "gt", "amp", "apos", "quot")
    def piece(p):
        return ("ch", "r") if p[0] == "eref" and p[1] not in PRE and p[1] != keep else p
    def tag(t):
        t = dict(t); t["atts"] = [dict(a, val=[piece(p) for p in a["val"]]) for a in t["atts"]]; return t
    if n[0] == "leaf":
        return ("leaf", piece(n[1])) if n[1][0] == "eref" else n
    if n[0] == "empty":
        return ("empty", tag(n[1]))
    return ("elem", tag(n[1]), [strip_erefs(k, keep) for k in n[2]], n[3], n[4])

def as_pair(n):
    return n if n[0] == "elem" else ("elem", n[1], [], n[1]["name"], "")

def with_kid(el, kid, r, front=None):
    el = as_pair(el)
    pos = r.below(len(el[2]) + 1) if front is None else (0 if front else len(el[2]))
    kids = list(el[2]); kids.insert(pos, kid)
    return ("elem", el[1], kids, el[3], el[4])

def mutate(doc, r, v11):
    """apply exactly one constraint violation; returns (kind, expectation 'fatal'|'nsfatal', text)"""
    els = all_elems(doc["root"], [])
    el = r.choice(els)
    kinds = ["mismatched_tag", "dup_attr", "lt_in_attvalue", "cdata_end_in_text", "bad_charref", "undeclared_entity", "illegal_char",
             "dashes_in_comment", "pi_target_xml", "xmldecl_not_first", "amp_alone", "att_no_quotes", "att_no_value", "att_no_space",
             "two_roots", "text_after_root", "text_before_root", "bad_name", "etag_with_att", "space_after_lt", "cdata_outside_root",
             "ref_outside_root", "unterminated", "truncate", "bad_utf8", "decl_error", "nested_comment_end",
             "ns_unbound_prefix", "ns_dup_expanded", "ns_bad_decl", "ns_bad_qname", "ns_pi_colon",
             "supp_in_name", "supp_in_name",
             "dtd_entity_use", "dtd_entity_use", "dtd_default", "dtd_syntax", "dtd_syntax", "dtd_misplaced", "dtd_bad_entity_value", "dtd_ns_colon", "dtd_ns_qname"]
    k = r.choice(kinds)
    if k in ("dtd_ns_colon", "dtd_ns_qname") and doc["doctype"] is not None:
        k = "ns_pi_colon"
    d = dict(doc)
    def setroot(new):
        d["root"] = replace_node(doc["root"], el, new)
    exp = "fatal"
    if k == "mismatched_tag":
        e = as_pair(el)
        other = e[3] + "x" if r.chance(1, 2) else ("b" if e[3] != "b" else "c")
        if r.chance(1, 4): other = e[3].swapcase() if e[3].swapcase() != e[3] else other
        setroot(("elem", e[1], e[2], other, e[4]))
    elif k == "dup_attr":
        t = dict(el[1]); atts = list(t["atts"])
        if not atts:
            atts.append({"pre": " ", "name": "d", "eq": ("", ""), "q": '"', "val": []})
        a = dict(r.choice(atts)); a["pre"] = " "; a["val"] = [("ch", "z")]
        if r.chance(1, 3):      # many attributes: the scanners switch to a hash-based duplicate check beyond a threshold
            have = {x["name"] for x in atts}
            for i in range(r.choice([5, 20, 110])):
                if "pad%d" % i not in have:
                    atts.insert(r.below(len(atts) + 1), {"pre": " ", "name": "pad%d" % i, "eq": ("", ""), "q": "'", "val": []})
        atts.insert(r.below(len(atts) + 1), a); t["atts"] = atts
        setroot((el[0], t) + tuple(el[2:]))
    elif k == "lt_in_attvalue":
        t = dict(el[1]); atts = list(t["atts"])
        if not atts:
            atts.append({"pre": " ", "name": "d", "eq": ("", ""), "q": '"', "val": []})
        i = r.below(len(atts)); a = dict(atts[i]); v = list(a["val"]); v.insert(r.below(len(v) + 1), ("ch", "<")); a["val"] = v
        atts[i] = a; t["atts"] = atts
        setroot((el[0], t) + tuple(el[2:]))
    elif k == "cdata_end_in_text":
        e = as_pair(el); kids = list(e[2]); pos = r.below(len(kids) + 1)
        kids[pos:pos] = [("leaf", ("ch", "]")), ("leaf", ("ch", "]")), ("leaf", ("ch", ">"))]
        setroot(("elem", e[1], kids, e[3], e[4]))
    elif k == "bad_charref":
        bad = r.choice(["&#0;", "&#x0;", "&#xFFFE;", "&#xFFFF;", "&#xD800;", "&#xDFFF;", "&#x110000;", "&#1114112;", "&#;", "&#x;", "&#xG;",
                        "&#12a;", "&#65", "&#x41", "&# 65;", "&#X41;", "&#99999999999999999999;", "&#x100000000;", "&#-1;"]
                       + ([] if v11 else ["&#1;", "&#x1F;", "&#8;", "&#xB;"]))
        if r.chance(1, 3) and True:
            t = dict(el[1]); atts = list(t["atts"])
            atts.append({"pre": " ", "name": "zz", "eq": ("", ""), "q": '"', "val": [("raw", bad)]}); t["atts"] = atts
            setroot((el[0], t) + tuple(el[2:]))
        else:
            if not bad.endswith(";"):
                bad += "<!---->"        # a following sibling must not supply the missing ';'
            setroot(with_kid(el, ("leaf", ("raw", bad)), r))
    elif k == "undeclared_entity":
        n = r.choice(["nbsp", "LT", "e", "a.b", "Amp"])
        if r.chance(1, 3):
            t = dict(el[1]); atts = list(t["atts"])
            atts.append({"pre": " ", "name": "zz", "eq": ("", ""), "q": "'", "val": [("eref", n)]}); t["atts"] = atts
            setroot((el[0], t) + tuple(el[2:]))
        else:
            setroot(with_kid(el, ("leaf", ("eref", n)), r))
    elif k == "illegal_char":
        c = chr(r.choice(ILLEGAL_11 if v11 else ILLEGAL_10))
        where = r.choice(["text", "att", "comment", "pi", "cdata", "name"])
        if where == "text":
            setroot(with_kid(el, ("leaf", ("ch", c)), r))
        elif where == "att":
            t = dict(el[1]); atts = list(t["atts"])
            atts.append({"pre": " ", "name": "zz", "eq": ("", ""), "q": '"', "val": [("ch", "a"), ("ch", c)]}); t["atts"] = atts
            setroot((el[0], t) + tuple(el[2:]))
        elif where == "comment":
            setroot(with_kid(el, ("leaf", ("comment", "a" + c + "b")), r))
        elif where == "pi":
            setroot(with_kid(el, ("leaf", ("pi", "p", " ", "a" + c)), r))
        elif where == "cdata":
            setroot(with_kid(el, ("leaf", ("cdata", c)), r))
        else:
            setroot(with_kid(el, ("empty", {"name": "n" + c + "m", "atts": [], "ws": ""}), r))
    elif k == "dashes_in_comment":
        body = r.choice(["--", "a--b", "a-", "-", "--a", "a---"])
        if r.chance(1, 3):
            d["pre"] = list(doc["pre"]) + [("comment", body)]
        else:
            setroot(with_kid(el, ("leaf", ("comment", body)), r))
    elif k == "nested_comment_end":
        setroot(with_kid(el, ("leaf", ("raw", r.choice(["<!-- a -- >", "<!- a -->", "<!--a->", "<!--a--!>", "<!x>", "<![cdata[x]]>", "<!ELEMENT a ANY>", "<!>x"]))), r))
    elif k == "pi_target_xml":
        t = r.choice(["xml", "XML", "Xml", "xmL"])
        p = ("pi", t, " ", "version='1.0'") if r.chance(1, 2) else ("pi", t, "", "")
        w = r.below(3)
        if w == 0:
            setroot(with_kid(el, ("leaf", p), r))
        elif w == 1:
            d["post"] = list(doc["post"]) + [p]
        else:
            d["pre"] = ([("comment", "c")] if t == "xml" and p[2] else []) + [p] + list(doc["pre"])
            if doc["decl"] is None and t == "xml" and p[2] == " " and not d["pre"][0][0] == "comment":
                d["pre"] = [("comment", "c")] + d["pre"]
    elif k == "xmldecl_not_first":
        if doc["decl"] is None:
            d["decl"] = {"version": {"pre": " ", "eq": ("", ""), "q": '"'}, "minor": "0", "encoding": None, "standalone": None, "ws": ""}
        return k, exp, r.choice([" ", "\n", "<!--c-->", "\t"]) + r_doc(d)
    elif k.startswith("dtd_"):
        rn = doc["root"][1]["name"]
        def install(decls, before="", after=""):
            d["doctype"] = {"text": "<!DOCTYPE %s [%s]>" % (rn, decls), "misc": [], "ents": {}}
        if k == "dtd_entity_use":
            decls, where, ref = r.choice([
                ('<!ENTITY a "&b;"><!ENTITY b "&a;">', "content", "a"), ('<!ENTITY a "&a;">', "content", "a"),
                ('<!ENTITY a "&b;"><!ENTITY b "x&c;"><!ENTITY c "&a;">', "att", "a"), ('<!ENTITY a "&a;">', "att", "a"),
                ('<!ENTITY a "<b>">', "content", "a"), ('<!ENTITY a "</b>">', "content", "a"), ('<!ENTITY a "<b></c>">', "content", "a"),
                ('<!ENTITY a "x<b">', "content", "a"), ('<!ENTITY a "&#38;">', "content", "a"), ('<!ENTITY a "&#60;">', "content", "a"),
                ('<!ENTITY a "<!--">', "content", "a"), ('<!ENTITY a "]]&#62;">', "content", "a"), ('<!ENTITY a "&#x0;">', "content", "a"),
                ('<!ENTITY a "&#60;">', "att", "a"), ('<!ENTITY a "<b/>">', "att", "a"), ('<!ENTITY b "<"><!ENTITY a "[&b;]">', "att", "a"),
                ('<!ENTITY a "&#38;">', "att", "a"),
                ('<!ENTITY a SYSTEM "u">', "att", "a"), ('<!ENTITY a PUBLIC "p" "u">', "att", "a"),
                ("<!NOTATION n SYSTEM 'x'><!ENTITY a SYSTEM 'u' NDATA n>", "content", "a"), ("<!ENTITY a SYSTEM 'u' NDATA n>", "att", "a"),
                ('<!ENTITY a "x">', "content", "b"), ('<!ENTITY a "&b;">', "content", "a"), ('<!ENTITY a "&b;">', "att", "a"),
                ('<!ENTITY a "<b c=\'&d;\'/>">', "content", "a"), ('<!ENTITY d "<"><!ENTITY a "<b c=\'&d;\'/>">', "content", "a"),
                ('<!ENTITY a "<?xml version=\'1.0\'?>">', "content", "a"),
            ])
            install(decls)
            if where == "content":
                new = with_kid(el, ("leaf", ("eref", ref)), r)
            else:
                t = dict(el[1]); atts = list(t["atts"])
                atts.append({"pre": " ", "name": "zz", "eq": ("", ""), "q": '"', "val": [("ch", "v"), ("eref", ref)]}); t["atts"] = atts
                new = (el[0], t) + tuple(el[2:])
            d["root"] = strip_erefs(replace_node(doc["root"], el, new), ref)
        elif k == "dtd_default":
            install(r.choice(['<!ATTLIST %s x CDATA "&later;"><!ENTITY later "v">' % rn, '<!ATTLIST %s x CDATA "<">' % rn,
                              '<!ATTLIST %s x CDATA "a&b">' % rn, "<!ATTLIST %s x CDATA '&#0;'>" % rn, '<!ENTITY e "&#60;"><!ATTLIST %s x CDATA "&e;">' % rn,
                              '<!ENTITY e SYSTEM "u"><!ATTLIST %s x CDATA #FIXED "&e;">' % rn, '<!ATTLIST %s x CDATA "&undeclared;">' % rn,
                              '<!ENTITY e "&e;"><!ATTLIST %s x CDATA "&e;">' % rn]))
            d["root"] = strip_erefs(doc["root"], None)
        elif k == "dtd_syntax":
            install(r.choice(["<!ELEMENT a>", "<!ELEMENT a ()>", "<!ELEMENT a (b,c|d)>", "<!ELEMENT a (b|c,d)>", "<!ELEMENT a (#PCDATA|b)>", "<!ELEMENT a (b,#PCDATA)>",
                              "<!ELEMENT a (b", "<!ELEMENT a (b))>", "<!ELEMENT a(b)>", "<!ELEMENTa (b)>", "<!ELEMENT a empty>", "<!ELEMENT a (b)**>", "<!ELEMENT a (b ?)>",
                              "<!ELEMENT a (#PCDATA)+>", "<!ELEMENT a (#PCDATA|b|(c))*>", "<!ELEMENT 1a ANY>", "<!ELEMENT a ANY b>", "<!ELEMENT a (b)+ +>",
                              "<!ATTLIST a b>", "<!ATTLIST a b CDATA>", "<!ATTLIST a b cdata #IMPLIED>", "<!ATTLIST a b CDATA#IMPLIED>", "<!ATTLIST a b CDATA #implied>",
                              "<!ATTLIST a b (x|)  #IMPLIED>", "<!ATTLIST a b () #IMPLIED>", "<!ATTLIST a b (x,y) #IMPLIED>", "<!ATTLIST a b NOTATION #IMPLIED>",
                              "<!ATTLIST a b NOTATION(n) #IMPLIED>", "<!ATTLIST a b CDATA #FIXED>", "<!ATTLIST a b CDATA #FIXED'v'>", "<!ATTLIST a b CDATA 'v>",
                              "<!ATTLIST a bCDATA 'v'>", "<!ATTLIST a b CDATA 'v' c CDATA>", "<!ATTLIST>", "<!ATTLIST a b CDATA v>", "<!ATTLIST a b (x y) 'x'>",
                              "<!ENTITY e>", "<!ENTITY e x>", "<!ENTITY e 'x>", "<!ENTITY e'x'>", "<!ENTITYe 'x'>", "<!ENTITY e SYSTEM>", "<!ENTITY e SYSTEM x>",
                              "<!ENTITY e PUBLIC 'p'>", "<!ENTITY e SYSTEM 'u' NDATA>", "<!ENTITY e SYSTEM 'u'NDATA n>", "<!ENTITY e 'v' NDATA n>", "<!ENTITY e SYSTEM 'u' ndata n>",
                              "<!ENTITY e PUBLIC 'p{' 'u'>", "<!ENTITY e 'x' 'y'>", "<!ENTITY 'x'>", "<!ENTITY e public 'p' 'u'>",
                              "<!NOTATION n>", "<!NOTATION n 'x'>", "<!NOTATION n SYSTEM>", "<!NOTATION n PUBLIC>", "<!NOTATIONn SYSTEM 'x'>", "<!NOTATION n SYSTEM 'x' 'y'>",
                              "<!FOO a>", "<!element a ANY>", "<a/>", "x", "&amp;", "&#32;", "<![CDATA[x]]>", "<!-- a -- b -->", "<!--a", "<?p", "<!ELEMENT a ANY",
                              "<![INCLUDE[<!ELEMENT a ANY>]]>", "<![IGNORE[x]]>", "]", "<!DOCTYPE b>", "</a>", "<!>", "<!ELEMENT a ANY>>"]))
            if r.chance(1, 8):
                d["doctype"]["text"] = r.choice(["<!DOCTYPE>", "<!DOCTYPE >", "<!DOCTYPE%s>" % rn, "<!DOCTYPE %s [" % rn, "<!DOCTYPE %s []" % rn, "<!DOCTYPE %s [] x>" % rn,
                                                 "<!DOCTYPE %s x>" % rn, "<!doctype %s>" % rn, "<!DOCTYPE 1a>", "<!DOCTYPE %s [<!ELEMENT a ANY>" % rn, "<!DOCTYPE %s ]>" % rn])
            d["root"] = strip_erefs(doc["root"], None)
        elif k == "dtd_misplaced":
            w = r.below(3)
            dtt = "<!DOCTYPE %s>" % rn
            if w == 0:
                d["post"] = list(doc["post"]) + [("raw", dtt)]
            elif w == 1:
                d["root"] = replace_node(doc["root"], el, with_kid(el, ("leaf", ("raw", dtt)), r))
            else:
                d["doctype"] = {"text": dtt + dtt if doc["doctype"] is None else doc["doctype"]["text"] + dtt, "misc": [], "ents": {}}
        elif k == "dtd_bad_entity_value":
            install(r.choice(['<!ENTITY e "a&b">', '<!ENTITY e "&#0;">', '<!ENTITY e "&#xZ;">', '<!ENTITY e "&;">', '<!ENTITY e "&">', "<!ENTITY e '&#xFFFE;'>",
                              '<!ENTITY e "&#1114112;">', '<!ENTITY e "& x;">', '<?xml version="1.0"?>', "<?XML?>"] + ([] if v11 else ['<!ENTITY e "&#x1;">'])))
            d["root"] = strip_erefs(doc["root"], None)
        elif k == "dtd_ns_qname":
            exp = "nsfatal"
            bn = r.choice(["a:b:c", ":a", "a:", "a:1", "a::b", ":"])
            w = r.below(5)
            if w == 0:
                d["doctype"] = {"text": "<!DOCTYPE %s>" % bn, "misc": [], "ents": {}}
            else:
                install(["<!ELEMENT %s ANY>" % bn, "<!ELEMENT a (b,%s)>" % bn, "<!ELEMENT a (#PCDATA|%s)*>" % bn, "<!ATTLIST %s b CDATA #IMPLIED>" % bn,
                         "<!ATTLIST a %s CDATA #IMPLIED>" % bn][w % 5])
        else:
            exp = "nsfatal"
            install(r.choice(['<!ENTITY a:b "x">', "<!NOTATION n:m SYSTEM 'x'>", "<?a:b?>", "<!ENTITY : 'x'>", "<!NOTATION a:b:c PUBLIC 'x'>"]))
    elif k == "amp_alone":
        bad = r.choice(["&", "& ", "&;", "&amp<!---->", "&lt ;", "& amp;", "&1;", "&a b;", "&<"])
        if r.chance(1, 3):
            t = dict(el[1]); atts = list(t["atts"])
            atts.append({"pre": " ", "name": "zz", "eq": ("", ""), "q": '"', "val": [("raw", bad.replace("<!---->", "").replace("<", "x"))]}); t["atts"] = atts
            setroot((el[0], t) + tuple(el[2:]))
        else:
            setroot(with_kid(el, ("leaf", ("raw", bad)), r))
    elif k in ("att_no_quotes", "att_no_value", "att_no_space", "etag_with_att", "space_after_lt", "bad_name"):
        e = el
        body = "".join(r_node(x) for x in e[2]) if e[0] == "elem" else ""
        nm = e[1]["name"]
        atts = "".join(r_attr(a) for a in e[1]["atts"])
        close = ("</" + e[3] + e[4] + ">") if e[0] == "elem" else None
        if k == "att_no_quotes":
            open_ = "<" + nm + atts + " zz=" + r.choice(["v", "1", "'v", 'v"', "'v\"", ""]) + (">" if close else "/>")
        elif k == "att_no_value":
            open_ = "<" + nm + atts + " zz" + r.choice(["", "=", " ="]) + (">" if close else "/>")
        elif k == "att_no_space":
            open_ = "<" + nm + atts + " zz='1'yy='2'" + (">" if close else "/>")
        elif k == "space_after_lt":
            open_ = r.choice(["< ", "<\n"]) + nm + atts + (">" if close else "/>")
            if close and r.chance(1, 3):
                open_ = "<" + nm + atts + ">"; close = "</ " + e[3] + ">"
            elif not close and r.chance(1, 3):
                # (a bare "/" must not be followed by a sibling that starts with ">": character data may)
                open_ = "<" + nm + atts + r.choice(["/ >", "/<!---->", "//>"])
        elif k == "bad_name":
            bn = r.choice(["1a", "-a", ".a", "a b", "a%", "a!", "×", "a×", "̀a", "a←", "‿", "", "a;", "a퟿", "a\U000F0000", "\U000F0000a", "a\U0010FFFFb", "a\U000FFFFE"])
            open_ = "<" + bn + atts + (">" if close else "/>")
            if close: close = "</" + bn + ">"
        else:
            close = "</" + (e[3] if close else nm) + " zz='1'>"
            open_ = "<" + nm + atts + ">"
        setroot(("leaf", ("raw", open_ + body + (close or ""))))
    elif k == "supp_in_name":
        # a legal Char of planes 15/16 (never a NameChar) at a random position of a name at a random site
        x = chr(r.choice(SUPP_NOT_NAME))
        def spoil(nm):
            pos = r.choice([0, len(nm), 1 + r.below(len(nm))]) if len(nm) > 1 else r.choice([0, 1])
            return nm[:pos] + x + nm[pos:]
        w = r.choice(["element", "attribute", "prefix", "local", "endtag", "pi", "newattr"])
        e = as_pair(el); t = dict(e[1])
        if w == "element":
            t["name"] = spoil(t["name"]); setroot(("elem", t, e[2], t["name"], e[4]))
        elif w == "endtag":
            setroot(("elem", t, e[2], spoil(e[3]), e[4]))
        elif w == "attribute" and t["atts"]:
            atts = list(t["atts"]); i = r.below(len(atts)); a = dict(atts[i]); a["name"] = spoil(a["name"]); atts[i] = a; t["atts"] = atts
            setroot(("elem", t, e[2], e[3], e[4]))
        elif w == "prefix":
            pfx = spoil("pq")
            t["atts"] = list(t["atts"]) + [{"pre": " ", "name": "xmlns:" + pfx, "eq": ("", ""), "q": '"', "val": [("ch", "u")]}]
            t["name"] = pfx + ":" + t["name"].replace(":", "_"); setroot(("elem", t, e[2], t["name"], e[4]))
        elif w == "local":
            t["atts"] = list(t["atts"]) + [{"pre": " ", "name": "xmlns:pq", "eq": ("", ""), "q": '"', "val": [("ch", "u")]}]
            t["name"] = "pq:" + spoil(t["name"].replace(":", "_")); setroot(("elem", t, e[2], t["name"], e[4]))
        elif w == "pi":
            setroot(with_kid(el, ("leaf", ("pi", spoil("tgt"), "", "")), r))
        else:
            t["atts"] = list(t["atts"]) + [{"pre": " ", "name": spoil("zz"), "eq": ("", ""), "q": '"', "val": []}]
            setroot(("elem", t, e[2], e[3], e[4]))
    elif k == "two_roots":
        d["post"] = list(doc["post"]) + [("raw", r.choice(["<b/>", "<a></a>", "<a>"]))]
    elif k == "text_after_root":
        d["post"] = list(doc["post"]) + [("raw", r.choice(["x", "&#65;", "&lt;", "]]>", "</a>", "0"]))]
    elif k == "text_before_root":
        d["pre"] = list(doc["pre"]) + [("raw", r.choice(["x", "&#65;", "&amp;", " ", "</a>", "]"]))]
    elif k == "cdata_outside_root":
        if r.chance(1, 2): d["post"] = list(doc["post"]) + [("cdata", "x")]
        else: d["pre"] = list(doc["pre"]) + [("cdata", "")]
    elif k == "ref_outside_root":
        if r.chance(1, 2): d["post"] = list(doc["post"]) + [("cref", False, "32")]
        else: d["pre"] = list(doc["pre"]) + [("eref", "amp")]
    elif k == "unterminated":
        bad = r.choice(["<!--", "<!-- a", "<![CDATA[", "<![CDATA[ a ]]", "<?p", "<?p a", "<?p a?", "<b", "<b ", "<b a", "<b a=", "<b a='", "<b a='1",
                        "<b a='1'", "<b>", "<b/", "</", "<", "<!", "<![", "<![CDATA", "<!-", "<?", "&", "&#", "&#x", "&a", "<b></b", "<b></", "<![cdata[x]]>"])
        s = r_doc(d)
        e = as_pair(el)
        inner = r_node(e)
        pos = s.find(inner)
        cut = pos + len(r_tagopen(e[1])) + 1
        return k, exp, s[:cut] + bad
    elif k == "truncate":
        d2 = dict(d); d2["post"] = []
        s = r_doc(d2)
        return k, exp, s[:r.below(len(s))]
    elif k == "bad_utf8":
        s = enc(r_doc(d))
        bad = r.choice([b"\x80", b"\xc0\x80", b"\xc1\xbf", b"\xe0\x80\x80", b"\xed\xa0\x80", b"\xf0\x80\x80\x80", b"\xf4\x90\x80\x80", b"\xf5\x80\x80\x80",
                        b"\xfe", b"\xff", b"\xe2\x82", b"\xc3", b"\xf0\x9f\x98", b"\xe2\x41\x80", b"\xf8\x88\x80\x80\x80"])
        w = r.below(3)
        if w == 0:
            return k, exp, s + bad
        inner = enc(r_tagopen(as_pair(el)[1]) + ">")
        pos = s.find(inner)
        e = as_pair(el)
        s2 = enc(r_doc(dict(d, root=replace_node(doc["root"], el, e))))
        pos = s2.find(inner) + len(inner)
        return k, exp, s2[:pos] + bad + (b"" if w == 1 and len(bad) < 4 and bad[0] >= 0xC2 and False else s2[pos:])
    elif k == "decl_error":
        body = r.choice(["<?xml?>", "<?xml ?>", "<?xml encoding='UTF-8'?>", "<?xml version='1.0' standalone='yes' encoding='UTF-8'?>",
                         "<?xml version='1.0' standalone='maybe'?>", "<?xml version=1.0?>", "<?xml version='1.0'encoding='UTF-8'?>",
                         "<?xml version='2.0'?>", "<?xml version='1.'?>", "<?xml version='1.a'?>", "<?xml version='1.0' foo='bar'?>",
                         "<?xml version='1.0\"?>", "<?xml version='1.0'", "<?xml version='1.0'>", "<?xml version='1.0' ?", "<?xml  version = '1.0' standalone='YES'?>",
                         "<?xml version='1.0' encoding=''?>", "<?xml version='1.0' encoding='8UTF'?>", "<?xml version='1.0' encoding='UTF 8'?>",
                         "<?xml version='1.0' version='1.0'?>", "<?xml VERSION='1.0'?>", "<?xml version='1.0' standalone='yes' standalone='yes'?>",
                         "<?xml version='1.0' ? >", "<?xml version='1.0'?>", "<?xml version='01.0'?>", "<?xml version=' 1.0'?>"])
        d["decl"] = None
        return k, exp, body + r_doc(d)
    # ---- namespace constraints: fatal only with namespaces on
    elif k == "ns_unbound_prefix":
        exp = "nsfatal"
        if r.chance(1, 2):
            e = as_pair(el); t = dict(e[1]); t["name"] = "u9:" + t["name"].replace(":", "_")
            setroot(("elem", t, e[2], t["name"], e[4]))
        else:
            t = dict(el[1]); atts = list(t["atts"])
            atts.append({"pre": " ", "name": "u9:zz", "eq": ("", ""), "q": '"', "val": []}); t["atts"] = atts
            setroot((el[0], t) + tuple(el[2:]))
    elif k == "ns_dup_expanded":
        exp = "nsfatal"
        t = dict(el[1]); atts = list(t["atts"])
        mk = lambda n, v: {"pre": " ", "name": n, "eq": ("", ""), "q": '"', "val": [("ch", c) for c in v]}
        atts += [mk("xmlns:w1", "u:1"), mk("xmlns:w2", "u:1"), mk("w1:zz", "1"), mk("w2:zz", "2")]
        r_ = r.below(4)
        if r_ == 0: atts = atts[-2:] + atts[:-2]
        t["atts"] = atts
        setroot((el[0], t) + tuple(el[2:]))
    elif k == "ns_bad_decl":
        exp = "nsfatal"
        t = dict(el[1]); atts = list(t["atts"])
        mk = lambda n, v: {"pre": " ", "name": n, "eq": ("", ""), "q": "'", "val": [("ch", c) for c in v]}
        choices = [("xmlns:xmlns", "u"), ("xmlns:xml", "u"), ("xmlns:w3", "http://www.w3.org/XML/1998/namespace"),
                   ("xmlns", "http://www.w3.org/XML/1998/namespace"), ("xmlns:w3", "http://www.w3.org/2000/xmlns/"),
                   ("xmlns", "http://www.w3.org/2000/xmlns/")] + ([] if v11 else [("xmlns:w3", "")])
        n, v = r.choice(choices)
        atts = [a for a in atts if a["name"] != n]
        atts.append(mk(n, v)); t["atts"] = atts
        setroot((el[0], t) + tuple(el[2:]))
    elif k == "ns_bad_qname":
        exp = "nsfatal"
        bn = r.choice(["a:b:c", ":a", "a:", "a::b", "xmlns:a", "a:1", "a:-b", ":"])
        if r.chance(2, 3):
            e = as_pair(el); t = dict(e[1]); t["name"] = bn
            mk = {"pre": " ", "name": "xmlns:a", "eq": ("", ""), "q": '"', "val": [("ch", "u")]}
            t["atts"] = [a for a in t["atts"]] + ([mk] if not bn.startswith("xmlns") else [])
            setroot(("elem", t, e[2], bn, e[4]))
        else:
            t = dict(el[1]); atts = list(t["atts"])
            atts.append({"pre": " ", "name": "xmlns:a", "eq": ("", ""), "q": '"', "val": [("ch", "u")]})
            atts.append({"pre": " ", "name": r.choice(["a:b:c", ":zz", "zz:", "a:1"]), "eq": ("", ""), "q": '"', "val": []}); t["atts"] = atts
            setroot((el[0], t) + tuple(el[2:]))
    elif k == "ns_pi_colon":
        exp = "nsfatal"
        setroot(with_kid(el, ("leaf", ("pi", r.choice(["a:b", ":", "p:q:r"]), "", "")), r))
    return k, exp, r_doc(d)

# extend the renderer for raw splices used by mutations
_r_leaf0 = r_leaf
def r_leaf(l):
    if l[0] == "raw":
        return l[1]
    return _r_leaf0(l)
_r_piece0 = r_piece
def r_piece(p):
    if p[0] == "raw":
        return p[1]
    return _r_piece0(p)

# valid namespace decoration of a generated document (prefixes declared; both ns on/off accept)
def decorate_ns(doc, g):
    r = g.r
    els = all_elems(doc["root"], [])
    root = doc["root"]
    el = r.choice(els)
    k = g.pick("ns.valid", ["default", "prefix-elem", "prefix-att", "xml-att", "redeclare", "undeclare-default"] + (["undeclare11"] if g.v11 else []))
    mk = lambda n, v: {"pre": " ", "name": n, "eq": ("", ""), "q": '"', "val": [("ch", c) for c in v]}
    t = dict(el[1]); atts = list(t["atts"])
    new = None
    if k == "default":
        atts.append(mk("xmlns", "urn:d"))
    elif k == "prefix-elem":
        atts.append(mk("xmlns:p", "urn:p")); e = as_pair(el)
        t["name"] = "p:" + t["name"]; t["atts"] = atts
        new = ("elem", t, e[2], t["name"], e[4])
    elif k == "prefix-att":
        atts += [mk("xmlns:p", "urn:p"), mk("p:zz", "1"), mk("zz", "2")]
    elif k == "xml-att":
        atts += [mk("xml:lang", "en"), mk("xml:space", "preserve")]
        if r.chance(1, 2): atts.append(mk("xmlns:xml", "http://www.w3.org/XML/1998/namespace"))
    elif k == "redeclare":
        atts += [mk("xmlns:p", "urn:1"), mk("xmlns:q", "urn:2"), mk("p:zz", "1"), mk("q:zz", "2")]
    elif k == "undeclare-default":
        atts.append(mk("xmlns", ""))
    elif k == "undeclare11":
        atts += [mk("xmlns:p", "")]
    if new is None:
        t["atts"] = atts
        new = (el[0], t) + tuple(el[2:])
    d = dict(doc); d["root"] = replace_node(root, el, new)
    return d

# ------------------------------------------------------------------ streams
def gen_streams(ctx, n_valid, n_mal):
    """-> list of cases: dict(bytes, expect, kind)"""
    g = G(ctx.rng)
    cases = []
    docs = []
    for _ in range(n_valid):
        d = g.doc()
        if ctx.rng.chance(1, 4):
            d = decorate_ns(d, g)
        docs.append((d, g.v11))
        s = r_doc(d)
        b = enc(s)
        if ctx.rng.chance(1, 12):
            b = b"\xef\xbb\xbf" + b; g.hit("bom")
        cases.append({"bytes": b, "expect": "ok", "kind": "valid"})
    mk = {}
    for _ in range(n_mal):
        d, v11 = ctx.rng.choice(docs)
        k, exp, s = mutate(d, ctx.rng, v11)
        mk[k] = mk.get(k, 0) + 1
        cases.append({"bytes": s if isinstance(s, bytes) else enc(s), "expect": exp, "kind": "mut:" + k})
    # truncation at EVERY offset of the smallest valid documents (verdict from the reference alone)
    small = sorted({c["bytes"] for c in cases[:n_valid] if 8 <= len(c["bytes"]) <= 90}, key=lambda b: (len(b), b))[:6 if n_valid < 2000 else 40]
    for b in small:
        for k in range(len(b)):
            cases.append({"bytes": b[:k], "expect": None, "kind": "prefix"})
    mk["prefix(every offset of %d small documents)" % len(small)] = sum(len(b) for b in small)
    return cases, g.cov, mk

ALPHABET = '<>/a="&;#x0!-[]? \n'

def exhaustive_docs(thorough):
    """all strings over ALPHABET of length <= n, plus the strings of length n+1 (and n+2 in thorough) that start with
    '<' (any other first character decides the verdict at once)"""
    import itertools
    n = 4 if thorough else 3
    out = []
    for ln in range(0, n + 1):
        for p in itertools.product(ALPHABET, repeat=ln):
            out.append("".join(p))
    extra = []
    if thorough:
        for p in itertools.product(ALPHABET, repeat=n):
            extra.append("<" + "".join(p))
    return out, extra, n

EXH_CONFIGS = ",".join(["sax/%s/%d" % (s, n) for s in SCANNERS_ALL for n in (0, 1)] + ["sax2/IG/1", "dom/IG/1", "ls/IG/1"])
EXH_CONFIGS_SMALL = ",".join("sax/%s/1" % s for s in SCANNERS_ALL)

# curated regression documents (each known to have mattered once); expectation given
CORPUS = [
    (b"<a/>\n\xe2\x82", "fatal", "F1 truncated UTF-8 at end of input"),
    (b"<a/>", "ok", "minimal"),
    (b"<a></a>", "ok", "minimal pair"),
    (b"<?xml version='1.0'?><a/>", "ok", "decl"),
    (b"<?xml version='1.1'?><a>&#x1;</a>", "ok", "1.1 control char reference"),
    (b"<?xml version='1.0'?><a>&#x1;</a>", "fatal", "1.0 control char reference"),
    (b"<?xml version='1.1'?><a>\x7f</a>", "fatal", "1.1 restricted char raw"),
    (b"<a>\x7f</a>", "ok", "1.0 DEL raw"),
    (b"<?xml version='1.1'?><a\xc2\x85b='1'/>", "ok", "1.1 NEL as white space in a tag"),
    (b"<a>]]></a>", "fatal", "]]> in text"),
    (b"<a>]]&gt;</a>", "ok", "]]&gt; in text"),
    (b"<a>]]<!---->></a>", "ok", "]] comment >"),
    (b"<a b='1' b='2'/>", "fatal", "dup attr"),
    (b"<a b='<'/>", "fatal", "lt in attr"),
    (b"<a>&nbsp;</a>", "fatal", "undeclared entity"),
    (b"<a></b>", "fatal", "mismatch"),
    (b"<!----><a/>", "ok", "empty comment"),
    (b"<!-----><a/>", "fatal", "comment ending --->"),
    (b"<?xml-stylesheet a?><a/>", "ok", "PI target starting with xml"),
    (b"<?xml version='1.7'?><a/>", "ok", "version 1.7 read as 1.0"),
    (b"<?xml version='1.'?><a/>", "fatal", "VersionNum needs a digit"),
    (b"<?xml version='1.a'?><a/>", "fatal", "VersionNum digits only"),
    (b"<e></e>\xff", "fatal", "illegal byte after the root element"),
    (b"<xmlns:a xmlns:b='u'/>", "nsfatal", "element with prefix xmlns"),
    ("<?\U00010000?><a/>".encode(), "ok", "PI target with a supplementary NameStartChar"),
    ("<\U00010000 \U000EFFFF='1'/>".encode(), "ok", "names with supplementary characters"),
    (b"<!DOCTYPE a:b:c><a/>", "nsfatal", "DOCTYPE name that is a Name but not a QName"),
    (b"<!DOCTYPE a [<!ELEMENT a:b:c ANY>]><a/>", "nsfatal", "element declaration name that is not a QName"),
    (b"<a xmlns:w='http://www.w3.org/2000/xmlns/'/>", "nsfatal", "xmlns namespace name bound to a prefix"),
    (b"<a xmlns:w='http://www.w3.org/XML/1998/namespace'/>", "nsfatal", "xml namespace name bound to another prefix"),
    (b"<a " + b" ".join(b"a%d='v'" % i for i in range(120)) + b" a77='w'/>", "fatal", "duplicate among 121 attributes"),
    (b"<a " + b" ".join(b"a%d='v'" % i for i in range(9)) + b" a3='w'/>", "fatal", "duplicate among 10 attributes"),
    (b"<a xmlns:p='u' xmlns:q='u' " + b" ".join(b"a%d='v'" % i for i in range(8)) + b" p:z='1' q:z='2'/>", "nsfatal", "expanded-name duplicate among 12 attributes"),
    (b"<!DOCTYPE a [<!ENTITY e '&#60;'>]><a b='&e;'/>", "fatal", "< through an entity in an attribute value"),
    (b"<!DOCTYPE a [<!ENTITY e '&f;'><!ENTITY f '&e;'>]><a>&e;</a>", "fatal", "recursive entities"),
    (b"<!DOCTYPE a [<!ENTITY e '<b>'>]><a>&e;</b></a>", "fatal", "entity with partial markup"),
]

# ---- supplementary-plane characters in names: production [4]/[4a] stop at #xEFFFF; planes 15/16 (U+F0000..U+10FFFF) are
# legal Chars but never name characters.  In UTF-16 the boundary is the high surrogate DB7F | DB80, which the library tests
# in several places (XMLReader::getName / getNCName / getQName, XMLChar::isValidName ...), one per name kind and position.
SUPP_NAMECHARS = [0x10000, 0x20000, 0xE0000, 0xEFFFF]                              # NameStartChar and NameChar
SUPP_NOT_NAME = [0xF0000, 0xFFFFD, 0xFFFFE, 0x100000, 0x10FFFD, 0x10FFFF]          # Char, but not NameChar

def supp_matrix(thorough=False):
    """every kind of name x initial / non-initial / final position x boundary code points x XML 1.0 / 1.1"""
    out = []
    good = SUPP_NAMECHARS if thorough else [0x10000, 0xEFFFF]
    bad = SUPP_NOT_NAME if thorough else [0xF0000, 0xFFFFE, 0x10FFFF]
    def names(ch):
        return [("initial", ch + "b"), ("non-initial", "a" + ch + "b"), ("final", "ab" + ch)]
    for v11 in (False, True):
        decl = "<?xml version='1.1'?>" if v11 else ""
        for cp in good + bad:
            legal = cp in SUPP_NAMECHARS
            ch = chr(cp)
            for pos, N in names(ch):
                docs = [
                    ("element", "<%s/>" % N, None),
                    ("element+endtag", "<%s x='1'>t</%s >" % (N, N), None),
                    ("attribute", "<e %s='v'/>" % N, None),
                    ("element prefix", "<%s:l xmlns:%s='u'/>" % (N, N), None),
                    ("element local part", "<p:%s xmlns:p='u'></p:%s>" % (N, N), None),
                    ("attribute prefix", "<e xmlns:%s='u' %s:a='1'/>" % (N, N), None),
                    ("attribute local part", "<e xmlns:p='u' p:%s='1'/>" % N, None),
                    ("PI target", "<?%s d?><e><?%s?></e>" % (N, N), None),
                    ("DOCTYPE name", "<!DOCTYPE %s><%s/>" % (N, N), None),
                    ("entity name", "<!DOCTYPE e [<!ENTITY %s 'v'>]><e a='&%s;'>&%s;</e>" % (N, N, N), None),
                    ("declared element/attribute names", "<!DOCTYPE e [<!ELEMENT %s (#PCDATA|%s)*><!ATTLIST e %s CDATA #IMPLIED>]><e/>" % (N, N, N), None),
                    ("notation name", "<!DOCTYPE e [<!NOTATION %s SYSTEM 'x'>]><e/>" % N, None),
                    # the end tag alone carries the character: never well-formed (Element Type Match at best)
                    ("end tag only", "<ab></%s>" % N, "fatal"),
                    ("end tag only, after the matching name", "<ab></ab%s>" % ch, "fatal"),
                    ("undeclared entity reference", "<e>&%s;</e>" % N, "fatal"),
                ]
                for kind, body, force in docs:
                    exp = force or ("ok" if legal else "fatal")
                    out.append({"bytes": enc(decl + body), "expect": exp,
                                "kind": "supp:%s:%s:U+%X:%s" % (kind, pos, cp, "1.1" if v11 else "1.0")})
    return out

# ---- many attributes with exactly one duplicate.  The scanners detect duplicates with hash sets that grow while the start
# tag is read (Hash2KeysSetOf: modulus 7, rehash at 4 x modulus = the 29th, then the 229th distinct attribute), switch
# strategy beyond 100 attributes, and treat the last attribute separately in places; so the family puts the duplicated
# attribute first / at and around each threshold / in the middle / last, and its repetition right after it or at the end.
# The sets keep their size from earlier start tags and documents of the same parser object, so each witness runs on
# freshly created parsers ("FRESH:" in the harness protocol): a grown table hides the growth step.
DUP_COUNTS = [2, 5, 27, 28, 29, 30, 31, 57, 99, 100, 101, 102, 228, 229, 230]
DUP_COUNTS_QUICK = [2, 28, 29, 30, 57, 100, 101, 229, 230]
# all 4 scanners x namespaces on/off through SAXParser, the other three APIs on two scanner settings
DUP_CONFIGS = ",".join(["sax/%s/%d" % (s, n) for s in SCANNERS_ALL for n in (0, 1)] +
                       ["%s/%s" % (a, c) for a in ("sax2", "dom", "ls") for c in ("IG/0", "SG/1")])

def dupattr_family(thorough=False):
    out = []
    for n in (DUP_COUNTS if thorough else DUP_COUNTS_QUICK):
        names = ["a%d" % i for i in range(n)]
        origs = sorted({0, n // 2, n - 1} | {i for i in (26, 27, 28, 29, 30, 99, 100, 227, 228, 229) if i < n})
        for i in origs:
            for where in ("next", "last"):
                atts = ["%s='v'" % x for x in names]
                rep = "%s='w'" % names[i]
                if where == "next":
                    atts.insert(i + 1, rep)
                else:
                    atts.append(rep)
                out.append({"bytes": enc("<e " + " ".join(atts) + "/>"), "expect": "fatal",
                            "kind": "dupattr:%d attributes, attribute #%d repeated %s" % (n, i + 1, "right after it" if where == "next" else "at the end")})
        # the same count without a duplicate is well-formed
        out.append({"bytes": enc("<e " + " ".join("%s='v'" % x for x in names) + "></e>"), "expect": "ok", "kind": "dupattr:%d distinct attributes" % n})
        # duplicate expanded name (two prefixes, one namespace name): fatal with namespaces on only
        if n >= 5:
            for i in sorted({0, n // 2, n - 3} | {j for j in (27, 28, 29, 99, 100, 227, 228) if j < n - 2}):
                atts = ["%s='v'" % x for x in names[:n - 2]]
                atts.insert(i, "p:z='1'")
                for tail in (["xmlns:p='u'", "xmlns:q='u'", "q:z='2'"], ["q:z='2'", "xmlns:p='u'", "xmlns:q='u'"]):
                    out.append({"bytes": enc("<e " + " ".join(atts + tail) + "/>"), "expect": "nsfatal",
                                "kind": "dupattr:%d attributes, expanded name of attribute #%d repeated" % (n + 2, i + 1)})
    return out

# documents parsed one after the other by the SAME parser objects; the verdict of the last one is judged
SEQUENCES = [
    ([b"<?xml version='1.1'?><a/>"], b"<a>\x7f</a>", "1.0 document after a 1.1 document: DEL is a legal character"),
    ([b"<?xml version='1.1'?><a/>"], b"<a b='\xc2\x86'/>", "1.0 document after a 1.1 document: U+0086 is a legal character"),
    ([b"<?xml version='1.1'?><a/>"], b"<a>&#x1;</a>", "1.0 document after a 1.1 document: &#x1; is not a legal reference"),
    ([b"<?xml version='1.1'?><a/>"], b"<a xmlns:p=''/>", "1.0 document after a 1.1 document: prefix undeclaring is a 1.1 feature"),
    ([b"<a>"], b"<a/>", "document after a fatal error"),
    ([b"<a xmlns:p='u'><p:b/></a>"], b"<p:b/>", "prefix bound in the previous document"),
    ([b"<?xml version='1.0' standalone='yes'?><a/>"], b"<a/>", "after standalone"),
]

def sequence_check(ctx, best):
    lines, idx = [], []
    for pre, doc, what in SEQUENCES:
        for p in pre:
            lines.append("ALL " + hexbytes(p))
        idx.append(len(lines))
        lines.append("ALL " + hexbytes(doc))
    obs, _ = run_impl(lines, nproc=1, keep_order=True)
    refs = run_driver_lines("xmlwf", [hexbytes(doc) for _, doc, _ in SEQUENCES])
    n = 0
    for (pre, doc, what), k, ref in zip(SEQUENCES, idx, refs):
        bad = judge(doc, ref, obs[k])
        n += len(parse_obs(obs[k]))
        for key, w, cfgs in bad:
            key = "history:" + key
            if key not in best:
                best[key] = {"case": {"bytes": doc, "kind": "sequence", "pre": pre}, "ref": ref, "obs": obs[k],
                             "what": w + " — when parsed after %r by the same parser object (%s)" % (b" ; ".join(pre), what), "cfgs": cfgs, "origin": "parser reuse sequence"}
    return n

# ------------------------------------------------------------------ correspondence
def table_check(ctx):
    """public-API readback of both character tables vs generated Lean tables vs Spec classes"""
    p = common.run_harness("hx_wf", ["tables"], timeout=600)
    api = {l.split()[0]: l.split()[1] for l in p.stdout.decode().split("\n") if l.strip()}
    drv = {l.split()[0]: l.split()[1] for l in common.run_driver(["xmlchar"], timeout=600).decode().split("\n") if l.strip()}
    res = {"units": 65536 * 2}
    diffs_gen, diffs_spec = [], []
    for v in ("10", "11"):
        a, g, s = api.get("api" + v, ""), drv.get("gen" + v, ""), drv.get("spec" + v, "")
        if len(a) != 131072 or len(g) != 131072 or len(s) != 131072:
            raise common.InfraError("table dump has wrong size (api %d gen %d spec %d)" % (len(a), len(g), len(s)))
        if a != g:
            diffs_gen += [(v, c, int(a[2*c:2*c+2], 16), int(g[2*c:2*c+2], 16)) for c in range(65536) if a[2*c:2*c+2] != g[2*c:2*c+2]]
        if a != s:
            diffs_spec += [(v, c, int(a[2*c:2*c+2], 16), int(s[2*c:2*c+2], 16)) for c in range(65536) if a[2*c:2*c+2] != s[2*c:2*c+2]]
    res["api_vs_generated"] = len(diffs_gen)
    res["api_vs_spec"] = len(diffs_spec)
    return res, diffs_gen, diffs_spec

MASKS = {1: "NCNameChar", 2: "FirstNameChar", 4: "NameChar", 8: "PlainContentChar", 16: "SpecialStartTagChar", 32: "ControlChar",
         64: "XMLChar", 128: "Whitespace"}

def one_char_docs(v, c):
    """candidate one-character documents exercising code unit c under XML version v ('10'/'11')"""
    decl = b"<?xml version='1.1'?>" if v == "11" else b""
    if 0xD800 <= c <= 0xDFFF:
        return []
    ch = enc(chr(c))
    docs = [decl + b"<a>&#x%X;</a>" % c, decl + b"<a>" + ch + b"</a>", decl + b"<a b='" + ch + b"'/>", decl + b"<a" + ch + b"/>",
            decl + b"<" + ch + b"/>", decl + b"<a" + ch + b"b='1'/>", decl + b"<a><!--" + ch + b"--></a>", decl + b"<a><?p " + ch + b"?></a>",
            decl + b"<a><![CDATA[" + ch + b"]]></a>", decl + b"<a b='&#x%X;'/>" % c, decl + b"<a>x" + ch + b"<b/></a>",
            decl + b"<a xmlns:p='u'><p:b" + ch + b"/></a>", decl + b"<a b" + ch + b"='1'/>", decl + b"<a>" + ch + b"]]></a>",
            decl + b"<a" + ch + b">" + b"</a" + ch + b">", decl + b"<a b=" + ch + b"1" + ch + b"/>"]
    return docs

def run_cases(ctx, cases, cfgword_fn):
    """judge a list of cases; returns per-case (ref, obs, contradictions)"""
    hexes = [hexbytes(c["bytes"]) for c in cases]
    refs = run_driver_lines("xmlwf", hexes)
    lines = [cfgword_fn(c) + " " + h for c, h in zip(cases, hexes)]
    obs, crashes = run_impl(lines)
    out = []
    for c, ref, o in zip(cases, refs, obs):
        out.append((ref, o, judge(c["bytes"], ref, o)))
    return out, crashes

def record(ctx, best, case, ref, o, bad, origin):
    for key, what, cfgs in bad:
        cur = best.get(key)
        if cur is None or len(case["bytes"]) < len(cur["case"]["bytes"]):
            best[key] = {"case": case, "ref": ref, "obs": o, "what": what, "cfgs": cfgs, "origin": origin}

def show(b):
    return b.decode("utf-8", "backslashreplace").replace("\n", "\\n")[:300]

def flush(ctx, best):
    for key, v in best.items():
        ctx.violations.append({"key": key, "concrete": True,
            "what": "%s [%s] on document %r under %s" % (v["what"], v["origin"], show(v["case"]["bytes"]), ",".join(v["cfgs"][:8]) + ("…(%d configs)" % len(v["cfgs"]) if len(v["cfgs"]) > 8 else "")),
            "replay": {"tier": "doc", "bytes": hexbytes(v["case"]["bytes"]), "configs": ",".join(v["cfgs"]) if v["cfgs"] != ["?"] else "ALL",
                       "before": [hexbytes(p) for p in v["case"].get("pre", [])],
                       "reference": v["ref"], "impl": v["obs"][:2000], "kind": v["case"].get("kind", "")}})

def has_doctype(b):
    return b"<!DOCTYPE" in b

def cfgword(case):
    # the duplicate-attribute witnesses must be the first document their parser objects see (see dupattr_family)
    if case.get("kind", "").startswith("dupattr:"):
        return "FRESH:" + DUP_CONFIGS
    return "DTD" if has_doctype(case["bytes"]) else "ALL"

def correspondence(ctx):
    th = ctx.thorough()
    stats = ctx.stats
    import glob
    for f in glob.glob(os.path.join(common.WORK, "replay", "C02-*.json")):    # replays of earlier runs are stale
        try:
            os.unlink(f)
        except OSError:
            pass
    # ---- (1) tables through the public API
    tres, dgen, dspec = table_check(ctx)
    stats["table_readback"] = tres
    if dgen:
        v, c, a, g = dgen[0]
        ctx.violations.append({"key": "corr:chartable-translator", "concrete": False,
            "what": "translator validation: table %s read back through the public XMLChar API differs from Gen/CharTables at %d unit(s), first U+%04X api=%02x generated=%02x" % (v, len(dgen), c, a, g),
            "replay": {"tier": "table", "version": v, "unit": c, "api": a, "generated": g}})
    if dspec:
        found = table_search(ctx, dspec)
        if found:
            ctx.violations.append(found)
        else:
            v, c, a, s = dspec[0]
            ctx.violations.append({"key": "corr:chartable-spec", "concrete": False,
                "what": "character class of U+%04X (XML %s) differs from the productions (api=%02x spec=%02x, %d unit(s)); no document found whose verdict changes" % (c, v, a, s, len(dspec)),
                "replay": {"tier": "table", "version": v, "unit": c, "api": a, "spec": s}})
    common.log("C02 tables done")
    # ---- (2) generated documents
    n_valid, n_mal = (8000, 16000) if th else (350, 750)
    cases, cov, mk = gen_streams(ctx, n_valid, n_mal)
    supp = supp_matrix(th) + dupattr_family(th)
    cases = [{"bytes": b, "expect": e, "kind": "corpus:" + w} for b, e, w in CORPUS] + supp + cases
    stats["duplicate_attribute_family"] = {"documents": sum(1 for c in supp if c["kind"].startswith("dupattr:")), "attribute_counts": DUP_COUNTS if th else DUP_COUNTS_QUICK, "configurations": DUP_CONFIGS, "parsers": "created anew for every witness"}
    stats["supplementary_name_matrix"] = {"documents": sum(1 for c in supp if c["kind"].startswith("supp:")), "code_points": sorted({c["kind"].split(":")[3] for c in supp if c["kind"].startswith("supp:")}),
                                          "rule": "15 name kinds x initial/non-initial/final x XML 1.0/1.1, every configuration"}
    res, crashes = run_cases(ctx, cases, cfgword)
    best = {}
    hist = {"ok": 0, "nsfatal": 0, "fatal": 0, "unsupported": 0}
    elicited = {}
    evals = 0
    specdis = {}
    overruled = {}
    distinct = set()
    for c, (ref, o, bad) in zip(cases, res):
        cls, why = ref_class(ref)
        hist[cls] += 1
        if cls != "unsupported":
            evals += len(parse_obs(o))
        if nontrivial(c["bytes"]):
            distinct.add(c["bytes"])
        for tok in parse_obs(o).values():
            if tok.startswith("fatal:"):
                nm = code_name(tok).split("+")[0].split("!")[0]
                elicited[nm] = elicited.get(nm, 0) + 1
        record(ctx, best, c, ref, o, bad, "curated corpus" if c["kind"].startswith("corpus") else
               ("supplementary-plane name matrix, " + c["kind"][5:]) if c["kind"].startswith("supp:") else
               ("duplicate-attribute family, " + c["kind"][8:]) if c["kind"].startswith("dupattr:") else "generated stream")
        # The reference is the judge.  The expectation attached to a case is a third opinion:
        #  * fixed families (curated corpus, name matrix, duplicate-attribute family) carry hand-checked expectations and
        #    involve no randomness: a disagreement with the reference means the reference (or the family) is wrong and is
        #    reported as corr:xmlwf-corpus;
        #  * random streams label a case by the mutation applied; a random neighbour can neutralise a mutation (a sibling
        #    starting with '>' after an inserted '/'), so such a disagreement is not evidence about the library.  If the
        #    library contradicts the reference on that document, the judge has already recorded a concrete violation;
        #    if the library agrees with the reference (two independent readings of the text against one label) it is
        #    logged in the evidence (generator_expectation_overruled) and in the notes, never printed as a violation.
        #    What this cannot see is an error common to reference and library on a randomly generated shape only; the
        #    fixed families and the Lean theorems (accepted <=> rendering of a WF tree) are the guard against that.
        if cls != "unsupported" and c["expect"] is not None and cls != c["expect"]:
            k = "%s:expected-%s-reference-%s" % (c["kind"].split(",")[0], c["expect"], cls)
            fixed = c["kind"].startswith(("corpus:", "supp:", "dupattr:"))
            tgt = specdis if fixed else overruled
            if k not in tgt or len(c["bytes"]) < len(tgt[k][0]):
                tgt[k] = (c["bytes"], ref, bool(bad))
    stats["generated_documents"] = len(cases)
    stats["reference_verdicts"] = hist
    stats["mutation_kinds"] = mk
    stats["constructor_coverage"] = dict(sorted(cov.items()))
    stats["spec_disagreements"] = {k: show(v[0]) + " => " + v[1] for k, v in specdis.items()}
    stats["generator_expectation_overruled"] = {k: show(v[0]) + " => " + v[1] + (" (library contradicts the reference: reported)" if v[2] else " (library agrees with the reference)")
                                                for k, v in overruled.items()}
    if overruled:
        ctx.notes.append("%d random case categories whose mutation label was overruled by the reference (see stats.generator_expectation_overruled)" % len(overruled))
    if specdis:
        k, (b, ref, _) = sorted(specdis.items())[0]
        ctx.violations.append({"key": "corr:xmlwf-corpus", "concrete": False,
            "what": "hand-checked expectation of a fixed witness and reference verdict differ in %d categories, e.g. %s: %r => %s (reference or witness family wrong; not a library defect)" % (len(specdis), k, show(b), ref),
            "replay": {"tier": "doc", "bytes": hexbytes(b), "configs": "ALL", "reference": ref}})
    common.log("C02 generated stream done (%d documents)" % len(cases))
    # ---- (3) exhaustive short strings
    docs, extra, n = exhaustive_docs(th)
    ecases = [{"bytes": d.encode(), "kind": "exhaustive"} for d in docs] + [{"bytes": d.encode(), "kind": "exhaustive+"} for d in extra]
    eres, ecr = run_cases(ctx, ecases, lambda c: EXH_CONFIGS if c["kind"] == "exhaustive" else EXH_CONFIGS_SMALL)
    eh = {"ok": 0, "nsfatal": 0, "fatal": 0, "unsupported": 0}
    for c, (ref, o, bad) in zip(ecases, eres):
        cls, _ = ref_class(ref)
        eh[cls] += 1
        if cls != "unsupported":
            evals += len(parse_obs(o))
        for tok in parse_obs(o).values():
            if tok.startswith("fatal:"):
                nm = code_name(tok).split("+")[0].split("!")[0]
                elicited[nm] = elicited.get(nm, 0) + 1
        record(ctx, best, c, ref, o, bad, "exhaustive tier")
    stats["exhaustive_tier"] = {"alphabet": ALPHABET, "all_strings_up_to_length": n, "plus_length": ("%d starting with '<' under %s" % (n + 1, EXH_CONFIGS_SMALL)) if th else "-",
                                "documents": len(ecases), "configurations": EXH_CONFIGS, "reference_verdicts": eh}
    stats["exhaustive"] = False
    evals += sequence_check(ctx, best)
    flush(ctx, best)
    for (pos, line, summ) in (crashes + ecr)[:3]:
        ctx.violations.append({"key": "crash", "concrete": True, "what": "harness crashed/hung on %s: %s" % (line[:200], summ),
                               "replay": {"tier": "doc", "bytes": line.split()[1], "configs": line.split()[0]}})
    stats["evaluations"] = evals
    stats["distinct_nontrivial"] = len(distinct) + eh["ok"] + eh["nsfatal"]
    stats["fatal_codes_elicited"] = dict(sorted(elicited.items(), key=lambda kv: -kv[1]))
    stats["fatal_codes_reachable_never_triggered"] = sorted(set(REACHABLE) - set(elicited))
    base = len(CORPUS) + len(supp)
    for k in (0, 8, len(CORPUS) + 7, base + 1, base + 2, base + n_valid + 3, base + n_valid + 4):
        if k < len(cases):
            ctx.samples.append({"doc": show(cases[k]["bytes"]), "kind": cases[k]["kind"], "reference": res[k][0][:80], "impl": " ".join(sorted(set(code_name(x) for x in parse_obs(res[k][1]).values())))[:120]})

# fatal codes that a well-formedness / namespace violation in the modelled fragment can raise (from reading the scanners)
REACHABLE = """ExpectedCommentOrCDATA ExpectedAttrName ExpectedEqSign ExpectedQuotedString UnterminatedXMLDecl ExpectedDeclString
InvalidDocumentStructure UnterminatedEndTag ExpectedWhitespace IllegalSequenceInComment UnterminatedComment InvalidCharacter
PINameExpected UnterminatedPI InvalidCharacterInAttrValue ExpectedEndOfTagX UnterminatedStartTag UnterminatedCDATASection
ExpectedCommentOrPI NotValidAfterContent ExpectedAttrValue BadSequenceInCharData BadDigitForRadix UnterminatedCharRef ExpectedEntityRefName
EntityNotFound UnterminatedEntityRef BracketInAttrValue AttrAlreadyUsedInSTag ExpectedElementName NoPIStartsWithXML
XMLDeclMustBeFirst XMLVersionRequired StandaloneNotLegal EncodingRequired BadXMLEncoding BadStandalone UnsupportedXMLVersion DeclStringRep
DeclStringsInWrongOrder EndedWithTagsOnStack InvalidElementName InvalidAttrName UnknownPrefix ColonNotLegalWithNS
NoEmptyStrNamespace NoUseOfxmlnsAsPrefix NoUseOfxmlnsURI PrefixXMLNotMatchXMLURI XMLURINotMatchXMLPrefix NoXMLNSAsElementPrefix
XMLException_Fatal MoreEndThanStartTags EmptyMainEntity InvalidCharacterRef PartialTagMarkupError PartialMarkupInEntity
RecursiveEntity NoUnparsedEntityRefs NoExtRefsInAttValue UnterminatedDOCTYPE ExpectedContentSpecExpr ExpectedAsterisk
ExpectedChoiceOrCloseParen ExpectedSeqOrCloseParen ExpectedDefAttrDecl ExpectedAttributeType ExpectedEnumValue ExpectedEntityValue
ExpectedMarkupDecl UnterminatedElementDecl UnterminatedEntityDecl UnterminatedNotationDecl UnterminatedEntityLiteral
ExpectedSystemOrPublicId ExpectedPublicId InvalidPublicIdChar ExpectedNotationName ExpectedNDATA 
ExpectedEnumSepOrParen DuplicateDocTypeDecl PERefInMarkupInIntSubset NoRootElemInDOCTYPE UnterminatedContentModel ExpectedSeqChoiceLeaf ExpectedOpenParen ExpectedMarkup ExpectedComment""".split()

# ------------------------------------------------------------------ search after a broken obligation
def table_search(ctx, dspec):
    """table entries where the implementation differs from the Spec -> a one-character document with a wrong verdict"""
    cand = []
    seen = set()
    for v, c, a, s in dspec[:40]:
        for d in one_char_docs(v, c):
            if d not in seen:
                seen.add(d); cand.append({"bytes": d, "kind": "one-char U+%04X xml%s flags api=%02x spec=%02x (%s)" % (
                    c, v, a, s, "/".join(MASKS[m] for m in MASKS if (a ^ s) & m))})
    res, _ = run_cases(ctx, cand, cfgword)
    best = None
    for c, (ref, o, bad) in zip(cand, res):
        for key, what, cfgs in bad:
            if best is None or len(c["bytes"]) < len(best[0]["bytes"]):
                best = (c, ref, o, key, what, cfgs)
    if not best:
        return None
    c, ref, o, key, what, cfgs = best
    return {"key": "chartable:" + key, "concrete": True,
            "what": "character table entry differs from the XML productions (%s): %s on the one-character document %r under %s" % (c["kind"], what, show(c["bytes"]), ",".join(cfgs[:6])),
            "replay": {"tier": "doc", "bytes": hexbytes(c["bytes"]), "configs": ",".join(cfgs), "reference": ref, "impl": o[:1500]}}

_search_cache = {}
def search(ctx, broken):
    if "done" in _search_cache:
        return None
    _search_cache["done"] = True
    # (i) table indices
    _, dgen, dspec = table_check(ctx)
    if dspec:
        f = table_search(ctx, dspec)
        if f:
            return f
    # (ii) the generator corpus at a larger budget, judged by the reference alone
    cases, _, _ = gen_streams(ctx, 400, 900)
    cases = [{"bytes": b, "expect": e, "kind": "corpus:" + w} for b, e, w in CORPUS] + supp_matrix() + dupattr_family() + cases
    res, _ = run_cases(ctx, cases, cfgword)
    best = {}
    for c, (ref, o, bad) in zip(cases, res):
        record(ctx, best, c, ref, o, bad, "search after broken %s %s" % (broken["kind"], broken["name"]))
    known = {f["key"] for f in common.load_findings() if f.get("property") == PID and f.get("status") == "open"}
    for key, v in best.items():
        if key in known:
            continue
        return {"key": key, "concrete": True,
                "what": "%s [%s] on document %r under %s" % (v["what"], v["origin"], show(v["case"]["bytes"]), ",".join(v["cfgs"][:8])),
                "replay": {"tier": "doc", "bytes": hexbytes(v["case"]["bytes"]), "configs": ",".join(v["cfgs"]), "reference": v["ref"], "impl": v["obs"][:2000]}}
    return None

def replay(ctx, path):
    r = json.load(open(path))["replay"]
    if "bytes" not in r:
        print(json.dumps(r, indent=1)); return 0
    h = r["bytes"]
    cfg = r.get("configs") or "ALL"
    ref = run_driver_lines("xmlwf", [h])[0]
    before = r.get("before") or []
    obs, _ = run_impl([cfg + " " + x for x in before] + [cfg + " " + h], nproc=1, keep_order=True)
    obs = obs[-1:]
    for x in before:
        print("before   :", repr(bytes(int(y, 16) for y in x.split("."))))
    b = bytes(int(x, 16) for x in h.split(".")) if h != "-" else b""
    print("document :", repr(b))
    print("reference:", ref)
    print("impl     :", " ".join("%s=%s" % (c, code_name(o)) for c, o in parse_obs(obs[0]).items()) or obs[0])
    for key, what, cfgs in judge(b, ref, obs[0]):
        print("contradiction:", key, "-", what, "-", ",".join(cfgs))
    return 0
