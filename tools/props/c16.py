"""C16 — a serialised grammar pool restores to a behaviourally identical pool.

Theorems: XV.Props.C16 over the code-shaped XSerializeEngine model (constants / operator descriptors regenerated from the
source) and over the per-class store/load operation lists regenerated from every serialize method, helper pair and
XTemplateSerializer overload pair.

Correspondence
  (a) engine: constants read back through the library (K), random typed value sequences (E) and object graphs with sharing,
      nulls and cycles (G) through the REAL XSerializeEngine into BinMemOutputStream with many buffer sizes, compared
      byte-for-byte (length + FNV-64 + head) with the model, then read back through the real engine; level field (H).
      A disagreement is judged by the property itself (the spec here is set semantics: what is read back must equal what
      was written): concrete violation iff the implementation's own read-back differs from its input.
  (b) pool round trip — two runs of the implementation, NO model (partial): generated DTDs / XML Schemas are loaded into
      pool A, serialised, deserialised into B, re-serialised, deserialised into C; grammar dumps (DTD declarations, XSModel
      component enumeration) and, for generated valid and invalid instances, verdict + multiset of error codes + DOM with
      defaulted attributes and type names + external entities requested must agree between A, B and C.  Corrupted level
      field must raise XSerializationException.
"""
import json, os, re
import common

PID = "C16"
GEN = ["SerConsts", "SerializeOps"]
LEAN_MODULE = "XV.Props.C16"
THEOREMS = ["XV.Props.C16." + t for t in (
    "engine_tables_ok", "prim_roundtrip", "string_roundtrip", "buffer_boundary_invariant", "buffer_size_matters_for_unaligned",
    "level_mismatch_rejected", "level_match_accepted",
    "all_classes_symmetric", "abstract_classes_covered", "all_helpers_symmetric", "all_templates_symmetric",
    "nothing_uncovered", "symmetric_ops_roundtrip", "graph_roundtrip", "pool_index_injective",
    "dv_reference_identity", "dv_name_test_unsound")]
RULE = ("engine: E = random sequences of 1-12 typed values (all 14 primitive kinds, raw blocks, the 4 string encodings incl. null) "
        "x buffer sizes {8..8192} plus directed block-boundary lengths; G = random heaps of <=9 objects of two classes with nulls, "
        "sharing, cycles and distinct objects of identical content; distinct by case text, non-trivial = at least 2 values or 2 objects.  pools: P = one generated DTD or "
        "XML Schema (content models of every kind, attribute types/defaults, facets, identity constraints, wildcards, substitution "
        "groups, notations, entities, annotations; in 2/3 of the schemas named simple types — used as element, attribute, list item, "
        "union member, restriction base and simpleContent base type — are NAMED like XSD built-ins ({urn:t}token, decimal, date, ID ...) "
        "with facets that the built-in lacks, the rest are controls; anonymous simple types; 1/3 of the XSD pools hold a second grammar "
        "urn:u with the same local type names and its own anonymous types, half of them imported by the first) with 7-9 generated "
        "instances (valid + mutated + one probe element/attribute per named type with every listed value); verdicts are not compared "
        "for schemas the loader itself rejects as non-deterministic (UPA); distinct by grammar text")
ASSUMPTIONS = [
    "store and load engines use the same buffer size and buffers congruent mod 8 (both come from the same MemoryManager; default 8192)",
    "strings written with a buffer length have strLen < bufferLen (else readString writes its terminator outside the allocation)",
    "fewer than fgMaxObjectCount objects; values fit their C++ types; little-endian target with the sizes measured by the probe",
    "pool round trip (b) relates two runs of the implementation and has no model: partial",
    "XV.Model.SerEngine.getRaw models XSerializeEngine::read(XMLByte*,n) AFTER the minimal repair fixes/c16_read_chunk.diff "
    "(the unrepaired loop is kept as getRawAsIs and reproduces the defect)"]
TRUSTED = ["tools/translate_ser.py + tools/translate_serops.py (operator descriptors, per-class op lists; normalisations N1-N4 listed in the file)",
           "the transcription of XSerializeEngine into XV.Model.SerEngine", "sizeof probe compiled with the build's compiler"]

TYS = ["byte", "xmlch", "char", "short", "int", "uint", "long", "ulong", "float", "double", "bool", "size", "int64", "uint64"]
TSZ = {"byte": 1, "xmlch": 2, "char": 1, "short": 2, "int": 4, "uint": 4, "long": 8, "ulong": 8, "float": 4, "double": 8,
       "bool": 1, "size": 8, "int64": 8, "uint64": 8}
BUFS = [8, 9, 13, 16, 24, 31, 32, 40, 64, 100, 128, 256]

# benign sanitizer sites outside the serialisation code (memcpy(.., 0, 0) etc.); they belong to C01
IGNORED_SAN = ("ElemStack.cpp", "NamespaceScope.cpp", "XMLBuffer", "ValueVectorOf", "XMLString.hpp")

def hx(v):
    return ".".join("%x" % x for x in v) if v else "-"

def hexs(s):
    return s.encode("utf-8").hex() or "-"

# ------------------------------------------------------------------------------------------------ engine cases
def rand_val(r, B):
    k = r.below(20)
    if k < 9:
        t = r.choice(TYS)
        bits = 8 * TSZ[t]
        if t == "bool":
            v = r.below(2)
        else:
            v = r.choice([0, 1, (1 << bits) - 1, 1 << (bits - 1), r.next() & ((1 << bits) - 1), r.below(256)])
            v &= (1 << bits) - 1
        return "p:%s:%x" % (t, v)
    if k < 12:
        n = r.choice([0, 1, 2, 3, 7, 8, 9, B - 1, B, B + 1, 2 * B, 2 * B + 3, r.below(3 * B + 2)])
        return "r:" + hx([r.below(256) for _ in range(n)])
    if k < 16:
        if r.chance(1, 6):
            return "s:N"
        n = r.choice([0, 1, 2, 3, 4, B // 2 - 1, B // 2, B // 2 + 1, B, r.below(2 * B + 2)])
        return "s:" + hx([1 + r.below(0xFFFE) for _ in range(n)])
    if k < 18:
        if r.chance(1, 6):
            return "S:0:N"
        n = r.choice([0, 1, 2, 5, B // 2, r.below(B + 2)])
        return "S:%x:%s" % (n + 1 + r.below(9), hx([1 + r.below(0xFFFE) for _ in range(n)]))
    if k < 19:
        if r.chance(1, 6):
            return "b:N"
        n = r.choice([0, 1, 3, B - 8, B, r.below(2 * B + 2)])
        return "b:" + hx([1 + r.below(255) for _ in range(max(n, 0))])
    n = r.below(B + 3)
    return "B:%x:%s" % (n + 1 + r.below(5), hx([1 + r.below(255) for _ in range(n)]))

def directed_boundary(B):
    """values whose data ends exactly at a block boundary after at least one full chunk"""
    out = []
    # string: 8-byte length word at 0, data from 8: avail B-8 (B>=16), then k full blocks
    for k in (1, 2):
        if B >= 16 and (B - 8) % 2 == 0 and B % 2 == 0:
            n = ((B - 8) + k * B) // 2
            out.append("E %d 0 s:%s p:int:11223344 p:int:55667788" % (B, hx([0x61 + i % 26 for i in range(n)])))
        out.append("E %d 0 p:byte:7 r:%s p:short:1234 p:byte:9" % (B, hx([(i * 7 + 1) % 256 for i in range((B - 1) + k * B)])))
        out.append("E %d 0 r:%s p:byte:9 s:N" % (B, hx([(i * 5 + 3) % 256 for i in range(k * B + B)])))
    return out

def gen_engine_cases(ctx):
    r = ctx.rng
    th = ctx.thorough()
    lines = []
    for B in BUFS + [8192]:
        if B <= 256:
            lines += directed_boundary(B)
    lines += directed_boundary(8192)[:2]
    n = 6000 if th else 900
    for _ in range(n):
        B = r.choice(BUFS)
        cnt = 1 + r.below(12)
        lines.append("E %d 0 %s" % (B, " ".join(rand_val(r, B) for _ in range(cnt))))
    for _ in range(40 if th else 8):      # default buffer size, long data
        vals = [rand_val(r, 64) for _ in range(4)]
        vals.insert(r.below(4), "s:" + hx([1 + r.below(0xFFFE) for _ in range(3000 + r.below(6000))]))
        lines.append("E 8192 0 " + " ".join(vals))
    return lines

def gen_graph_cases(ctx):
    r = ctx.rng
    lines = []
    for _ in range(1500 if ctx.thorough() else 300):
        n = 1 + r.below(9)
        ids = list(range(1, n + 1))
        cls = {i: 1 + r.below(2) for i in ids}
        A = [i for i in ids if cls[i] == 1]
        Bc = [i for i in ids if cls[i] == 2]
        def pa():
            return r.choice(A) if A and not r.chance(1, 4) else 0
        def pb():
            return r.choice(Bc) if Bc and not r.chance(1, 4) else 0
        toks = []
        lastA = lastB = None      # distinct objects with IDENTICAL content must stay distinct (identity, not value, keys the pool)
        for i in ids:
            if cls[i] == 1:
                s = "N" if r.chance(1, 5) else hx([0x41 + r.below(26) for _ in range(r.below(6))])
                c = (r.next() & 0xFFFFFFFF, s)
                if lastA is not None and r.chance(1, 3):
                    c = lastA
                lastA = c
                if r.chance(1, 4) and lastA is c and len(toks) and toks[-1].split(":")[1] == "1":
                    toks.append("%x:1:%x:%s:%s:%s" % ((i, c[0], c[1]) + tuple(toks[-1].split(":")[4:6])))   # same pointers too
                else:
                    toks.append("%x:1:%x:%s:%x:%x" % (i, c[0], c[1], pa(), pb()))
            else:
                c = (r.below(256), r.next() & 0xFFFFFFFFFFFFFFFF)
                if lastB is not None and r.chance(1, 3):
                    c = lastB
                lastB = c
                toks.append("%x:2:%x:%x:%x:%x:%x" % (i, c[0], pb(), pa(), c[1], pa()))
        root = r.choice(ids) if not r.chance(1, 30) else 0
        lines.append("G %d %x %s" % (r.choice([16, 24, 32, 40, 64, 8192]), root, " ".join(toks)))
    return lines

def parse_E(line):
    return line.split()[3:]

def judge_engine(line, impl):
    """the property itself as oracle: the implementation's read-back must equal what it was given"""
    if line.startswith("E "):
        want = parse_E(line)
        if impl.startswith("CRASH"):
            return "the loading engine crashed while reading back its own stream: " + impl[:200]
        if " > " not in impl and not impl.endswith(" >"):
            return "engine failed: " + impl[:200]
        got = impl.split(" > ", 1)[1].split() if " > " in impl else []
        norm = [w if not w.startswith("S:") or not w.endswith(":N") else "S:0:N" for w in want]
        norm = [w if not w.startswith("B:") or not w.endswith(":N") else "B:0:N" for w in norm]
        if got != norm:
            k = next((i for i in range(min(len(got), len(norm))) if got[i] != norm[i]), min(len(got), len(norm)))
            return "value %d read back as %s, written %s" % (k, " ".join(got[k:k + 2])[:120] or "(nothing)", norm[k][:120] if k < len(norm) else "(end)")
        return None
    if line.startswith("G "):
        if " > " not in impl:
            return "engine failed: " + impl[:200]
        return None     # graphs are judged against the model's restored graph (isomorphism is what the model computes)
    return None

# ------------------------------------------------------------------------------------------------ grammar generators
NAMES = ["a", "b", "c", "d", "e", "f", "g", "h"]

class DtdGen:
    def __init__(self, r):
        self.r = r
    def model(self, names, depth):
        r = self.r
        if depth <= 0 or r.chance(1, 3):
            return r.choice(names) + r.choice(["", "", "?", "*", "+"])
        k = 2 + r.below(2)
        sep = r.choice([",", "|"])
        return "(" + sep.join(self.model(names, depth - 1) for _ in range(k)) + ")" + r.choice(["", "", "?", "*", "+"])
    def gen(self):
        r = self.r
        n = 3 + r.below(5)
        els = NAMES[:n]
        decl, self.cm, self.atts = [], {}, {}
        nots = ["n1", "n2"] if r.chance(1, 2) else []
        for nn in nots:
            decl.append('<!NOTATION %s %s>' % (nn, r.choice(['SYSTEM "http://x/%s"' % nn, 'PUBLIC "-//X//%s"' % nn, 'PUBLIC "-//X//%s" "u%s"' % (nn, nn)])))
        ents = []
        if r.chance(2, 3):
            decl.append('<!ENTITY ge "text%d">' % r.below(100)); ents.append("ge")
            decl.append('<!ENTITY ge2 "&#60;b/&#62;">')
            decl.append('<!ENTITY % pe "CDATA">')
            if nots:
                decl.append('<!ENTITY ue SYSTEM "http://x/pic" NDATA n1>')
            decl.append('<!ENTITY ext SYSTEM "file:///hx/ext.ent">')
        for e in els:
            k = r.below(10)
            if k == 0:
                m = "EMPTY"
            elif k == 1:
                m = "ANY"
            elif k < 4:
                m = "(#PCDATA)"
            elif k < 6:
                sub = sorted({r.choice(els) for _ in range(1 + r.below(3))})
                m = "(#PCDATA|" + "|".join(sub) + ")*"
            else:
                m = self.model(els, 2)
                if not m.startswith("("):
                    m = "(" + m + ")"
            self.cm[e] = m
            decl.append("<!ELEMENT %s %s>" % (e, m))
            al = []
            have_id = False
            for ai in range(r.below(4)):
                an = "at%d" % ai
                t = r.below(9)
                if t == 0 and not have_id:
                    ty, vals, have_id = "ID", None, True
                elif t == 1:
                    ty, vals = "IDREF", None
                elif t == 2:
                    ty, vals = "NMTOKENS", ["x y", "z"]
                elif t == 3:
                    ty, vals = "(p|q|r)", ["p", "q", "r"]
                elif t == 4 and nots:
                    ty, vals = "NOTATION (n1|n2)", ["n1", "n2"]
                elif t == 5 and "ue" in " ".join(decl):
                    ty, vals = "ENTITY", ["ue"]
                elif t == 6:
                    ty, vals = "NMTOKEN", ["tok", "t2"]
                else:
                    ty, vals = ("%pe;" if "% pe" in " ".join(decl) and r.chance(1, 3) else "CDATA"), ["v%d" % r.below(9), "a  b", "x&ge;y" if ents else "xy", "&#9;t"]
                d = r.below(4)
                if ty in ("ID",):
                    dflt = r.choice(["#REQUIRED", "#IMPLIED"])
                elif d == 0 or vals is None:
                    dflt = r.choice(["#REQUIRED", "#IMPLIED"])
                elif d == 1:
                    dflt = '#FIXED "%s"' % r.choice(vals)
                else:
                    dflt = '"%s"' % r.choice(vals)
                al.append((an, ty, dflt, vals))
            if al:
                decl.append("<!ATTLIST %s %s>" % (e, " ".join("%s %s %s" % (a, t, d) for a, t, d, _ in al)))
            self.atts[e] = al
        self.els = els
        r2 = self.r
        if r2.chance(1, 4):
            decl.insert(r2.below(len(decl) + 1), "<!-- c%d -->" % r2.below(9))
        return "\n".join(decl)
    # ---- instances
    def expand(self, m, depth):
        """a random word of the content model (list of child element names)"""
        r = self.r
        m = m.strip()
        occ = ""
        if m and m[-1] in "?*+":
            occ, m = m[-1], m[:-1]
        def once():
            if m.startswith("("):
                inner = m[1:-1]
                parts, d, cur = [], 0, ""
                sep = None
                for ch in inner:
                    if ch == "(":
                        d += 1
                    elif ch == ")":
                        d -= 1
                    if d == 0 and ch in ",|":
                        sep = ch; parts.append(cur); cur = ""
                    else:
                        cur += ch
                parts.append(cur)
                if sep == "|":
                    return self.expand(r.choice(parts), depth)
                out = []
                for p in parts:
                    out += self.expand(p, depth)
                return out
            return [m]
        cnt = {"": 1, "?": r.below(2), "*": r.below(3), "+": 1 + r.below(2)}[occ]
        if depth > 3 and occ in "?*":
            cnt = 0
        out = []
        for _ in range(cnt):
            out += once()
        return out
    def elem(self, e, depth, ids):
        r = self.r
        attrs = []
        for a, t, d, vals in self.atts.get(e, []):
            if d == "#REQUIRED" or (not d.startswith("#FIXED") and r.chance(1, 2)):
                if t == "ID":
                    v = "i%d" % len(ids); ids.append(v)
                elif t == "IDREF":
                    v = r.choice(ids) if ids else "i0"
                else:
                    v = r.choice(vals) if vals else "v"
                    v = v.replace("&ge;", "").replace("&#9;", " ")
                attrs.append('%s="%s"' % (a, v))
        m = self.cm[e]
        s = "<" + e + ("" if not attrs else " " + " ".join(attrs))
        if m == "EMPTY":
            return s + "/>"
        if m == "(#PCDATA)":
            return s + ">" + r.choice(["t", "", "x &amp; y", "&ge;" if "ge" in self.text else "q"]) + "</" + e + ">"
        if depth > 4:
            kids = []
        elif m == "ANY":
            kids = [r.choice(self.els) for _ in range(r.below(3))]
        elif m.startswith("(#PCDATA|"):
            alts = m[9:-2].split("|")
            kids = [r.choice(alts) for _ in range(r.below(3))]
        else:
            kids = self.expand(m, depth)
        body = ""
        for k in kids[:6]:
            body += self.elem(k, depth + 1, ids)
            if m.startswith("(#PCDATA|") and r.chance(1, 2):
                body += "txt"
        if not m.startswith("(#PCDATA") and m != "ANY" and r.chance(1, 3):
            body = " " + body + "\n"      # ignorable whitespace
        return s + ">" + body + "</" + e + ">"
    def instances(self, text):
        r = self.r
        self.text = text
        out = []
        for k in range(6):
            root = r.choice(self.els)
            doc = self.elem(root, 0, [])
            mut = k >= 2
            if mut:
                w = r.below(6)
                if w == 0:
                    doc = re.sub(r' at\d="[^"]*"', "", doc, count=1)
                elif w == 1:
                    doc = doc.replace('="', '="!bad ', 1)
                elif w == 2:
                    doc = doc.replace("</" + root + ">", "<zz/></" + root + ">", 1)
                elif w == 3:
                    doc = re.sub(r"<(\w+)([^<>]*)/>", r"<\1\2>stray</\1>", doc, count=1)
                elif w == 4:
                    doc = doc.replace("<" + root, "<" + root + ' undeclared="1"', 1)
                else:
                    m2 = re.search(r"<(\w+)[^<>]*/>|<(\w+)[^<>]*>[^<]*</\2>", doc)
                    if m2:
                        doc = doc[:m2.end()] + m2.group(0) + doc[m2.end():]
            out.append('<!DOCTYPE %s SYSTEM "file:///hx/g0.dtd">%s' % (root, doc))
        out.append('<!DOCTYPE %s SYSTEM "file:///hx/g0.dtd" [<!ATTLIST %s extra CDATA "int">]><%s/>' % (self.els[0], self.els[0], self.els[0]))
        return out

XS = "http://www.w3.org/2001/XMLSchema"

class XsdGen:
    def __init__(self, r):
        self.r = r
    # (template, ok values, facet/lexically bad values, kind, built-in local names the type may be NAMED after: a user type
    #  {urn:t}token is legal; the names are chosen so that the facet-violating values are still valid for the xs: built-in
    #  of that name, i.e. a pool that confuses the two gives a different verdict)
    POOL = [
        ('<xs:simpleType name="%s"><xs:restriction base="xs:string"><xs:enumeration value="red"/><xs:enumeration value="green"/><xs:enumeration value="b l"/></xs:restriction></xs:simpleType>', ["red", "green"], ["blue", ""], "a", ["token", "string", "normalizedString"]),
        ('<xs:simpleType name="%s"><xs:restriction base="xs:string"><xs:pattern value="[A-Z]{2}\\d+"/><xs:maxLength value="5"/><xs:minLength value="3"/></xs:restriction></xs:simpleType>', ["AB1", "XY123"], ["ab1", "AB12345", "A1"], "a", ["string", "token", "NMTOKEN", "Name"]),
        ('<xs:simpleType name="%s"><xs:restriction base="xs:int"><xs:minInclusive value="-5"/><xs:maxExclusive value="100"/></xs:restriction></xs:simpleType>', ["0", "-5", "99"], ["100", "-6", "x"], "a", ["int", "integer", "long", "short"]),
        ('<xs:simpleType name="%s"><xs:restriction base="xs:decimal"><xs:totalDigits value="5"/><xs:fractionDigits value="2"/><xs:minExclusive value="0.5"/><xs:maxInclusive value="999.99"/></xs:restriction></xs:simpleType>', ["1.25", "999.99"], ["0.5", "1.234", "1000"], "a", ["decimal"]),
        ('<xs:simpleType name="%s"><xs:restriction base="xs:date"><xs:minInclusive value="2000-01-01"/><xs:maxInclusive value="2010-12-31Z"/></xs:restriction></xs:simpleType>', ["2005-06-07"], ["1999-12-31", "2005-13-01"], "a", ["date"]),
        ('<xs:simpleType name="%s"><xs:list itemType="xs:NMTOKEN"/></xs:simpleType>', ["a b c", "x"], ["a,b !"], "l", ["NMTOKENS", "IDREFS"]),
        ('<xs:simpleType name="%s"><xs:union memberTypes="xs:int xs:boolean"><xs:simpleType><xs:restriction base="xs:string"><xs:enumeration value="none"/></xs:restriction></xs:simpleType></xs:union></xs:simpleType>', ["7", "true", "none"], ["maybe"], "u", ["string", "anySimpleType"]),
        ('<xs:simpleType name="%s"><xs:restriction base="xs:double"><xs:minInclusive value="-1.5E2"/><xs:maxInclusive value="INF"/></xs:restriction></xs:simpleType>', ["1e3", "INF", "-150"], ["-151", "NaNx"], "a", ["double", "float"]),
        ('<xs:simpleType name="%s"><xs:restriction base="xs:token"><xs:whiteSpace value="collapse"/><xs:length value="3"/></xs:restriction></xs:simpleType>', ["abc", "  abc  "], ["abcd"], "a", ["token", "NCName", "language"]),
        ('<xs:simpleType name="%s"><xs:restriction base="xs:duration"><xs:minInclusive value="P1D"/></xs:restriction></xs:simpleType>', ["P2D", "P1Y"], ["PT1H"], "a", ["duration"]),
        ('<xs:simpleType name="%s"><xs:restriction base="xs:hexBinary"><xs:maxLength value="2"/></xs:restriction></xs:simpleType>', ["0aFF", ""], ["0a1", "0a0b0c"], "a", ["hexBinary"]),
        ('<xs:simpleType name="%s"><xs:restriction base="xs:float"><xs:enumeration value="1.5"/><xs:enumeration value="2"/></xs:restriction></xs:simpleType>', ["1.5", "2.0"], ["3"], "a", ["float", "double", "decimal"]),
        ('<xs:simpleType name="%s"><xs:restriction base="xs:anyURI"><xs:pattern value="http://.*"/></xs:restriction></xs:simpleType>', ["http://a/b"], ["ftp://x"], "a", ["anyURI"]),
        ('<xs:simpleType name="%s"><xs:restriction base="xs:QName"/></xs:simpleType>', ["t:x", "y"], ["1:2"], "a", ["QName"]),
        ('<xs:simpleType name="%s"><xs:restriction base="xs:gYearMonth"><xs:maxExclusive value="2020-01"/></xs:restriction></xs:simpleType>', ["2019-12"], ["2020-01"], "a", ["gYearMonth"]),
    ]
    ODD = ["boolean", "ID", "byte", "time", "unsignedInt", "positiveInteger"]      # built-in names of an unrelated type

    def pick_name(self, coll, fallback):
        """local name of a new named simple type: colliding with a built-in in a good share of the schemas"""
        r = self.r
        if self.collide and r.chance(2, 3):
            nm = r.choice(self.ODD) if r.chance(1, 8) else r.choice(coll)
            if nm not in self.names:
                self.names.add(nm); self.collisions += 1
                return nm
        self.names.add(fallback)
        return fallback

    def simple_types(self):
        r = self.r
        pool = self.POOL
        k = 2 + r.below(4)
        chosen = [pool[r.below(len(pool))] for _ in range(k)]
        self.st = {}
        self.user, self.kind = [], {}
        decls = []
        for i, (txt, ok, bad, kind, coll) in enumerate(chosen):
            nm = self.pick_name(coll, "st%d" % i)
            decls.append(txt % nm)
            self.st[self.pfx + ":" + nm] = (ok, bad)
            self.user.append(self.pfx + ":" + nm); self.kind[self.pfx + ":" + nm] = kind
        self.primary = list(self.user)
        atomic = [u for u in self.user if self.kind[u] == "a"]
        # derived from user types: further restriction, list with a user item type, union with a user member type
        if r.chance(2, 3):
            base = r.choice(self.user)
            ok, bad = self.st[base]
            nm = self.pick_name(["normalizedString", "Name", "NMTOKEN", "nonNegativeInteger", "unsignedByte"], "std")
            if r.chance(1, 2) and "&" not in ok[0]:
                decls.append('<xs:simpleType name="%s"><xs:restriction base="%s"><xs:enumeration value="%s"/></xs:restriction></xs:simpleType>' % (nm, base, ok[0]))
                self.st[self.pfx + ":" + nm] = ([ok[0]], [v for v in ok[1:] if v.strip() != ok[0].strip()] + bad)
            else:
                decls.append('<xs:simpleType name="%s"><xs:restriction base="%s"/></xs:simpleType>' % (nm, base))
                self.st[self.pfx + ":" + nm] = self.st[base]
            self.user.append(self.pfx + ":" + nm); self.kind[self.pfx + ":" + nm] = self.kind[base]
        if atomic and r.chance(1, 2):
            item = r.choice(atomic)
            iok = [v for v in self.st[item][0] if v and " " not in v]
            ibad = [v for v in self.st[item][1] if v and " " not in v]
            if iok:
                nm = self.pick_name(["NMTOKENS", "IDREFS", "ENTITIES"], "stl")
                decls.append('<xs:simpleType name="%s"><xs:list itemType="%s"/></xs:simpleType>' % (nm, item))
                self.st[self.pfx + ":" + nm] = ([" ".join(iok), iok[0]], [iok[0] + " " + b for b in ibad])
                self.user.append(self.pfx + ":" + nm); self.kind[self.pfx + ":" + nm] = "l"
        if atomic and r.chance(1, 2):
            mem = r.choice(atomic)
            nm = self.pick_name(["anySimpleType", "string", "token"], "stu")
            decls.append('<xs:simpleType name="%s"><xs:union memberTypes="%s xs:boolean"/></xs:simpleType>' % (nm, mem))
            self.st[self.pfx + ":" + nm] = (self.st[mem][0] + ["true"], [b for b in self.st[mem][1] if b not in ("0", "1", "true", "false")])
            self.user.append(self.pfx + ":" + nm); self.kind[self.pfx + ":" + nm] = "u"
        for b, ok, bad in (("xs:string", ["s", ""], []), ("xs:int", ["1", "-2"], ["x", "1.5"]), ("xs:boolean", ["true", "0"], ["yes"]),
                           ("xs:dateTime", ["2001-02-03T04:05:06Z"], ["2001-02-03"]), ("xs:NCName", ["n1"], ["1n", "a:b"])):
            self.st[b] = (ok, bad)
        return decls
    def anon_type(self):
        """an anonymous simple type (named __AnonS<n> internally), sometimes restricting a user type"""
        r = self.r
        if self.primary and r.chance(1, 2):
            base = r.choice(self.primary)
            ok, bad = self.st[base]
            if "&" not in ok[0]:
                return ('<xs:simpleType><xs:restriction base="%s"><xs:enumeration value="%s"/></xs:restriction></xs:simpleType>' % (base, ok[0]),
                        [ok[0]], [v for v in ok[1:] if v.strip() != ok[0].strip()] + bad)
        return r.choice([
            ('<xs:simpleType><xs:restriction base="xs:int"><xs:maxInclusive value="9"/></xs:restriction></xs:simpleType>', ["3", "9"], ["10", "x"]),
            ('<xs:simpleType><xs:restriction base="xs:string"><xs:length value="2"/></xs:restriction></xs:simpleType>', ["ab"], ["abc", ""]),
            ('<xs:simpleType><xs:list itemType="xs:int"/></xs:simpleType>', ["1 2 3", ""], ["1 b"]),
            ('<xs:simpleType><xs:union memberTypes="xs:date xs:int"/></xs:simpleType>', ["2001-01-01", "5"], ["five"])])
    def particle(self, depth):
        """returns (xsd text, generator of instance content)"""
        r = self.r
        k = r.below(10)
        occ, lo, hi = self.occurs()
        if depth <= 0 or k < 5:
            nm = "e%d" % self.ctr; self.ctr += 1
            if r.chance(1, 6):
                atxt, aok, abad = self.anon_type()
                aty = "anon:%s" % nm
                self.st[aty] = (aok, abad)
                txt = '<xs:element name="%s"%s>%s</xs:element>' % (nm, occ, atxt)
                def gen(valid, nm=nm, ty=aty, lo=lo, hi=hi):
                    n = lo + self.r.below(hi - lo + 1)
                    return "".join("<%s:%s>%s</%s:%s>" % (self.pfx, nm, self.value(ty, valid), self.pfx, nm) for _ in range(n))
                return txt, gen
            ty = r.choice([x for x in self.st if not x.startswith("anon:")])
            extra = ""
            if r.chance(1, 6):
                dv = self.st[ty][0][0]
                extra = ' %s="%s"' % (r.choice(["default", "fixed"]), dv)
            nil = ' nillable="true"' if r.chance(1, 8) else ""
            txt = '<xs:element name="%s" type="%s"%s%s%s/>' % (nm, ty, occ, extra, nil)
            def gen(valid, nm=nm, ty=ty, lo=lo, hi=hi):
                n = lo + self.r.below(hi - lo + 1)
                return "".join("<t:%s>%s</t:%s>" % (nm, self.value(ty, valid), nm) for _ in range(n))
            return txt, gen
        if k < 6 and self.globals_:
            g = r.choice(self.globals_)
            txt = '<xs:element ref="t:%s"%s/>' % (g, occ)
            def gen(valid, g=g, lo=lo, hi=hi):
                n = lo + self.r.below(hi - lo + 1)
                out = ""
                for _ in range(n):
                    nm = g
                    if g in self.subst and self.r.chance(1, 2):
                        nm = self.r.choice(self.subst[g])
                    out += "<t:%s>%s</t:%s>" % (nm, self.value(self.gtype[nm], valid), nm)
                return out
            return txt, gen
        if k < 7:
            ns = r.choice(["##any", "##other", "urn:o", "##targetNamespace ##local"])
            pc = r.choice(["lax", "skip", "strict"])
            txt = '<xs:any namespace="%s" processContents="%s"%s/>' % (ns, pc, self.occurs1()[0])
            def gen(valid, ns=ns):
                if "##other" in ns or "urn:o" in ns or "##any" in ns:
                    return '<o:w xmlns:o="urn:o">z</o:w>' if self.r.chance(1, 2) else ""
                return ""
            return txt, gen
        comp = r.choice(["sequence", "choice"])
        subs = [self.particle(depth - 1) for _ in range(2 + r.below(2))]
        txt = "<xs:%s%s>%s</xs:%s>" % (comp, occ, "".join(s[0] for s in subs), comp)
        def gen(valid, comp=comp, subs=subs, lo=lo, hi=hi):
            n = lo + self.r.below(hi - lo + 1)
            out = ""
            for _ in range(n):
                if comp == "choice":
                    out += self.r.choice(subs)[1](valid)
                else:
                    out += "".join(s[1](valid) for s in subs)
            return out
        return txt, gen
    def occurs(self):
        r = self.r
        k = r.below(8)
        if k < 3: return "", 1, 1
        if k == 3: return ' minOccurs="0"', 0, 1
        if k == 4: return ' maxOccurs="unbounded"', 1, 3
        if k == 5: return ' minOccurs="0" maxOccurs="unbounded"', 0, 2
        if k == 6: return ' minOccurs="2" maxOccurs="3"', 2, 3
        return ' maxOccurs="2"', 1, 2
    def occurs1(self):
        return self.r.choice([("", 1, 1), (' minOccurs="0"', 0, 1)])
    def value(self, ty, valid):
        ok, bad = self.st[ty]
        if valid or not bad or self.r.chance(2, 3):
            return self.r.choice(ok)
        return self.r.choice(bad)
    def attrs(self):
        r = self.r
        txt, gens = "", []
        for i in range(r.below(4)):
            nm = "at%d" % i
            use = r.below(5)
            ty = r.choice([t for t in self.st if not t.startswith("anon:")])
            # (an attribute of a USER-DEFINED simple type makes IGXMLScanner::buildAttList dereference a null
            #  XSSimpleTypeDefinition when a PSVI handler is installed and the grammar comes from the pool — on the ORIGINAL
            #  pool as well, so not a C16 matter; such schemas are validated without DOM type info)
            if not ty.startswith("xs:"):
                self.psvi_safe = False
            ok = self.st[ty][0]
            if use == 0:
                u = ' use="required"'
            elif use == 1:
                u = ' default="%s"' % ok[0]
            elif use == 2:
                u = ' fixed="%s"' % ok[0]
            else:
                u = ""
            txt += '<xs:attribute name="%s" type="%s"%s/>' % (nm, ty, u)
            gens.append((nm, ty, use))
        if r.chance(1, 6):
            atxt, aok, abad = self.anon_type()
            self.st["anon:@aa"] = (aok, abad)
            self.psvi_safe = False
            txt += '<xs:attribute name="aa">%s</xs:attribute>' % atxt
            gens.append(("aa", "anon:@aa", 3))
        if r.chance(1, 5):
            txt += '<xs:attributeGroup ref="t:ag"/>'
            gens.append(("ga", "xs:int", 3))
        if r.chance(1, 5):
            pc = r.choice(["lax", "skip"])
            txt += '<xs:anyAttribute namespace="##other" processContents="%s"/>' % pc
            # (an attribute matched by a skip wildcard crashes IGXMLScanner::buildAttList under a PSVI handler even
            #  without any serialisation — outside this property; such attributes are only generated for lax)
            # no instance attribute is generated for the wildcard (see above): pc = lax/skip
        return txt, gens
    def attr_text(self, gens, valid):
        out = ""
        for nm, ty, use in gens:
            # (no foreign-namespace attributes: an undeclared / wildcard-matched attribute makes IGXMLScanner::buildAttList
            #  dereference a null XSSimpleTypeDefinition under a PSVI handler on the ORIGINAL pool — not a C16 matter)
            if use == 0 or (use != 2 and self.r.chance(1, 2)):
                if use == 0 and not valid and self.r.chance(1, 4):
                    continue
                out += ' %s="%s"' % (nm, self.value(ty, valid))
        return out
    def gen(self):
        r = self.r
        self.ctr = 0
        self.psvi_safe = True
        self.pfx = "t"
        self.names = set()
        self.collisions = 0
        self.collide = r.below(3) != 0          # one third of the schemas are controls without built-in-named user types
        self.globals_, self.subst, self.gtype = [], {}, {}
        self.import_u = None
        self.second = None
        parts = ['<xs:schema xmlns:xs="%s" targetNamespace="urn:t" xmlns:t="urn:t" xmlns:u="urn:u" elementFormDefault="qualified"%s>' % (
            XS, r.choice(["", ' attributeFormDefault="unqualified"', ' blockDefault="substitution"', ' blockDefault="extension"']))]
        two = r.chance(1, 3)
        if two and r.chance(1, 2):
            parts.append('<xs:import namespace="urn:u" schemaLocation="file:///hx/g0.xsd"/>')
            self.import_u = "IMPORT"
        if r.chance(1, 2):
            parts.append('<xs:annotation><xs:documentation xml:lang="en">doc %s &amp; more</xs:documentation><xs:appinfo><x>i</x></xs:appinfo></xs:annotation>' % ("d" * r.below(40)))
        if r.chance(1, 5):
            parts.append('<xs:notation name="nt" public="-//X//nt" system="http://x/nt"/>')
        parts += self.simple_types()
        if two:
            self.second = self.gen_second()
            if self.import_u:
                self.import_u = self.second["types"][0][0]
        parts.append('<xs:attributeGroup name="ag"><xs:attribute name="ga" type="xs:int"/></xs:attributeGroup>')
        # global elements with simple types, one substitution group
        for i in range(1 + r.below(3)):
            nm = "g%d" % i
            ty = r.choice([t for t in self.st if not t.startswith("anon:")])
            abstract = ' abstract="true"' if (i == 0 and r.chance(1, 4)) else ""
            parts.append('<xs:element name="%s" type="%s"%s/>' % (nm, ty, abstract))
            self.globals_.append(nm); self.gtype[nm] = ty
        if r.chance(2, 3):
            head = self.globals_[0]
            parts.append('<xs:element name="sub0" type="%s" substitutionGroup="t:%s"/>' % (self.gtype[head], head))
            self.subst[head] = ["sub0"]; self.gtype["sub0"] = self.gtype[head]
        if r.chance(1, 2):
            parts.append('<xs:group name="grp"><xs:sequence><xs:element name="ge" type="xs:string" minOccurs="0"/></xs:sequence></xs:group>')
        # named complex types: base + extension / simpleContent
        ptxt, pgen = self.particle(2)
        if not ptxt.startswith(("<xs:sequence", "<xs:choice")):
            ptxt = "<xs:sequence>" + ptxt + "</xs:sequence>"
        atxt, agens = self.attrs()
        mixed = ' mixed="true"' if r.chance(1, 6) else ""
        parts.append('<xs:complexType name="base"%s%s>%s%s</xs:complexType>' % (mixed, ' abstract="true"' if r.chance(1, 8) else "", ptxt, atxt))
        etxt, egen = self.particle(1)
        if not etxt.startswith(("<xs:sequence", "<xs:choice")):
            etxt = "<xs:sequence>" + etxt + "</xs:sequence>"
        parts.append('<xs:complexType name="ext"%s><xs:complexContent><xs:extension base="t:base">%s<xs:attribute name="xa" type="xs:string"/></xs:extension></xs:complexContent></xs:complexType>' % (mixed, etxt))
        sc_ty = r.choice(self.user)
        parts.append('<xs:complexType name="sc"><xs:simpleContent><xs:extension base="%s"><xs:attribute name="u" type="xs:NCName" default="dflt"/></xs:extension></xs:simpleContent></xs:complexType>' % sc_ty)
        if r.chance(1, 2):
            parts.append('<xs:complexType name="allt"><xs:all><xs:element name="p" type="xs:int"/><xs:element name="q" type="xs:string" minOccurs="0"/></xs:all></xs:complexType>')
            have_all = True
        else:
            have_all = False
        # root element: anonymous type with sequence of: base-typed child (xsi:type possible), sc child, keyed items
        idc = r.chance(2, 3)
        root = ['<xs:element name="root"><xs:complexType><xs:sequence>',
                '<xs:element name="b" type="t:base" minOccurs="0" maxOccurs="2"/>',
                '<xs:element name="s" type="t:sc" minOccurs="0"/>']
        if have_all:
            root.append('<xs:element name="al" type="t:allt" minOccurs="0"/>')
        if "grp" in "".join(parts):
            root.append('<xs:group ref="t:grp"/>')
        # one probe element (and sometimes attribute) per named simple type: instances hit exactly its facets
        self.probe_attrs = (not self.psvi_safe) or r.chance(1, 2)
        pr = '<xs:element name="pr" minOccurs="0"><xs:complexType><xs:sequence>'
        for k, u in enumerate(self.user):
            pr += '<xs:element name="p%d" type="%s" minOccurs="0" maxOccurs="unbounded"/>' % (k, u)
        if self.import_u:
            pr += '<xs:element name="imp" type="u:%s" minOccurs="0" maxOccurs="unbounded"/>' % self.import_u
        pr += '</xs:sequence>'
        if self.probe_attrs:
            self.psvi_safe = False
            for k, u in enumerate(self.user):
                pr += '<xs:attribute name="q%d" type="%s"/>' % (k, u)
        pr += '</xs:complexType></xs:element>'
        root.append(pr)
        root.append('<xs:element name="item" minOccurs="0" maxOccurs="unbounded"><xs:complexType><xs:attribute name="k" type="xs:int" use="required"/><xs:attribute name="r" type="xs:int"/></xs:complexType></xs:element>')
        root.append('</xs:sequence><xs:attribute name="ver" type="xs:decimal" default="1.0"/></xs:complexType>')
        if idc:
            kind = r.choice(["key", "unique"])
            root.append('<xs:%s name="K"><xs:selector xpath="t:item"/><xs:field xpath="@k"/></xs:%s>' % (kind, kind))
            if kind == "key" and r.chance(1, 2):
                root.append('<xs:keyref name="KR" refer="t:K"><xs:selector xpath=".//t:item"/><xs:field xpath="@r"/></xs:keyref>')
        root.append('</xs:element>')
        parts += root
        parts.append("</xs:schema>")
        self.base_gen, self.base_attrs, self.ext_gen, self.sc_ty, self.have_all = pgen, agens, egen, sc_ty, have_all
        self.has_grp = "grp" in "".join(parts)
        return "\n".join(parts)
    def instances(self, text):
        r = self.r
        out = []
        for k in range(6):
            valid = k < 3
            body = ""
            for _ in range(r.below(3)):
                if r.chance(1, 3):
                    body += '<t:b xsi:type="t:ext"%s>%s%s</t:b>' % (self.attr_text(self.base_attrs, valid), self.base_gen(valid), self.ext_gen(valid))
                else:
                    body += "<t:b%s>%s</t:b>" % (self.attr_text(self.base_attrs, valid), self.base_gen(valid))
            if r.chance(1, 2):
                body += "<t:s%s>%s</t:s>" % (' u="x1"' if r.chance(1, 2) else "", self.value(self.sc_ty, valid))
            if self.have_all and r.chance(1, 2):
                body += r.choice(["<t:al><t:p>1</t:p><t:q>x</t:q></t:al>", "<t:al><t:q>x</t:q><t:p>2</t:p></t:al>", "<t:al><t:q>x</t:q></t:al>" if not valid else "<t:al><t:p>3</t:p></t:al>"])
            if self.has_grp and r.chance(1, 2):
                body += "<t:ge>g</t:ge>"
            if k != 2 and self.user:
                pa, pb = "", ""
                for j, u in enumerate(self.user):
                    ok, bad = self.st[u]
                    vals = [r.choice(ok)] if valid else ([r.choice(bad)] if bad and r.chance(2, 3) else [r.choice(ok)])
                    if k == 5:
                        vals = ok + bad           # every listed value of every named type
                    pb += "".join("<t:p%d>%s</t:p%d>" % (j, v, j) for v in vals)
                    if self.probe_attrs and r.chance(1, 2) and '"' not in vals[0]:
                        pa += ' q%d="%s"' % (j, vals[0])
                if self.import_u and self.second:
                    uok, ubad = self.second["types"][0][1], self.second["types"][0][2]
                    pb += "".join("<t:imp>%s</t:imp>" % v for v in ([r.choice(uok)] if valid or not ubad else [r.choice(ubad)]))
                body += "<t:pr%s>%s</t:pr>" % (pa, pb)
            keys = [r.below(4 if not valid else 50) for _ in range(r.below(4))]
            if valid:
                keys = sorted(set(keys))
            for kk in keys:
                body += '<t:item k="%d"%s/>' % (kk, (' r="%d"' % (r.choice(keys) if valid or r.chance(1, 2) else 77)) if r.chance(1, 2) else "")
            if not valid and r.chance(1, 4):
                body += "<t:unknown/>"
            out.append('<t:root xmlns:t="urn:t" xmlns:xsi="http://www.w3.org/2001/XMLSchema-instance"%s>%s</t:root>' % (
                ' ver="2.5"' if r.chance(1, 3) else "", body))
        if self.globals_:
            g = self.globals_[-1]
            out.append('<t:%s xmlns:t="urn:t">%s</t:%s>' % (g, self.value(self.gtype[g], True), g))
        if self.second:
            out += self.second["instances"]
        return out
    def gen_second(self):
        """a second schema grammar for the same pool, target namespace urn:u: named simple types with the SAME local names
        as types of the first schema (and as built-ins) but other definitions, anonymous types (both grammars then own
        __AnonS1, __AnonS2 ...), its own root element"""
        r = self.r
        locals_ = [u.split(":")[1] for u in self.primary]
        r2 = [n for n in locals_]
        names = []
        for n in r2[:2]:
            names.append(n)
        if self.collide and "token" not in names:
            names.append("token")
        names.append("ucode")
        types, decl = [], []
        off = 1 + r.below(len(self.POOL) - 1)
        for k, n in enumerate(names):
            txt, ok, bad, kind, _ = self.POOL[(off + 3 * k) % len(self.POOL)]
            decl.append(txt % n)
            types.append((n, ok, bad))
        body = ""
        for k, (n, ok, bad) in enumerate(types):
            body += '<xs:element name="c%d" type="u:%s" minOccurs="0" maxOccurs="unbounded"/>' % (k, n)
        body += '<xs:element name="an" minOccurs="0" maxOccurs="unbounded"><xs:simpleType><xs:restriction base="u:%s"><xs:enumeration value="%s"/></xs:restriction></xs:simpleType></xs:element>' % (types[0][0], types[0][1][0])
        body += '<xs:element name="an2" minOccurs="0"><xs:simpleType><xs:restriction base="xs:string"><xs:maxLength value="1"/></xs:restriction></xs:simpleType></xs:element>'
        text = ('<xs:schema xmlns:xs="%s" targetNamespace="urn:u" xmlns:u="urn:u" elementFormDefault="qualified">\n%s\n'
                '<xs:element name="uroot"><xs:complexType><xs:sequence>%s</xs:sequence><xs:attribute name="ua" type="u:%s"/></xs:complexType></xs:element>\n</xs:schema>') % (
                XS, "\n".join(decl), body, types[-1][0])
        insts = []
        for valid in (True, False):
            b = ""
            for k, (n, ok, bad) in enumerate(types):
                vals = ok if valid else ok[:1] + bad
                b += "".join("<u:c%d>%s</u:c%d>" % (k, v, k) for v in vals)
            b += "<u:an>%s</u:an>" % (types[0][1][0] if valid else (types[0][1][-1] if len(types[0][1]) > 1 else "zz"))
            b += "<u:an2>%s</u:an2>" % ("a" if valid else "ab")
            insts.append('<u:uroot xmlns:u="urn:u">%s</u:uroot>' % b)
        return {"text": text, "types": types, "instances": insts}

def gen_pool_cases(ctx, n_dtd, n_xsd, rng=None):
    r = rng or ctx.rng
    cases = []
    for _ in range(n_dtd):
        g = DtdGen(r)
        text = g.gen()
        cases.append(("D", text, g.instances(text)))
    for _ in range(n_xsd):
        g = XsdGen(r)
        text = g.gen()
        insts = g.instances(text)
        if g.second:      # the imported grammar (if any) is loaded first so that the import finds it in the pool
            text = [g.second["text"], text] if g.import_u else [text, g.second["text"]]
        cases.append(("St" if g.psvi_safe else "S", text, insts))
    return cases

def pool_line(kind, text, insts, flags="-"):
    if len(kind) > 1:       # "St": schema whose instances may be validated with DOM type info
        flags = flags.replace("-", "") + kind[1:]
        kind = kind[0]
    texts = text if isinstance(text, list) else [text]
    return "P %s %s %s" % (flags, " ".join("g:%s:%s" % (kind, hexs(x)) for x in texts), " ".join("i:" + hexs(i) for i in insts))

def san_filter(err):
    """sanitizer reports that concern this property (serialisation code or any ASan error)"""
    hits = []
    for l in err.split("\n"):
        if "ERROR: AddressSanitizer" in l or ("runtime error:" in l and not any(s in l for s in IGNORED_SAN)):
            hits.append(l.strip()[:300])
    return hits

def crash_summary(err):
    for l in err.split("\n"):
        if "SUMMARY: AddressSanitizer" in l or "ERROR: AddressSanitizer" in l:
            return l.strip()[:300]
    return common.sanitizer_summary(err)

def judge_pool_all(res):
    """every (key, what) problem of one P result line"""
    if res.startswith(("ORIGINAL-CRASH", "SKIPPED")):
        return []
    if res.startswith(("CRASH", "NO-OUTPUT")):
        return [("ser-pool-crash", "harness died during the pool round trip: " + res[:200])]
    f = dict(t.split("=", 1) for t in res.split(" | ")[0].split() if "=" in t)
    if f.get("ser1", "").startswith("XSerializationException:XSer_GrammarPool_Empty"):
        return []
    out = []
    for step in ("ser1", "de1", "ser2", "de2", "ser3"):
        if step in f and not f[step].startswith("ok"):
            out.append(("ser-pool-" + ("deserialize" if step.startswith("de") else "serialize") + "-fails",
                        "%s of the round trip failed with %s" % (step, f[step])))
            break
    if "lvl" in f and f["lvl"] != "rejected":
        lv = f["lvl"]
        if "XMLException:" in lv and "XSerializationException" not in lv:
            out.append(("ser-level-mismatch-wrong-exception", "corrupted serialisation level not rejected with XSerializationException: " + lv))
        else:
            out.append(("ser-level-mismatch-not-rejected", "corrupted serialisation level: " + lv))
    if "de2" not in f:
        if not out:
            out.append(("ser-pool-incomplete", "round trip did not complete: " + res[:200]))
        return out
    d = f.get("dump", "").split(":")[0].split(",")
    upa = "V54e" in f.get("gram", "")      # schema rejected as non-deterministic (Unique Particle Attribution): which particle
                                           # an element is attributed to is not defined, verdicts are not compared
    if len(set(d)) != 1:
        out.append(("ser-pool-components-differ", "grammar / XSModel component dump differs between original and restored pool (%s)" % ",".join(d)))
    for k, seg in enumerate(res.split(" || ")[0].split(" | ")[1:]):
        obs = seg.split()
        if len(obs) >= 3 and len(set(obs[:3])) != 1 and not upa:
            a, b, c = (o.split("#") for o in obs[:3])
            what = "verdict/error codes" if (a[0] != b[0] or a[0] != c[0]) else ("DOM (defaulted attributes, type names, content)" if a[1] != b[1] or a[1] != c[1] else "external entities requested")
            key = {"v": "ser-pool-verdict-differs", "D": "ser-pool-dom-differs", "e": "ser-pool-entities-differ"}[what[0]]
            out.append((key, "instance %d: %s differ between original and restored pool: A=%s B=%s C=%s" % (k, what, obs[0][:80], obs[1][:80], obs[2][:80])))
            break
    return out

def judge_pool(res):
    r = judge_pool_all(res)
    return r[0] if r else None

def run_pool_cases(ctx, cases, flags="-", chunk=40):
    """runs P lines in batches; a crash costs one line: it is re-run alone, and once more against the original pool only
    (a crash there is not a serialisation issue); the batch continues after it.  Bounded number of triages."""
    results, errs = [], []
    lines = [pool_line(k, t, i, flags) for k, t, i in cases]
    k = 0
    while k < len(lines):
        part = lines[k:k + chunk]
        p = harness_guarded(("\n".join(part) + "\n").encode(), 420)
        out = [o for o in p.stdout.decode(errors="replace").split("\n") if o != ""]
        if len(out) >= len(part):
            errs.append(p.stderr.decode(errors="replace"))
            results += out[:len(part)]
            k += len(part)
            continue
        results += out
        l = part[len(out)]
        k += len(out) + 1
        summ = crash_summary(p.stderr.decode(errors="replace"))
        if ctx.stats.get("pool_crash_triages", 0) >= 6:
            results.append("CRASH (not triaged) " + summ)
            ctx.stats["pool_crashes_untriaged"] = ctx.stats.get("pool_crashes_untriaged", 0) + 1
            if ctx.stats["pool_crashes_untriaged"] >= 20:     # wholesale breakage: enough evidence, stop spending time
                results += ["SKIPPED after repeated crashes"] * (len(lines) - k)
                break
            continue
        ctx.stats["pool_crash_triages"] = ctx.stats.get("pool_crash_triages", 0) + 1
        fl = l.split()[1]
        q2 = harness_guarded((l.replace("P " + fl, "P " + fl.replace("-", "") + "a", 1) + "\n").encode(), 240)
        o2 = [x for x in q2.stdout.decode(errors="replace").split("\n") if x]
        if o2:
            errs.append(p.stderr.decode(errors="replace"))
            results.append("CRASH rc=%d %s" % (p.returncode, summ))
        else:
            ctx.notes.append("instance validation crashes on the ORIGINAL pool as well (not a serialisation issue, skipped): " + summ)
            results.append("ORIGINAL-CRASH " + summ)
    return lines, results, "\n".join(errs)

def pool_round(ctx, cases, origin, flags="-"):
    lines, results, err = run_pool_cases(ctx, cases, flags)
    hist = ctx.stats.setdefault("pool_outcomes", {})
    found = {}
    for (kind, text, insts), line, res in zip(cases, lines, results):
        js = judge_pool_all(res)
        gram = re.search(r"gram=(\S+)", res)
        hist["grammar-clean" if gram and gram.group(1) == "clean" else "grammar-with-errors"] = hist.get("grammar-clean" if gram and gram.group(1) == "clean" else "grammar-with-errors", 0) + 1
        for seg in res.split(" || ")[0].split(" | ")[1:]:
            v = "valid" if seg.startswith("valid") else "invalid"
            hist["instance-" + v] = hist.get("instance-" + v, 0) + 1
        m2 = re.search(r"ser1=ok:\d+:(\w+).*ser2=ok:\d+:(\w+)", res)
        if m2:
            hist["stream2==stream1" if m2.group(1) == m2.group(2) else "stream2!=stream1 (hash-table order)"] = hist.get("stream2==stream1" if m2.group(1) == m2.group(2) else "stream2!=stream1 (hash-table order)", 0) + 1
        for key, what in js:
            if key not in found or len("".join(text)) < len("".join(found[key][1])):
                found[key] = (what, text, insts, kind, line)
    for key, (what, text, insts, kind, line) in found.items():
        ctx.violations.append({"key": key, "concrete": True,
                               "what": "pool round trip (%s grammar, %s): %s" % ("DTD" if kind == "D" else "XSD", origin, what),
                               "replay": {"op": "P", "flags": flags, "kind": kind, "grammar": text, "instances": insts}})
    for h in san_filter(err):
        ctx.violations.append({"key": "ser-sanitizer", "concrete": True,
                               "what": "sanitizer report during pool round trip: " + h, "replay": {"stderr": h, "origin": origin}})
        break
    return len(found)

# ------------------------------------------------------------------------------------------------ directed defects
def directed_locked_pool(ctx):
    """a pool that is locked when serialised: deserialisation reads fLocked=true and must still work"""
    dtd = "<!ELEMENT a (b*)><!ELEMENT b (#PCDATA)><!ATTLIST a x CDATA \"d\">"
    inst = ['<!DOCTYPE a SYSTEM "file:///hx/g0.dtd"><a><b>t</b></a>']
    lines, results, err = run_pool_cases(ctx, [("D", dtd, inst)], flags="l", chunk=1)
    res = results[0]
    ctx.stats["locked_pool_case"] = res[:160]
    js = [x for x in judge_pool_all(res) if not x[0].startswith("ser-level")]
    j = js[0] if js else None
    if j or san_filter(err):
        what = j[1] if j else san_filter(err)[0]
        ctx.violations.append({"key": "ser-locked-pool-deserialize-crash", "concrete": True,
            "what": "a grammar pool serialised while locked cannot be deserialised (deserializeGrammars sets fLocked before the "
                    "synchronized string pool exists; createXSModel dereferences it): " + what[:300],
            "replay": {"op": "P", "flags": "l", "kind": "D", "grammar": dtd, "instances": inst}})

def directed_builtin_named_types(ctx):
    """user simple types named like XSD built-ins, in every position a type can be referenced from, plus the same local
    names in a second namespace and a control; fixed, so the probe does not depend on the random stream"""
    t1 = ('<xs:schema xmlns:xs="%s" targetNamespace="urn:t" xmlns:t="urn:t" xmlns:u="urn:u" elementFormDefault="qualified">'
          '<xs:import namespace="urn:u" schemaLocation="file:///hx/g0.xsd"/>'
          '<xs:simpleType name="token"><xs:restriction base="xs:token"><xs:enumeration value="on"/><xs:enumeration value="off"/></xs:restriction></xs:simpleType>'
          '<xs:simpleType name="decimal"><xs:restriction base="xs:decimal"><xs:minInclusive value="0"/><xs:maxInclusive value="100"/><xs:fractionDigits value="1"/></xs:restriction></xs:simpleType>'
          '<xs:simpleType name="date"><xs:restriction base="xs:date"><xs:minInclusive value="2000-01-01"/></xs:restriction></xs:simpleType>'
          '<xs:simpleType name="colour"><xs:restriction base="xs:string"><xs:enumeration value="red"/></xs:restriction></xs:simpleType>'
          '<xs:simpleType name="NMTOKENS"><xs:list itemType="t:token"/></xs:simpleType>'
          '<xs:simpleType name="string"><xs:union memberTypes="t:decimal t:token"/></xs:simpleType>'
          '<xs:simpleType name="integer"><xs:restriction base="t:decimal"><xs:maxInclusive value="10"/></xs:restriction></xs:simpleType>'
          '<xs:complexType name="sc"><xs:simpleContent><xs:extension base="t:date"><xs:attribute name="a" type="t:token"/></xs:extension></xs:simpleContent></xs:complexType>'
          '<xs:element name="r"><xs:complexType><xs:sequence>'
          '<xs:element name="tok" type="t:token" minOccurs="0" maxOccurs="unbounded"/><xs:element name="dec" type="t:decimal" minOccurs="0" maxOccurs="unbounded"/>'
          '<xs:element name="dat" type="t:sc" minOccurs="0" maxOccurs="unbounded"/><xs:element name="lst" type="t:NMTOKENS" minOccurs="0" maxOccurs="unbounded"/>'
          '<xs:element name="uni" type="t:string" minOccurs="0" maxOccurs="unbounded"/><xs:element name="int" type="t:integer" minOccurs="0" maxOccurs="unbounded"/>'
          '<xs:element name="col" type="t:colour" minOccurs="0" maxOccurs="unbounded"/><xs:element name="utk" type="u:token" minOccurs="0" maxOccurs="unbounded"/>'
          '<xs:element name="ano" minOccurs="0" maxOccurs="unbounded"><xs:simpleType><xs:restriction base="t:token"><xs:enumeration value="on"/></xs:restriction></xs:simpleType></xs:element>'
          '</xs:sequence><xs:attribute name="d" type="t:decimal"/></xs:complexType></xs:element></xs:schema>') % XS
    t0 = ('<xs:schema xmlns:xs="%s" targetNamespace="urn:u" xmlns:u="urn:u" elementFormDefault="qualified">'
          '<xs:simpleType name="token"><xs:restriction base="xs:int"><xs:maxInclusive value="5"/></xs:restriction></xs:simpleType>'
          '<xs:element name="ur"><xs:complexType><xs:sequence><xs:element name="k" type="u:token" maxOccurs="unbounded"/>'
          '<xs:element name="ano" minOccurs="0"><xs:simpleType><xs:restriction base="xs:string"><xs:length value="1"/></xs:restriction></xs:simpleType></xs:element>'
          '</xs:sequence></xs:complexType></xs:element></xs:schema>') % XS
    def doc(body, att=""):
        return '<t:r xmlns:t="urn:t"%s>%s</t:r>' % (att, body)
    insts = [doc("<t:tok>on</t:tok><t:dec>99.5</t:dec><t:dat a='off'>2001-01-01</t:dat><t:lst>on off on</t:lst><t:uni>7.5</t:uni><t:uni>off</t:uni><t:int>10</t:int><t:col>red</t:col><t:utk>5</t:utk><t:ano>on</t:ano>", ' d="1.5"'),
             doc("<t:tok>maybe</t:tok>"), doc("<t:dec>100.5</t:dec>"), doc("<t:dec>1.25</t:dec>"), doc("<t:dat>1999-12-31</t:dat>"),
             doc("<t:dat a='x'>2001-01-01</t:dat>"), doc("<t:lst>on perhaps</t:lst>"), doc("<t:uni>nothing</t:uni>"), doc("<t:int>11</t:int>"),
             doc("<t:col>blue</t:col>"), doc("<t:utk>on</t:utk>"), doc("<t:utk>6</t:utk>"), doc("<t:ano>off</t:ano>"), doc("", ' d="200"'),
             '<u:ur xmlns:u="urn:u"><u:k>5</u:k><u:k>6</u:k><u:k>on</u:k><u:ano>ab</u:ano></u:ur>']
    before = len(ctx.violations)
    pool_round(ctx, [("S", [t0, t1], insts)], "user types named like built-ins (directed)")
    ctx.stats["builtin_named_types_case"] = "clean" if len(ctx.violations) == before else ctx.violations[-1]["what"][:160]

def directed_chunk_boundary_pool(ctx):
    """grammar-level witness of the read() chunk defect: an attribute default whose UTF-16 data ends exactly at a block
    boundary after at least one full block"""
    marker = "QZMARKQZ"
    def dtd(n):
        return '<!ELEMENT a EMPTY><!ATTLIST a x CDATA "%s%s">' % (marker, "v" * (n - len(marker)))
    def offsets(n):
        p = common.run_harness("hx_ser", input=("O g:D:%s m:%s\n" % (hexs(dtd(n)), hexs(marker))).encode())
        f = p.stdout.decode().split()
        return [int(x) for x in f[2:]] if f and f[0] == "ok" else []
    offs = offsets(64)
    if not offs:
        ctx.notes.append("chunk-boundary witness: marker not found in the stream")
        return
    hit = None
    for o in offs:
        n = (2 * 8192 - o % 8192) // 2
        o2 = offsets(n)
        for q in o2:
            if (q + 2 * n) % 8192 == 0 and 2 * n > 8192 - q % 8192:
                hit = n
        if hit:
            break
    if not hit:
        ctx.notes.append("chunk-boundary witness: could not align (offsets %r)" % offs)
        return
    inst = ['<!DOCTYPE a SYSTEM "file:///hx/g0.dtd"><a/>']
    lines, results, err = run_pool_cases(ctx, [("D", dtd(hit), inst)], chunk=1)
    ctx.stats["chunk_boundary_pool_case"] = "default value of %d chars: %s" % (hit, results[0][:120])
    js = [x for x in judge_pool_all(results[0]) if not x[0].startswith("ser-level")]
    j = js[0] if js else None
    if j:
        ctx.violations.append({"key": "ser-read-chunk-stale-cursor:pool", "concrete": True,
            "what": "DTD with an attribute default of %d characters (its data ends exactly at a buffer-block boundary): %s" % (hit, j[1][:300]),
            "replay": {"op": "P", "flags": "-", "kind": "D", "grammar": dtd(hit), "instances": inst}})

# ------------------------------------------------------------------------------------------------ correspondence
import subprocess

class _TO:
    """result of a harness invocation that exceeded its time budget"""
    def __init__(self, e):
        self.stdout = e.stdout or b""
        self.stderr = (e.stderr or b"") + b"\nSUMMARY: harness timeout (hang or runaway loop)"
        self.returncode = -9

def harness_guarded(data, timeout):
    try:
        return common.run_harness("hx_ser", input=data, timeout=timeout)
    except subprocess.TimeoutExpired as e:
        return _TO(e)

def run_harness_lines(lines, chunk=400):
    """harness with crash isolation: a crash loses one line only"""
    out, errs = [], []
    k = 0
    crashes = 0
    while k < len(lines):
        part = lines[k:k + chunk]
        p = harness_guarded(("\n".join(part) + "\n").encode(), 420)
        o = [x for x in p.stdout.decode(errors="replace").split("\n") if x != ""]
        e = p.stderr.decode(errors="replace")
        if len(o) >= len(part):
            out += o[:len(part)]; errs.append(e); k += len(part)
            continue
        out += o
        out.append("CRASH rc=%d %s" % (p.returncode, crash_summary(e)))
        k += len(o) + 1
        crashes += 1
        if crashes >= 12:      # a change that breaks the engine wholesale is reported after a dozen crashes
            out += ["SKIPPED after repeated crashes"] * (len(lines) - k)
            break
    return out, "\n".join(errs)

def run_engine_pair(ctx, lines):
    """model driver (repaired read loop) + real engine.  Cases on which the unrepaired read loop (getRawAsIs) behaves
    differently from the repaired one would make the real, unrepaired engine read garbage lengths and die; a few of them are
    run in isolated processes (enough to report the defect), the rest only once those few agree with the repaired model."""
    def drv(ls):
        o = common.run_driver(["ser"], input=("\n".join(ls) + "\n").encode()).decode(errors="replace").split("\n")
        if o and o[-1] == "":
            o.pop()
        if len(o) != len(ls):
            raise common.InfraError("driver ser produced %d lines for %d cases" % (len(o), len(ls)))
        return o
    m = drv(lines)
    asis = drv([re.sub(r"^E (\d+) 0 ", r"E \1 1 ", l) for l in lines])
    hot = [k for k in range(len(lines)) if lines[k].startswith("E ") and asis[k] != m[k]]
    cold = [k for k in range(len(lines)) if k not in set(hot)]
    impl = [None] * len(lines)
    o, err = run_harness_lines([lines[k] for k in cold])
    for k, x in zip(cold, o):
        impl[k] = x
    probe = hot[:6]
    agree = True
    for k in probe:
        o1, e1 = run_harness_lines([lines[k]], chunk=1)
        impl[k] = o1[0]
        agree = agree and o1[0] == m[k]
    rest = hot[len(probe):]
    if agree and rest:
        o2, e2 = run_harness_lines([lines[k] for k in rest])
        err += e2
        for k, x in zip(rest, o2):
            impl[k] = x
        rest = []
    ctx.stats["engine_cases_on_chunk_boundary"] = len(hot)
    ctx.stats["engine_cases_skipped_after_defect_shown"] = len(rest)
    keep = [k for k in range(len(lines)) if impl[k] is not None and not impl[k].startswith("SKIPPED")]
    return [lines[k] for k in keep], [m[k] for k in keep], [impl[k] for k in keep], err

def engine_correspondence(ctx, lines):
    lines, m, i, err = run_engine_pair(ctx, lines)
    d = common.diff_pairs(lines, m, i)
    ctx.stats["engine_disagreements"] = len(d)
    kinds = {}
    for l, o in zip(lines, i):
        k = l[0] + ":" + ("exc" if " exc " in o or o.startswith(("exc", "store-exc")) else o.split()[0])
        kinds[k] = kinds.get(k, 0) + 1
    ctx.stats["engine_outcomes"] = kinds
    for h in san_filter(err):
        ctx.violations.append({"key": "ser-sanitizer", "concrete": True, "what": "sanitizer report in engine harness: " + h,
                               "replay": {"stderr": h}})
        break
    if not d:
        return lines, m, i
    # judge by the property: read-back must equal what was written
    concrete = {}
    drift = None
    asis_lines = [re.sub(r"^E (\d+) 0 ", r"E \1 1 ", l) for _, l, _, _ in d if l.startswith("E ")]
    asis = {}
    if asis_lines:
        out = common.run_driver(["ser"], input=("\n".join(asis_lines) + "\n").encode()).decode().split("\n")
        asis = dict(zip(asis_lines, out))
    for k, l, mo, io in d:
        w = judge_engine(l, io)
        if w:
            al = re.sub(r"^E (\d+) 0 ", r"E \1 1 ", l)
            key = "ser-read-chunk-stale-cursor" if asis.get(al) == io else "ser-engine-roundtrip"
            if key not in concrete or len(l) < len(concrete[key][0]):
                concrete[key] = (l, w, mo, io)
        elif l.startswith("G ") and mo.split(" > ")[-1] != io.split(" > ")[-1]:
            if "ser-graph-roundtrip" not in concrete or len(l) < len(concrete["ser-graph-roundtrip"][0]):
                concrete["ser-graph-roundtrip"] = (l, "restored object graph differs from the stored one (model: %s, impl: %s)" % (mo.split(" > ")[-1][:100], io.split(" > ")[-1][:100]), mo, io)
        elif drift is None:
            drift = (l, mo, io)
    for key, (l, w, mo, io) in concrete.items():
        ctx.violations.append({"key": key, "concrete": True,
                               "what": "XSerializeEngine round trip, case `%s`: %s" % (l[:160], w),
                               "replay": {"op": "line", "line": l, "model": mo[:400], "impl": io[:400]}})
    if drift and not concrete:
        l, mo, io = drift
        ctx.violations.append({"key": "corr:ser", "concrete": False,
            "what": "correspondence ser (model vs XSerializeEngine bytes) no longer checks (%d cases), first: %s model=%s impl=%s" % (len(d), l[:120], mo[:120], io[:120]),
            "replay": {"correspondence": "ser", "case": l, "model": mo, "impl": io}})
    elif drift:
        ctx.notes.append("also: stream bytes differ from the model on %d cases (explained by the concrete violation)" % len(d))
    return lines, m, i

def correspondence(ctx):
    th = ctx.thorough()
    lines = ["K"] + gen_engine_cases(ctx) + gen_graph_cases(ctx)
    lvl = None
    try:
        k = common.run_driver(["ser"], input=b"K\n").decode()
        lvl = int(re.search(r"level=(\d+)", k).group(1))
    except Exception:
        pass
    if lvl is not None:
        lines += ["H %d %d 0" % (s, lvl) for s in (lvl, lvl + 1, lvl - 1, 0, 9999, lvl + 256)]
    lines, m, i = engine_correspondence(ctx, lines)
    ctx.samples += [{"case": lines[k][:300], "model": m[k][:300], "impl": i[k][:300]} for k in (0, 1, 40, len(lines) // 2, len(lines) - 7, len(lines) - 1)]
    n_eng = len(lines)
    # ---- pools
    n = 2500 if th else 150
    # quick: 180 DTD + 120 XSD pools (an XSD pool costs ~8x a DTD pool since the richer type generator)
    cases = gen_pool_cases(ctx, n if th else 180, n if th else 120)
    pool_round(ctx, cases, "generated")
    directed_locked_pool(ctx)
    directed_chunk_boundary_pool(ctx)
    directed_builtin_named_types(ctx)
    ctx.samples.append({"pool-case": {"kind": cases[0][0], "grammar": "".join(cases[0][1])[:400], "instance": cases[0][2][0][:200]}})
    ctx.samples.append({"pool-case": {"kind": cases[-1][0], "grammar": "".join(cases[-1][1])[:600], "instance": cases[-1][2][0][:300]}})
    ctx.stats["evaluations"] = n_eng + len(cases) + 2
    ctx.stats["engine_cases"] = n_eng
    ctx.stats["pools"] = len(cases) + 2
    ctx.stats["pool_instances_validated_x3"] = sum(len(c[2]) for c in cases)
    ctx.stats["distinct_nontrivial"] = len({l for l in lines if len(l.split()) > 4}) + len({"".join(c[1]) for c in cases})
    try:
        import translate_serops
        last = getattr(translate_serops.gen_serialize_ops, "last", None)
        if last:
            ctx.stats["serialize_methods_translated"] = sum(1 for e in last["entries"] if e["kind"] == "class")
            ctx.stats["helper_pairs_translated"] = sum(1 for e in last["entries"] if e["kind"] == "helper")
            ctx.stats["template_pairs_translated"] = sum(1 for e in last["entries"] if e["kind"] == "tmpl")
            ctx.stats["uncovered_methods"] = ["%s: %s" % u for u in last["uncovered"]]
    except Exception as e:      # evidence only
        ctx.notes.append("translator statistics unavailable: %r" % e)

_search_done = {}

def search(ctx, broken):
    """a theorem / translator tie broke (e.g. a field no longer written): look for a grammar whose round trip differs,
    and for an engine sequence whose read-back differs — judged without the model."""
    if "done" in _search_done:
        return None
    _search_done["done"] = True
    before = len(ctx.violations)
    rng = common.SplitMix(ctx.seed * 7919 + 16)
    n = 1500 if ctx.thorough() else 150
    cases = gen_pool_cases(ctx, n, n, rng)
    pool_round(ctx, cases, "search after broken %s %s" % (broken.get("kind"), str(broken.get("name"))[:80]))
    if len(ctx.violations) > before:
        new = ctx.violations[before:]
        del ctx.violations[before:]
        # prefer a violation that is not one of the directed, already-known ones
        return new[0]
    # engine-only search: spec = read-back equals written
    lines = gen_engine_cases(ctx)
    outs, _ = run_harness_lines(lines)
    for l, o in zip(lines, outs):
        if o.startswith("SKIPPED"):
            continue
        w = judge_engine(l, o)
        if w:
            return {"key": "ser-engine-roundtrip", "concrete": True, "what": "XSerializeEngine round trip `%s`: %s" % (l[:160], w),
                    "replay": {"op": "line", "line": l, "impl": o[:400]}}
    return None

def replay(ctx, path):
    r = json.load(open(path))["replay"]
    if r.get("op") == "line":
        line = r["line"]
        m, i, _ = common.run_pair("ser", "hx_ser", [line])
        print("case :", line[:2000]); print("model:", m[0][:2000]); print("impl :", i[0][:2000])
        print("spec :", judge_engine(line, i[0]) or "read-back equals input")
        return 0
    if r.get("op") == "P":
        line = pool_line(r["kind"], r["grammar"], r["instances"], (r.get("flags", "-").replace("-", "") + "v") or "v")
        p = common.run_harness("hx_ser", input=(line + "\n").encode())
        out = p.stdout.decode(errors="replace").strip()
        print("grammar:\n" + ("\n-- second grammar of the pool --\n".join(r["grammar"]) if isinstance(r["grammar"], list) else r["grammar"])[:6000])
        for k, ins in enumerate(r["instances"]):
            print("instance %d: %s" % (k, ins[:600]))
        if not out:
            print("impl : CRASH rc=%d %s" % (p.returncode, common.sanitizer_summary(p.stderr.decode(errors="replace"))))
            return 0
        head = out.split(" | ")[0]
        print("impl :", head[:600])
        for k, seg in enumerate(out.split(" || ")[0].split(" | ")[1:]):
            obs = seg.split()
            tag = "same" if len(set(obs[:3])) == 1 else "DIFFERENT"
            print("instance %d [%s]\n  original : %s\n  restored : %s\n  restored2: %s" % (k, tag, obs[0][:700], obs[1][:700] if len(obs) > 1 else "", obs[2][:700] if len(obs) > 2 else ""))
        dumps = out.split(" || ")[1:]
        if len(dumps) == 3 and len(set(dumps)) != 1:
            a, b = dumps[0].split("\\n"), dumps[1].split("\\n")
            for x in a:
                if x not in b:
                    print("  only in original :", x[:400])
            for x in b:
                if x not in a:
                    print("  only in restored :", x[:400])
        print("spec : " + ("; ".join(w for _, w in judge_pool_all(out.split(" || ")[0])) or "original and restored pools agree"))
        return 0
    print(json.dumps(r)[:3000])
    return 0
