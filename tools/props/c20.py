"""C20 — XInclude processing yields the specified merged tree and detects inclusion loops.

Theorems: XV.Props.C20 over the code-shaped model XV.Model.XInclude (parseDOMNodeDoingXInclude / doDOMNodeXInclude /
doXIncludeXMLFileDOM / doXIncludeTEXTFileDOM, history stack, XIncludeLocation::prependPath, base fix-ups; error codes from
Gen/XIncludeErrs, regenerated from XMLErrorCodes.hpp) and the declarative Spec XV.Spec.XInclude (substitute, edges, Acyclic,
RFC 2396 resolve).

Correspondence: generated file maps (nested directories, relative hrefs incl. `../` and `dir/../` detours, several includes
of one file, includes at every depth incl. the document element, text inclusions with markup characters and non-ASCII in
UTF-8 / UTF-16LE / UTF-16BE / ISO-8859-1, missing targets with and without fallback, nested fallbacks containing includes,
inclusion cycles of length 1..4, invalid usages) are written below .work/ (removed afterwards) and parsed by the REAL
XercesDOMParser and DOMLSParser with XInclude and namespaces on (harness/hx_xi.cpp); the canonical dump of the resulting DOM
(resolved base URI of every element, merged text) and the set of reported XMLErrs codes are compared with the model
(`xvdriver xinclude`).

Judge: the executable Spec.  Acyclic map: the implementation's tree must equal `substitute` when the Spec demands no error,
and the set of error CLASSES (circular / noFallback / invalid, all fatal) must equal the Spec's.  Cyclic map: a
circular-inclusion error must be reported and the run must terminate.  Crash, hang, sanitizer report, foreign error,
XercesDOMParser != DOMLSParser: violation.  A disagreement with the model that the Spec does not judge is looked up in the
as-is model (XV.Model.XIncludeAsIs: the pinned code's bottom-up processing of the root document, its own-xml:base fix-up
formula, its un-normalised history strings): reproduced exactly => the recorded finding of that quirk (if the Spec is
contradicted) or nothing (if it is not); not reproduced => a correspondence break (not concrete)."""
import json, os, re, shutil, subprocess
import common

PID = "C20"
GEN = ["XIncludeErrs"]
LEAN_MODULE = "XV.Props.C20"
THEOREMS = ["XV.Props.C20." + t for t in (
    "resolve_prependPath", "base_fixup_preserves_targets", "process_total", "acyclic_eq_subst", "acyclic_no_circular", "cycle_reported",
    "self_include_reported", "fallback_spec", "invalid_usage_reported")]
RULE = ("file maps: 2-8 XML documents and 0-3 text files over the fixed directory tree {., d1, d2, d1/d1, d1/d3, d2/d1} with "
        "recurring file names; trees of depth <= 3; hrefs are computed relative paths (with `../`, `dir/../` detours, xml:base on "
        "ancestors, on xi:include and on included document elements); ~30% of the maps get an inclusion cycle of length 1..4; "
        "~35% get an invalid usage; fixed witnesses for the recorded findings and for the planned mutations are prepended.  "
        "non-trivial = the map is cyclic, or the model's result contains included content with its own base URI, or an error is "
        "reported; distinct by case line")
ASSUMPTIONS = ["DOM tree surgery (replaceChild/importNode/normalizeDocument) modelled as list substitution; DTD content "
               "(notation/entity clash checks of included documents) not modelled",
               "encodings: the model sees decoded characters; the byte level (UTF-8/UTF-16LE/UTF-16BE/ISO-8859-1, no BOM) is "
               "exercised by the harness only; a BOM in a text target is kept as U+FEFF by the implementation (not generated)",
               "not generated (the property does not constrain them): non-well-formed parse=xml targets (xerces treats them as "
               "resource errors and falls back; XInclude 1.0 calls them fatal), xpointer with parse=xml (unsupported => fatal "
               "XIncludeXPointerNotSupported), characters not allowed in XML inside text targets (not checked by xerces), "
               "accept/accept-language, entity resolvers, absolute xml:base values, an xi:include as document element whose "
               "replacement is not exactly one element",
               "invalid usages are classified by the generator (BadKind); only one fault per xi:include is generated, so the "
               "order of the checks in doDOMNodeXInclude is not exercised"]
TRUSTED = ["XV.Spec.XInclude (substitute, edges, resolve) as transcribed from XInclude 1.0 / RFC 2396 5.2",
           "Python renderer of abstract documents to XML files and to the driver line"]

XINS = "http://www.w3.org/2001/XInclude"
# every map lives three directories below the case directory, so that a wrongly fixed-up base that climbs above the
# map's top directory is still a path both sides can name
TOP = ["w0", "w1", "w2"]
DIRS = [TOP + d for d in ([], ["d1"], ["d2"], ["d1", "d1"], ["d1", "d3"], ["d2", "d1"])]
FNAMES = ["a.xml", "b.xml", "c.xml", "x.xml", "m.xml"]
TNAMES = ["t.txt", "u.txt", "a.txt"]
# UBSan reports abort the harness (and are blamed on the case) except the one site every namespace-aware parse hits
# (memcpy(dst, NULL, 0) in ElemStack::addLevel — C01's business, unrelated to XInclude)
UBSAN_SUPPRESS = "nonnull-attribute:ElemStack.cpp\n"
def harness_env():
    p = os.path.join(common.WORK, "xi_ubsan.supp")
    common.write_if_changed(p, UBSAN_SUPPRESS)
    return {"ASAN_OPTIONS": "detect_leaks=0:symbolize=0:allocator_may_return_null=1",
            "UBSAN_OPTIONS": "print_stacktrace=0:halt_on_error=1:suppressions=" + p}

# ------------------------------------------------------------------ error codes (from the regenerated Gen module)
def load_codes():
    p = os.path.join(common.GEN, "XIncludeErrs.lean")
    names = {}
    try:
        for m in re.finditer(r'\("(XInclude\w+)", (\d+)\)', open(p).read()):
            names[int(m.group(2))] = m.group(1)
    except OSError:
        pass
    return names

def class_of(name):
    if name in ("XIncludeCircularInclusionLoop", "XIncludeCircularInclusionDocIncludesSelf"): return "circular"
    if name == "XIncludeIncludeFailedNoFallback": return "noFallback"
    if name in ("XIncludeOrphanFallback", "XIncludeNoHref", "XIncludeXPointerNotSupported", "XIncludeInvalidParseVal",
                "XIncludeMultipleFallbackElems", "XIncludeDisallowedChild"): return "invalid"
    if name in ("XIncludeResourceErrorWarning", "XIncludeCannotOpenFile", "XIncludeIncludeFailedResourceError"): return None
    return "foreign:" + name

# ------------------------------------------------------------------ RFC 2396 5.2 (generator side only: to aim hrefs)
def normalize(p):
    st = []
    for s in p:
        if s == "..":
            if st: st.pop()
        elif s == ".": pass
        else: st.append(s)
    return st

def fix_ref(r):
    return r + [""] if r and r[-1] in ("..", ".") else r

def resolve(base, r):
    return list(base) if not r else normalize(base[:-1] + fix_ref(r))

def relpath(base, target):
    """a relative reference that resolves to `target` from `base` (both URIs as segment lists)"""
    b = base[:-1]
    k = 0
    while k < len(b) and k < len(target) - 1 and b[k] == target[k]: k += 1
    return [".."] * (len(b) - k) + target[k:]

# ------------------------------------------------------------------ abstract documents
# node := ("E", name, attrs, base, kids) | ("L", kind, target, text) | ("I", href, parse, enc, base, hasFb, fb)
#       | ("B", kind, attrs, base, kids) | ("F", kids)            base: None | "ref"
TEXTS = ["x", "a<b&c]]>d", "tx é", "&amp;", "  ", "]]>", "z€", "<!--no-->"]

class MapGen:
    def __init__(self, r, big=False):
        self.r = r
        self.files = {}      # "d1/a.xml" -> ("X", doc) | ("T", text, encoding)
        self.order = []
        self.feat = set()
        self.ownbase = r.chance(1, 8)     # some maps only: an included document element with its own xml:base

    def uri(self, d, f): return list(d) + [f]

    def pick_docs(self):
        r = self.r
        n = 2 + r.below(7)
        seen = set()
        docs = []
        while len(docs) < n:
            u = self.uri(r.choice(DIRS), r.choice(FNAMES))
            if "/".join(u) in seen: continue
            seen.add("/".join(u)); docs.append(u)
        texts = []
        for _ in range(r.below(4)):
            u = self.uri(r.choice(DIRS), r.choice(TNAMES))
            if "/".join(u) in seen: continue
            seen.add("/".join(u)); texts.append(u)
        return docs, texts

    def href_to(self, base, target):
        r = self.r
        ref = relpath(base, target)
        if r.chance(1, 5):
            # detour through an existing sub-directory of the base directory: dX/../
            b = base[:-1]
            subs = [d for d in DIRS if len(d) == len(b) + 1 and d[:len(b)] == b]
            if subs:
                ref = [subs[r.below(len(subs))][-1], ".."] + ref
                self.feat.add("detour")
        if ".." in ref: self.feat.add("dotdot")
        return "/".join(ref)

    def text(self):
        r = self.r
        return ("L", "t", "", r.choice(TEXTS))

    def leafish(self):
        r = self.r
        k = r.below(10)
        if k < 6: return self.text()
        if k < 8: return ("L", "c", "", r.choice(["c", " a comment ", "x<y"]))
        return ("L", "p", r.choice(["pi", "go"]), r.choice(["", "d", "a b"]))

    def gen_include(self, base, tgts, depth, allow_bad=True):
        """an include-ish node written in a context whose base URI is `base`"""
        r = self.r
        docs, texts, missing_ok = tgts
        ib = None
        ibase = base
        if r.chance(1, 7):
            # xml:base on the xi:include itself (a directory)
            d = r.choice(DIRS)
            ib = "/".join(relpath(base, d + [""]))
            if ib == "": ib = "./"
            ibase = resolve(base, ib.split("/"))
            self.feat.add("include-xmlbase")
        k = r.below(100)
        hasfb = r.chance(2, 5)
        fb = []
        if hasfb:
            fbase = ibase
            for _ in range(r.below(3)):
                fb.append(self.gen_node(fbase, tgts, depth + 1))
            self.feat.add("fallback")
        if k < 50 and docs:
            t = r.choice(docs)
            return ("I", self.href_to(ibase, t), r.choice("ddx"), None, ib, hasfb, fb)
        if k < 68 and texts:
            t, enc = r.choice(texts)
            e = enc if enc != "UTF-8" or r.chance(1, 3) else None
            if r.chance(1, 12): e = "bogus-enc"; self.feat.add("bad-encoding")
            self.feat.add("text:" + enc)
            return ("I", self.href_to(ibase, t), "t", e, ib, hasfb, fb)
        if k < 72 and docs:
            t = r.choice(docs)
            self.feat.add("xml-as-text")
            return ("I", self.href_to(ibase, t), "t", None, ib, hasfb, fb)
        if k < 88 or not allow_bad:
            self.feat.add("missing" + ("+fb" if hasfb else ""))
            nm = r.choice(["nope.xml", "gone.xml"])
            return ("I", self.href_to(ibase, self.uri(r.choice(DIRS), nm)), r.choice("dxt"), None, ib, hasfb, fb)
        # invalid usage
        j = r.below(6)
        self.feat.add("invalid")
        href = self.href_to(ibase, r.choice(docs)) if docs else "nope.xml"
        if j == 0: return ("B", "h", [], ib, [])
        if j == 1:
            th = self.href_to(ibase, texts[0][0]) if texts else "t.txt"
            return ("B", "x", [("href", th), ("parse", "text"), ("xpointer", "xpointer(/a)")], ib, [])
        if j == 2: return ("B", "p", [("href", href), ("parse", r.choice(["html", "XML", "Text", ""]))], ib, [])
        if j == 3:
            return ("B", "m", [("href", r.choice([href, "nope.xml"]))], ib,
                    [("F", [self.gen_node(ibase, tgts, depth + 1)]), ("F", [self.text()])])
        if j == 4:
            inner = self.gen_include(ibase, tgts, depth + 1, allow_bad=False)
            return ("B", "c", [("href", href)], ib, [inner] + ([("F", [self.text()])] if r.chance(1, 2) else []))
        return ("F", [self.gen_node(base, tgts, depth + 1) for _ in range(1 + r.below(2))])

    def gen_node(self, base, tgts, depth):
        r = self.r
        k = r.below(100)
        if depth >= 3 or k < 30: return self.leafish()
        if k < 62: return self.gen_include(base, tgts, depth)
        return self.gen_elem(base, tgts, depth)

    def gen_elem(self, base, tgts, depth, name=None):
        r = self.r
        b = None
        ebase = base
        if r.chance(1, 8):
            d = r.choice(DIRS)
            tail = r.choice(["", "", "zz.xml"])
            b = "/".join(relpath(base, d + [tail]))
            if b == "": b = "./"
            ebase = resolve(base, b.split("/"))
            self.feat.add("elem-xmlbase")
        attrs = []
        if r.chance(1, 3): attrs.append(("src", r.choice(["pic.png", "../i/p.png", "a&b"])))
        if r.chance(1, 4): attrs.append(("id", "i%d" % r.below(9)))
        kids = [self.gen_node(ebase, tgts, depth + 1) for _ in range(r.below(4))]
        return ("E", name or r.choice(["p", "q", "s", "div"]), attrs, b, kids)

    def build(self):
        r = self.r
        docs, texts = self.pick_docs()
        tfiles = []
        for u in texts:
            enc = r.choice(["UTF-8", "UTF-8", "UTF-16LE", "UTF-16BE", "ISO-8859-1"])
            pool = ["a<b&c]]>d", "plain", "<x/>&amp;", "l1\nl2", "café ÿ"]
            if enc != "ISO-8859-1": pool += ["€é", "s\U0001F600e", "中"]
            s = "".join(r.choice(pool) for _ in range(r.below(4)))
            tfiles.append((u, enc))
            self.files["/".join(u)] = ("T", s, enc)
        cyc = r.chance(3, 10)
        cyc_len = 1 + r.below(4) if cyc else 0
        n = len(docs)
        chain = []
        if cyc:
            cyc_len = min(cyc_len, n)
            start = 0 if r.chance(1, 2) else r.below(n)
            chain = [(start + i) % n for i in range(cyc_len)]
            self.feat.add("cycle%d" % cyc_len)
        for i, u in enumerate(docs):
            later = docs[i + 1:]            # DAG: only later documents are aimed at
            tgts = (later, tfiles, True)
            top = []
            for _ in range(r.below(2)): top.append(self.leafish_top())
            if r.chance(1, 9) and later:
                # the document element is an xi:include (of an existing document: anything else cannot be a document)
                de = ("I", self.href_to(u, r.choice(later)), r.choice("dx"), None, None, False, [])
                self.feat.add("include-as-docelem")
            else:
                de = self.gen_elem(u, tgts, 0, name="r%d" % i)
                if i > 0 and self.ownbase and r.chance(1, 3) and de[3] is None:
                    # an included document element with an xml:base of its own
                    d = r.choice(DIRS)
                    b = "/".join(relpath(u, d + [""])) or "./"
                    de = self.rebase_elem(de, u, b, tgts)
                    self.feat.add("docelem-own-xmlbase")
            if i in chain:
                nxt = docs[chain[(chain.index(i) + 1) % len(chain)]]
                de = self.plant(de, u, nxt)
            top.append(de)
            for _ in range(r.below(2)): top.append(self.leafish_top())
            self.files["/".join(u)] = ("X", top)
        # root must reach the chain start
        if cyc and chain[0] != 0:
            rootdoc = self.files["/".join(docs[0])][1]
            k = [j for j, nd in enumerate(rootdoc) if nd[0] in ("E", "I")][0]
            rootdoc[k] = self.plant(rootdoc[k], docs[0], docs[chain[0]])
        self.order = ["/".join(u) for u in docs] + ["/".join(u) for u in texts]
        return "/".join(docs[0])

    def rebase_elem(self, de, u, b, tgts):
        # regenerate the children for the new base so that hrefs still aim at their targets
        ebase = resolve(u, b.split("/"))
        kids = [self.gen_node(ebase, tgts, 1) for _ in range(1 + self.r.below(3))]
        return ("E", de[1], de[2], b, kids)

    def leafish_top(self):
        r = self.r
        if r.chance(1, 2): return ("L", "c", "", r.choice(["top", "prolog"]))
        return ("L", "p", "tp", r.choice(["", "v"]))

    def plant(self, de, u, target):
        """add an include of `target` (a document of the cycle chain) to the document element `de` of document `u`"""
        r = self.r
        if de[0] != "E":
            return de if de[0] != "I" else ("I", self.href_to(resolve(u, de[4].split("/")) if de[4] else u, target), "d", None, de[4], de[5], de[6])
        ebase = resolve(u, de[3].split("/")) if de[3] else u
        k = r.below(4)
        inc = ("I", self.href_to(ebase, target), r.choice("dx"), None, None, False, [])
        if k == 1:   # the looping include has a fallback (used after the loop is reported)
            inc = inc[:5] + (True, [self.text()])
        elif k == 2: # inside the live fallback of a failing include
            inc = ("I", "nope.xml", "d", None, None, True, [self.text(), inc])
        elif k == 3: # one element deeper
            inc = ("E", "w", [], None, [inc])
        kids = list(de[4])
        kids.insert(r.below(len(kids) + 1), inc)
        return ("E", de[1], de[2], de[3], kids)

# ------------------------------------------------------------------ fixed witnesses
def witness_maps():
    ws = []
    big = "x" * 16383 + "é" + "y" * 20000
    ws.append(("w-text-16k", {"a.xml": ("X", [("E", "r", [], None, [("I", "big.txt", "t", None, None, False, [])])]),
                              "big.txt": ("T", big, "UTF-8")}, "a.xml", ["a.xml", "big.txt"]))
    ws.append(("w-own-base", {"a.xml": ("X", [("E", "r", [], None, [("I", "d1/b.xml", "d", None, None, False, [])])]),
                              "d1/b.xml": ("X", [("E", "ob", [], "d3/", [("E", "i", [("src", "x")], None, [])])])}, "a.xml", ["a.xml", "d1/b.xml"]))
    ws.append(("w-unused-fallback", {"a.xml": ("X", [("E", "u", [], None, [("I", "ok.xml", "d", None, None, True, [("I", "nope.xml", "d", None, None, False, [])])])]),
                                     "ok.xml": ("X", [("E", "ok", [], None, [])])}, "a.xml", ["a.xml", "ok.xml"]))
    ws.append(("w-include-in-include", {"a.xml": ("X", [("E", "u", [], None, [("B", "c", [("href", "ok.xml")], None, [("I", "ok.xml", "d", None, None, False, [])])])]),
                                        "ok.xml": ("X", [("E", "ok", [], None, [])])}, "a.xml", ["a.xml", "ok.xml"]))
    ws.append(("w-cycle-dotdot", {"a.xml": ("X", [("E", "a", [], None, [("I", "d1/b.xml", "d", None, None, False, [])])]),
                                  "d1/b.xml": ("X", [("E", "b", [], None, [("I", "../a.xml", "d", None, None, False, [])])])}, "a.xml", ["a.xml", "d1/b.xml"]))
    # a failing include with an empty fallback is the first child and is followed by text: fCurrentNode becomes NULL
    ws.append(("w-empty-fallback-first-child", {"a.xml": ("X", [("E", "r", [], None, [("I", "gone.xml", "d", None, None, True, []), ("L", "t", "", "text")])])},
               "a.xml", ["a.xml"]))
    # d2/x.xml is nothing but an include of itself; reached as d2/d1/../x.xml the loop goes unnoticed and d2/d1/x.xml is used
    ws.append(("w-loop-undetected", {"d2/d1/c.xml": ("X", [("E", "r0", [], None, [("I", "../x.xml", "d", None, None, False, [])])]),
                                     "d2/x.xml": ("X", [("I", "x.xml", "d", None, None, False, [])]),
                                     "d2/d1/x.xml": ("X", [("E", "r3", [], None, [])])}, "d2/d1/c.xml", ["d2/d1/c.xml", "d2/x.xml", "d2/d1/x.xml"]))
    # failing include with xml:base and a fallback with several element children (each needs the base fix-up)
    ws.append(("w-fallback-fixup", {"a.xml": ("X", [("E", "a", [], None, [("I", "nope.xml", "d", None, "d1/", True,
                                        [("E", "p", [("src", "x.png")], None, []), ("L", "t", "", "mid"), ("E", "q", [], "d3/", [("I", "../../b.xml", "d", None, None, False, [])]),
                                         ("I", "../b.xml", "x", None, None, False, [])])])]),
                                    "b.xml": ("X", [("L", "c", "", "pre"), ("E", "b", [], None, [("E", "i", [("src", "y.png")], None, [])])])}, "a.xml", ["a.xml", "b.xml"]))
    ws.append(("w-same-name-nested", {"a.xml": ("X", [("E", "a", [], None, [("I", "d1/x.xml", "d", None, None, False, [])])]),
                                      "d1/x.xml": ("X", [("E", "b", [], None, [("I", "d1/x.xml", "d", None, None, False, [])])]),
                                      "d1/d1/x.xml": ("X", [("E", "c", [], None, [])])}, "a.xml", ["a.xml", "d1/x.xml", "d1/d1/x.xml"]))
    ws.append(("w-twice-after-fallback", {"a.xml": ("X", [("E", "a", [], None, [("I", "b.xml", "d", None, None, False, []), ("I", "b.xml", "d", None, None, False, [])])]),
                                          "b.xml": ("X", [("E", "b", [], None, [("I", "nope.xml", "d", None, None, True, [("I", "c.xml", "d", None, None, False, [])]), ("I", "c.xml", "x", None, None, False, [])])]),
                                          "c.xml": ("X", [("L", "c", "", "pre"), ("E", "c", [], None, []), ("L", "p", "post", "")])}, "a.xml", ["a.xml", "b.xml", "c.xml"]))
    pre = "/".join(TOP) + "/"
    return [(nm, {pre + p: f for p, f in files.items()}, pre + root, [pre + p for p in order]) for nm, files, root, order in ws]

# ------------------------------------------------------------------ rendering
def esc_text(s):
    return s.replace("&", "&amp;").replace("<", "&lt;").replace(">", "&gt;").replace("\r", "&#13;")

def esc_attr(s):
    return esc_text(s).replace('"', "&quot;").replace("\n", "&#10;").replace("\t", "&#9;")

def render_node(n, top):
    ns = ' xmlns:xi="%s"' % XINS if top else ""
    if n[0] == "E":
        _, name, attrs, base, kids = n
        a = "".join(' %s="%s"' % (k, esc_attr(v)) for k, v in attrs)
        if base is not None: a += ' xml:base="%s"' % esc_attr(base)
        return "<%s%s%s>%s</%s>" % (name, ns, a, "".join(render_node(k, False) for k in kids), name)
    if n[0] == "L":
        _, kind, target, text = n
        if kind == "t": return esc_text(text)
        if kind == "c": return "<!--%s-->" % text
        return "<?%s%s?>" % (target, " " + text if text else "")
    if n[0] == "I":
        _, href, parse, enc, base, hasfb, fb = n
        a = ' href="%s"' % esc_attr(href)
        if parse == "x": a += ' parse="xml"'
        if parse == "t": a += ' parse="text"'
        if enc is not None: a += ' encoding="%s"' % esc_attr(enc)
        if base is not None: a += ' xml:base="%s"' % esc_attr(base)
        inner = "<xi:fallback>%s</xi:fallback>" % "".join(render_node(k, False) for k in fb) if hasfb else ""
        return "<xi:include%s%s>%s</xi:include>" % (ns, a, inner)
    if n[0] == "B":
        _, kind, attrs, base, kids = n
        a = "".join(' %s="%s"' % (k, esc_attr(v)) for k, v in attrs)
        if base is not None: a += ' xml:base="%s"' % esc_attr(base)
        return "<xi:include%s%s>%s</xi:include>" % (ns, a, "".join(render_node(k, False) for k in kids))
    if n[0] == "F":
        return "<xi:fallback%s>%s</xi:fallback>" % (ns, "".join(render_node(k, False) for k in n[1]))
    raise ValueError(n)

def render_doc(doc):
    return "".join(render_node(n, n[0] != "L") for n in doc)

PYENC = {"UTF-8": "utf-8", "UTF-16LE": "utf-16-le", "UTF-16BE": "utf-16-be", "ISO-8859-1": "latin-1"}

def materialise(files, d):
    for path, f in files.items():
        p = os.path.join(d, path)
        os.makedirs(os.path.dirname(p), exist_ok=True)
        with open(p, "wb") as fh:
            if f[0] == "X": fh.write(render_doc(f[1]).encode("utf-8"))
            else: fh.write(f[1].encode(PYENC[f[2]]))
    for dd in DIRS:
        os.makedirs(os.path.join(d, *dd), exist_ok=True)

def hexs(s):
    return ".".join("%x" % ord(c) for c in s) if s else "-"

def lean_base(b): return "-" if b is None else "r:" + b

def lean_node(n, out):
    if n[0] == "E":
        _, name, attrs, base, kids = n
        out += ["E", name, str(len(attrs))]
        for k, v in attrs: out += [k, hexs(v)]
        out += [lean_base(base), str(len(kids))]
        for k in kids: lean_node(k, out)
    elif n[0] == "L":
        out += ["L", n[1], n[2] or "-", hexs(n[3])]
    elif n[0] == "I":
        _, href, parse, enc, base, hasfb, fb = n
        out += ["I", href, parse, enc or "-", lean_base(base), "1" if hasfb else "0", str(len(fb))]
        for k in fb: lean_node(k, out)
    elif n[0] == "B":
        _, kind, attrs, base, kids = n
        out += ["B", kind, str(len(attrs))]
        for k, v in attrs: out += [k, hexs(v)]
        out += [lean_base(base), str(len(kids))]
        for k in kids: lean_node(k, out)
    elif n[0] == "F":
        out += ["F", "-", str(len(n[1]))]
        for k in n[1]: lean_node(k, out)

def lean_line(files, order, root):
    out = [root, str(len(order))]
    for path in order:
        f = files[path]
        if f[0] == "X":
            src = render_doc(f[1])
            out += ["X", path, hexs(src), str(len(f[1]))]
            for n in f[1]: lean_node(n, out)
        else:
            out += ["T", path, hexs(f[1])]
    for dd in DIRS:      # an empty file per directory: tells the as-is model (OS path walk) which directories exist
        out += ["T", "/".join(dd + [".keep"]), "-"]
    out[1] = str(len(order) + len(DIRS))
    return " ".join(out)

# ------------------------------------------------------------------ classification helpers
def walk(n, inside=False):
    """yields (node, inside_an_include)"""
    yield n, inside
    if n[0] == "E":
        for k in n[4]: yield from walk(k, inside)
    elif n[0] == "I":
        for k in n[6]: yield from walk(k, True)
    elif n[0] == "B":
        for k in n[4]: yield from walk(k, True)
    elif n[0] == "F":
        for k in n[1]: yield from walk(k, inside)

def big_text(files):
    return any(f[0] == "T" and len(f[1].encode(PYENC[f[2]])) > 16000 for f in files.values())

def parse_errs(s, names):
    """'F:282*1,W:10*2' or 'F:282,W:10' -> (set of code tokens, set of classes, list of foreign items)"""
    toks, classes, foreign = set(), set(), []
    if s.strip() in ("-", ""): return toks, classes, foreign
    for item in s.strip().split(","):
        item = item.split("*")[0]
        toks.add(item)
        if item.startswith("exc:") or ":other:" in item or item.startswith("?"):
            foreign.append(item); continue
        sev, code = item.split(":", 1)
        if not code.isdigit(): foreign.append(item); continue
        if int(code) == 0: classes.add("fuel"); continue
        nm = names.get(int(code))
        if nm is None: foreign.append(item); continue
        c = class_of(nm)
        if c and c.startswith("foreign:"): foreign.append(item)
        elif c:
            classes.add(c)
            if sev != "F": foreign.append("not-fatal:" + item)     # XInclude 1.0: all of these are fatal errors
    return toks, classes, foreign

def split_obs(o):
    """'<tree> E <errs>[ extra]' -> (tree, errs)"""
    k = o.rfind(" E ")
    if k < 0: return o, "?"
    return o[:k].strip(), o[k + 3:].strip().split(" ")[0]

def parse_model(line):
    parts = line.split(" ; ")
    if len(parts) < 3 or not parts[0].startswith("M ") or not parts[1].startswith("S ") or not parts[2].startswith("C "):
        raise common.InfraError("driver xinclude: unexpected output " + line[:200])
    q = []
    for p in parts[3:]:
        _, names, rest = p.split(" ", 2)
        q.append((names.split(","), split_obs(rest)))
    return split_obs(parts[0][2:]), split_obs(parts[1][2:]), parts[2][2:] == "1", q

QUIRK = {"e": "eagerRoot", "o": "ownBaseBug", "r": "rawHistory"}
def explain(q, tree, toks, names):
    """the smallest set of as-is quirks under which XV.Model.XIncludeAsIs reproduces the implementation's observation"""
    best = None
    for combos, (t, e) in q:
        if t == tree and parse_errs(e, names)[0] == toks:
            for c in combos:
                fl = frozenset(ch for ch in c if ch != "-")
                if best is None or len(fl) < len(best): best = fl
    return best

def parse_impl(line):
    if line.startswith("CRASH") or line in ("NO-OUTPUT", "bad-op"): return None
    m = re.fullmatch(r"X (.*) ; L (.*)", line)
    if not m: return None
    return split_obs(m.group(1)), split_obs(m.group(2))

def strip_bases(tree): return re.sub(r" \(B [^)]*\)", "", tree)
def strip_texts(tree): return re.sub(r" \(T [^)]*\)", " (T)", tree)

# ------------------------------------------------------------------ the run
def scratch_dir(ctx):
    return os.path.join(common.WORK, "xi_scratch", "%s-%d-%d" % (ctx.tier, ctx.seed, os.getpid()))

def gen_cases(ctx):
    r = ctx.rng
    n = 10000 if ctx.thorough() else 400
    cases = []
    for name, files, root, order in witness_maps():
        cases.append({"name": name, "files": files, "root": root, "order": order, "feat": {name}})
    for i in range(n):
        g = MapGen(r)
        root = g.build()
        cases.append({"name": "g%d" % i, "files": g.files, "root": root, "order": g.order, "feat": g.feat})
    return cases

def judge(case, mline, iline, names):
    """returns (list of violation dicts, outcome tag)"""
    files, root = case["files"], case["root"]
    (mtree, merrs), (stree, serrs), cyc, q = parse_model(mline)
    rep = {"files": files, "root": root, "order": case["order"], "model": mline[:6000], "impl": iline[:6000]}
    def viol(key, what, concrete=True):
        return {"key": key, "concrete": concrete, "what": what, "replay": rep, "size": len(json.dumps(files))}
    impl = parse_impl(iline)
    if impl is None:
        if "TIMEOUT" in iline: return [viol("xi-hang", "XInclude processing did not terminate within the time limit: " + iline[:200])], "hang"
        key = "xi-crash-include-replaced-by-nothing" if "AbstractDOMParser.cpp" in iline and "null pointer" in iline else "xi-crash"
        return [viol(key, "harness died / sanitizer report while XInclude-processing the map: " + iline[:300])], "crash"
    (xt, xe), (lt, le) = impl
    out = []
    if (xt, set(xe.split(","))) != (lt, set(le.split(","))):
        out.append(viol("xi-parsers-disagree", "XercesDOMParser and DOMLSParser give different results: X=%s E %s  L=%s E %s" % (xt[:300], xe, lt[:300], le)))
    itoks, icls, iforeign = parse_errs(xe, names)
    mtoks, mcls, _ = parse_errs(merrs, names)
    agrees = (xt, itoks) == (mtree, mtoks)
    why = None if agrees else explain(q, xt, itoks, names)          # set of quirk letters, or None = unexplained
    def key_for(generic):
        """a Spec violation that the as-is model reproduces is the recorded finding of that quirk"""
        if why is None: return generic
        if "o" in why: return "xi-base-fixup-own-xml-base"
        if "r" in why and generic == "xi-cycle-not-reported": return "xi-loop-undetected-unnormalised-href"
        if "e" in why: return "xi-include-child-of-include-not-reported" if generic == "xi-error-not-reported" else "xi-unused-fallback-processed"
        return generic
    if iforeign:
        key = ("xi-text-multibyte-across-16k-read" if big_text(files) and any("other:" in f for f in iforeign)
               else "xi-error-not-fatal" if all(f.startswith("not-fatal:") for f in iforeign) else "xi-foreign-error")
        out.append(viol(key, "an error outside the XInclude classes / an exception was reported (%s) for a map the Spec processes cleanly" % ",".join(iforeign)))
    tag = "cyclic" if cyc else "acyclic"
    if cyc and "circular" not in mcls:      # cycle_reported (proved) says otherwise: the executable cyclicity test is off
        raise common.InfraError("cyclicB says cyclic but the model reports no loop: " + mline[:300])
    if not cyc and "circular" in mcls:      # acyclic_no_circular
        raise common.InfraError("cyclicB says acyclic but the model reports a loop: " + mline[:300])
    if cyc:
        if "circular" not in icls:
            out.append(viol(key_for("xi-cycle-not-reported"), "the inclusion graph has a live loop but no circular-inclusion error was reported (errors: %s)" % xe))
    else:
        scls = set() if serrs == "-" else set(serrs.split(","))
        if "fuel" in scls: raise common.InfraError("Spec ran out of budget on a map its own test calls acyclic")
        extra, lacking = icls - scls, scls - icls
        if extra and not iforeign:
            out.append(viol(key_for("xi-spurious-error"), "error class(es) %s reported although the Spec demands %s (impl errors %s)" % (sorted(extra), sorted(scls) or "none", xe)))
        if lacking:
            out.append(viol(key_for("xi-error-not-reported"), "the Spec demands error class(es) %s; reported: %s" % (sorted(lacking), xe)))
        if not scls and not extra and not iforeign and xt != stree:
            if strip_bases(xt) == strip_bases(stree):
                key, what = key_for("xi-base-fixup"), "resolved base URIs of included content differ from the bases in the source documents"
            elif strip_texts(xt) == strip_texts(stree):
                key = "xi-text-multibyte-across-16k-read" if big_text(files) else "xi-text-inclusion"
                what = "included text differs from the characters of the target"
            else:
                key, what = key_for("xi-merged-tree"), "merged tree differs from the specified substitution"
            out.append(viol(key, "%s: impl %s  spec %s" % (what, xt[:1500], stree[:1500])))
        tag += "+err" if scls else ""
    if not agrees and not out:
        if why is not None:
            # reproduced by the as-is model and not judged by the Spec (e.g. which content is left behind a fatal error,
            # or a loop found one round later): no violation
            tag += ":asis-" + "".join(sorted(why))
        else:
            out.append(viol("corr:xinclude", "model and implementation disagree (Spec does not judge, as-is model does not explain): impl %s E %s  model %s E %s" % (xt[:1200], xe, mtree[:1200], merrs), concrete=False))
    elif not agrees:
        tag += ":viol-" + ("".join(sorted(why)) if why is not None else "unexplained")
    return out, tag

def run_cases(ctx, cases, keep=False):
    names = load_codes()
    if not names: raise common.InfraError("Gen/XIncludeErrs.lean missing")
    sd = scratch_dir(ctx)
    shutil.rmtree(sd, ignore_errors=True)
    try:
        mlines, ilines = [], []
        for k, c in enumerate(cases):
            d = os.path.join(sd, "c%05d" % k)
            materialise(c["files"], d)
            mlines.append(lean_line(c["files"], c["order"], c["root"]))
            ilines.append("%s %s" % (d, c["root"]))
        mo = common.run_driver(["xinclude"], input=("\n".join(mlines) + "\n").encode(), timeout=1800).decode().split("\n")
        if mo and mo[-1] == "": mo.pop()
        if len(mo) != len(cases): raise common.InfraError("driver xinclude produced %d lines for %d cases" % (len(mo), len(cases)))
        # the implementation side in parallel chunks (each its own process; a hang is blamed on the case it occurs in)
        common.build_harness("hx_xi")
        env = harness_env()
        nch = max(1, min(common.NCPU, (len(ilines) + 24) // 25))
        size = (len(ilines) + nch - 1) // nch
        chunks = [ilines[a:a + size] for a in range(0, len(ilines), size)]
        from concurrent.futures import ThreadPoolExecutor
        with ThreadPoolExecutor(max_workers=nch) as ex:
            outs = list(ex.map(lambda ch: common.run_lines_resilient("hx_xi", ch, timeout=120 + 8 * len(ch), env=env)[0], chunks))
        io = [o for ch in outs for o in ch]
        # a time-out is blamed on the case the chunk was at: confirm it alone (a loaded machine must not look like a hang)
        for k, o in enumerate(io):
            if o.startswith("CRASH") and "TIMEOUT" in o:
                io[k] = common.run_lines_resilient("hx_xi", [ilines[k]], timeout=300, env=env)[0][0]
        return mlines, mo, io
    finally:
        if not keep: shutil.rmtree(sd, ignore_errors=True)

def correspondence(ctx):
    cases = gen_cases(ctx)
    mlines, mo, io = run_cases(ctx, cases)
    names = load_codes()
    best, hist, feats = {}, {}, {}
    nontrivial = set()
    for c, ml, m, i in zip(cases, mlines, mo, io):
        if m == "bad-op": raise common.InfraError("model rejected generated case " + ml[:300])
        vs, tag = judge(c, m, i, names)
        hist[tag] = hist.get(tag, 0) + 1
        for f in c["feat"]: feats[f] = feats.get(f, 0) + 1
        if " ; C 1" in m or "(B " in m or re.search(r" E [^-]", m): nontrivial.add(ml)
        for v in vs:
            if v["key"] not in best or v["size"] < best[v["key"]]["size"]: best[v["key"]] = v
            hist["violation:" + v["key"]] = hist.get("violation:" + v["key"], 0) + 1
    for v in best.values():
        v.pop("size", None)
        ctx.violations.append(v)
    ctx.stats["evaluations"] = len(cases)
    ctx.stats["distinct_nontrivial"] = len(nontrivial)
    ctx.stats["outcomes"] = hist
    ctx.stats["features"] = feats
    for k in (7, 8, 9):
        if k < len(cases):
            ctx.samples.append({"root": cases[k]["root"], "files": {p: (render_doc(f[1]) if f[0] == "X" else "text(%s) %r" % (f[2], f[1][:60])) for p, f in cases[k]["files"].items()},
                                "impl": io[k][:400], "model": mo[k][:400]})

def search(ctx, broken):
    # the correspondence above judges every generated map by the Spec already (model not involved in the verdict)
    return None

def replay(ctx, path):
    r = json.load(open(path))["replay"]
    files = {p: tuple(f) for p, f in r["files"].items()}
    def tup(n):
        n = list(n)
        if n[0] == "E": n[2] = [tuple(a) for a in n[2]]; n[4] = [tup(k) for k in n[4]]
        elif n[0] == "I": n[6] = [tup(k) for k in n[6]]
        elif n[0] == "B": n[2] = [tuple(a) for a in n[2]]; n[4] = [tup(k) for k in n[4]]
        elif n[0] == "F": n[1] = [tup(k) for k in n[1]]
        return tuple(n)
    files = {p: (("X", [tup(n) for n in f[1]]) if f[0] == "X" else tuple(f)) for p, f in files.items()}
    case = {"name": "replay", "files": files, "root": r["root"], "order": r["order"], "feat": set()}
    mlines, mo, io = run_cases(ctx, [case])
    names = load_codes()
    for p in r["order"]:
        f = files[p]
        print("file %s: %s" % (p, render_doc(f[1]) if f[0] == "X" else "text(%s) %d chars %r" % (f[2], len(f[1]), f[1][:80])))
    (mt, me), (st, se), cyc, q = parse_model(mo[0])
    def nm(e): return ",".join(sorted((t.split("*")[0].split(":")[0] + ":" + names.get(int(t.split("*")[0].split(":")[1]), t) if t.split("*")[0].split(":")[-1].isdigit() else t) for t in e.split(","))) if e not in ("-", "?") else e
    print("root :", r["root"], "(cyclic)" if cyc else "(acyclic)")
    print("model:", mt[:3000], "E", nm(me))
    print("spec :", st[:3000], "E", se)
    print("impl :", io[0][:6000])
    vs, tag = judge(case, mo[0], io[0], names)
    for v in vs: print("verdict:", v["key"], "-", v["what"][:400])
    if not vs: print("verdict: agrees (%s)" % tag)
    return 0
