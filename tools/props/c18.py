"""C18 — MemoryManager discipline and Initialize/Terminate lifecycle.

Theorems (XV.Props.C18): the streaming ledger monitor accepts exactly the disciplined+balanced traces and reports the
first breach with its kind (all traces, address reuse included); Initialize/Terminate counter machine (balanced =>
initial state, manager deleted iff adopted, nested calls only move the counter, extra Terminate harmless); DOM document
arena keeps sub-allocations disjoint and inside owned blocks under exactly the stated size hypothesis (necessity proved).

Tie to the code (PARTIAL: exploration with a verified oracle, the Janitor/catch structure of the C++ is not modelled):
recording MemoryManagers (harness/hx_mem.cpp) around SAXParser / SAX2XMLReader / XercesDOMParser / DOMLSParser / grammar
pool / global manager, for generated documents x every way a parse can end; each recorded trace is judged by the verified
monitor (`xvdriver ledger`).  Initialize/Terminate sequences and arena histories: model vs implementation, judged by an
independent Spec.  LeakSanitizer covers allocations that bypass the managers."""
import concurrent.futures, json, os, re, subprocess
import common

PID = "C18"
GEN = ["DomHeap"]
LEAN_MODULE = "XV.Props.C18"
THEOREMS = ["XV.Props.C18." + t for t in (
    "monitor_iff", "monitor_first_violation", "owner_unique", "header_roundtrip",
    "init_term_balanced", "terminate_deletes_iff_adopted", "nested_only_outermost_works", "extra_terminate_harmless",
    "heap_survives_terminate",
    "arena_disjoint", "arena_hypothesis_necessary", "setblock_hypothesis_necessary", "arena_all_freed_on_delete",
    "arena_disjoint_gen", "gen_defaults_fit", "regionsOk_iff")]
RULE = ("documents: generated (internal/external DTD with entities, notations, ID/IDREF, defaults; namespaces; XSD with identity "
        "constraint) in classes well-formed / malformed at a random byte / DTD-invalid / schema-invalid / malformed schema or DTD; "
        "scenarios per document and parser (SAXParser, SAX2XMLReader, XercesDOMParser, DOMLSParser): parse to completion, handler "
        "exception at callback k for EVERY k (fresh parser per k, and one parser swept over all k), progressive parse abandoned after "
        "every j steps (parseReset / destruction / reuse), adoptDocument with parser destroyed before/after release, reuse with and "
        "without resetDocumentPool, object-lifetime sequences (every subset of {adopt} over three parses on one XercesDOMParser / DOMLSParser "
        "user-adopts toggle x resetDocumentPool in between or not x parser destroyed before/after the adopted documents), "
        "grammar pool with its own manager, recording global manager around Initialize..Terminate; "
        "non-trivial = scenario whose trace has >= 50 allocations; distinct by (document, parser, scenario, k); "
        "lifecycle: random Initialize/Terminate nestings (depth <= 5, both overloads, 3 application managers, work inside) and several "
        "consecutive lives with locale / nlsHome arguments present or absent x application or default global manager (all managers' "
        "traces judged by the monitor, XMLMsgLoader strings judged by first-call-wins); "
        "arena: random allocate/release/setMemoryAllocationBlockSize histories for size triples inside and outside the proved region")
ASSUMPTIONS = [
    "PARTIAL: the Janitor/catch structure of the C++ parsers is explored, not proved - what is verified is the monitor that judges every recorded run",
    "block ids in traces are assigned by the harness to addresses in order of first appearance (an address re-used by malloc keeps its id; the monitor handles re-use)",
    "deallocate(0) is not an event (MemoryManagerImpl ignores null as well)",
    "XMLSize_t arithmetic of the arena is modelled in Nat: no 64-bit wrap-around (block sizes below 2^63); fHeapAllocSize - header wraps in the real code only outside the proved region or when nothing but empty requests is sub-allocated",
    "the system allocator contract (a fresh block never overlaps a block still owned) is a hypothesis of arena_disjoint (Valid)",
    "XMemory header (manager pointer stored in front of each object): header_roundtrip assumes the header word is not overwritten between new and delete; the translator does not tie XMemory.cpp",
    "static data created lazily by the library through the global manager is released by Terminate; this is checked only in the scenarios run with a recording global manager",
]
TRUSTED = ["XV.Spec.Ledger (Disciplined/Balanced), XV.Spec.Arena (ArenaOk)", "harness/hx_mem.cpp recording managers and trace printer",
           "Python oracle for Initialize/Terminate (first-call-wins, defaults after re-initialisation)"]

ENV = {"ASAN_OPTIONS": "detect_leaks=1:abort_on_error=0:allocator_may_return_null=1:symbolize=1:fast_unwind_on_malloc=1:malloc_context_size=12",
       "UBSAN_OPTIONS": "print_stacktrace=0:halt_on_error=0"}
NPROC = max(2, min(12, common.NCPU - 2))

def hx(s):
    b = s if isinstance(s, bytes) else s.encode("utf-8")
    return ".".join("%x" % c for c in b) if b else "-"

# ---------------------------------------------------------------------------------------------- running
def run_mem(lines, env=None, timeout=900):
    """one-line-in / one-line-out with restarts after a crash; also returns sanitizer text seen on stderr
    (LeakSanitizer reports come at process exit).  -> (outs, crashes[(index, line, summary)], stderr_texts)"""
    e = dict(ENV)
    if env: e.update(env)
    outs, crashes, errs, pos = [], [], [], 0
    while pos < len(lines):
        data = ("\n".join(lines[pos:]) + "\n").encode()
        try:
            p = common.run_harness("hx_mem", input=data, timeout=timeout, env=e)
            got, rc, err = p.stdout.decode(errors="replace").split("\n"), p.returncode, p.stderr.decode(errors="replace")
        except subprocess.TimeoutExpired as ex:
            got, rc, err = (ex.stdout or b"").decode(errors="replace").split("\n"), -9, "TIMEOUT"
        if got and got[-1] == "": got.pop()
        n_ok = min(len(got), len(lines) - pos)
        if rc != 0 and n_ok < len(lines) - pos:
            outs += got[:n_ok]
            summ = "TIMEOUT" if err == "TIMEOUT" else common.sanitizer_summary(err)
            outs.append("CRASH " + summ[:200])
            crashes.append((pos + n_ok, lines[pos + n_ok], summ))
            errs.append(err[-3000:])
            pos += n_ok + 1
            if len(crashes) > 60:
                outs += ["CRASH (too many restarts)"] * (len(lines) - pos); break
        else:
            outs += got[:n_ok] + ["NO-OUTPUT"] * (len(lines) - pos - n_ok)
            if "LeakSanitizer" in err or "runtime error:" in err or "AddressSanitizer" in err:
                errs.append(err[-6000:])
            pos = len(lines)
    return outs, crashes, errs

def judge(outs):
    """verdict of the verified monitor for every harness line that carries a trace"""
    idx = [i for i, o in enumerate(outs) if " | " in o or o.endswith(" |")]
    res = [None] * len(outs)
    if idx:
        data = ("\n".join(outs[i] if " | " in outs[i] else outs[i] + " " for i in idx) + "\n").encode()
        v = common.run_driver(["ledger"], input=data).decode(errors="replace").split("\n")
        for k, i in enumerate(idx):
            res[i] = v[k] if k < len(v) else "NO-VERDICT"
    return res

def obs_of(o):
    return o.split(" | ")[0].rstrip(" |") if o else o

def run_chunk(lines):
    outs, crashes, errs = run_mem(lines)
    verd = judge(outs)
    return [(obs_of(o), v, len(o)) for o, v in zip(outs, verd)], crashes, errs

def run_parallel(lines, chunk=60):
    common.build_harness("hx_mem")
    chunks = [lines[i:i + chunk] for i in range(0, len(lines), chunk)]
    res, crashes, errs = [], [], []
    with concurrent.futures.ThreadPoolExecutor(max_workers=NPROC) as ex:
        for ci, (r, c, e) in enumerate(ex.map(run_chunk, chunks)):
            res += r
            crashes += [(ci * chunk + i, l, s) for i, l, s in c]
            errs += [(ci, t) for t in e]
    return res, crashes, errs, chunks

# ---------------------------------------------------------------------------------------------- documents
DTD_DECLS = [
    "<!ELEMENT r (a|b|c)*>", "<!ELEMENT a (#PCDATA|b)*>", "<!ELEMENT b EMPTY>", "<!ELEMENT c (a,b?)>",
    "<!ATTLIST a x CDATA #IMPLIED y (p|q) \"p\" id ID #IMPLIED>", "<!ATTLIST b ref IDREF #IMPLIED n NMTOKENS #IMPLIED>",
    "<!ATTLIST c f CDATA #FIXED \"v\">", "<!ENTITY e1 \"text\">", "<!ENTITY e2 \"<b/>\">", "<!ENTITY e3 \"&e1;&e1;\">"]
DTD_EXTRA = ["<!NOTATION nt SYSTEM \"nt\">", "<!ENTITY u SYSTEM \"u.bin\" NDATA nt>", "<!ATTLIST b u ENTITY #IMPLIED>",
             "<!-- c -->", "<?dp i?>", "<!ENTITY % pe \"<!ATTLIST a z CDATA #IMPLIED>\"> %pe;"]

def gen_a(r, depth, st):
    at = ""
    if r.chance(1, 3): at += " x=\"%s\"" % r.choice(["1", "a&amp;b", "&e1;", "  s  p  "])
    if r.chance(1, 5): at += " y=\"%s\"" % r.choice(["p", "q"])
    if r.chance(1, 5): st["ids"] += 1; at += " id=\"i%d\"" % st["ids"]
    body = ""
    for _ in range(r.below(4)):
        c = r.below(12)
        body += ["t", "some text ", "&e1;", "&e2;", "<b/>", "<![CDATA[<x>]]>", "<!--c-->", "&#65;&e3;", "u", "<b/>", "&lt;", " "][c]
    return "<a%s>%s</a>" % (at, body) if body or r.chance(1, 2) else "<a%s/>" % at

def gen_b(r, st):
    at = ""
    if st["ids"] and r.chance(1, 3): at += " ref=\"i%d\"" % (1 + r.below(st["ids"]))
    if r.chance(1, 6): at += " n=\"t1 t2\""
    if st.get("unparsed") and r.chance(1, 4): at += " u=\"u\""
    return "<b%s/>" % at

def gen_body(r, st):
    out = ""
    for _ in range(r.below(6)):
        c = r.below(10)
        if c < 4: out += gen_a(r, 1, st)
        elif c < 6: out += gen_b(r, st)
        elif c < 8: out += "<c>%s%s</c>" % (gen_a(r, 1, st), gen_b(r, st) if r.chance(1, 2) else "")
        elif c == 8: out += "<!--k-->"
        else: out += "<?pi data?>"
    return out

def gen_dtd_doc(r, external=False):
    st = {"ids": 0}
    decls = list(DTD_DECLS)
    for x in DTD_EXTRA:
        if r.chance(1, 3):
            decls.append(x)
            if "NDATA" in x: st["unparsed"] = "<!NOTATION nt" in "".join(decls)
    if "unparsed" in st and not st["unparsed"]: st.pop("unparsed")
    body = gen_body(r, st)
    head = "<?xml version=\"1.0\"%s?>" % r.choice(["", " encoding=\"UTF-8\"", " standalone=\"no\""]) if r.chance(2, 3) else ""
    tail = r.choice(["", "\n", "<!--e-->", "<?z?>"])
    if external:
        return head + "<!DOCTYPE r SYSTEM \"d.dtd\">" + "<r>" + body + "</r>" + tail, "\n".join(decls)
    return head + "<!DOCTYPE r [" + "\n".join(decls) + "]>" + "<r>" + body + "</r>" + tail, ""

def make_dtd_invalid(r, doc):
    k = r.below(7)
    if k == 0: return doc.replace("<r>", "<r><zz/>", 1)
    if k == 1: return doc.replace("<r>", "<r><c><b/></c>", 1)
    if k == 2: return doc.replace("<r>", "<r><a y=\"w\"/>", 1)
    if k == 3: return doc.replace("<r>", "<r><a id=\"d\"/><a id=\"d\"/>", 1)
    if k == 4: return doc.replace("<r>", "<r><b ref=\"nowhere\"/>", 1)
    if k == 5: return doc.replace("<r>", "<r>stray text<c f=\"w\"><a/></c>", 1)
    return doc.replace("<r>", "<r><a q=\"1\"><a/></a>", 1)

def gen_ns_doc(r):
    ns = ["urn:x", "urn:y", "http://example.org/z"]
    def el(d):
        p = r.choice(["", "p:", "q:"])
        at = ""
        if r.chance(1, 3): at += " xmlns:%s=\"%s\"" % (r.choice("pqs"), r.choice(ns))
        if r.chance(1, 4): at += " xmlns=\"%s\"" % r.choice(ns + [""])
        if r.chance(1, 3): at += " p:k=\"v\""
        kids = "".join(el(d - 1) if d > 0 and r.chance(1, 2) else r.choice(["t", "<!--c-->", "<?pi?>", "<![CDATA[d]]>", "&amp;"]) for _ in range(r.below(4)))
        return "<%se%s>%s</%se>" % (p, at, kids, p)
    return "<e xmlns:p=\"urn:x\" xmlns:q=\"urn:y\">%s</e>" % "".join(el(2) for _ in range(1 + r.below(3)))

XSD = ("<xs:schema xmlns:xs=\"http://www.w3.org/2001/XMLSchema\"><xs:element name=\"r\"><xs:complexType><xs:sequence>"
       "<xs:element name=\"i\" type=\"xs:int\" minOccurs=\"0\" maxOccurs=\"unbounded\"/>"
       "<xs:element name=\"s\" minOccurs=\"0\" maxOccurs=\"unbounded\"><xs:complexType><xs:simpleContent><xs:extension base=\"xs:string\">"
       "<xs:attribute name=\"k\" type=\"xs:NMTOKEN\"/></xs:extension></xs:simpleContent></xs:complexType></xs:element>"
       "<xs:element name=\"d\" type=\"T\" minOccurs=\"0\"/><xs:any namespace=\"##other\" processContents=\"lax\" minOccurs=\"0\"/>"
       "</xs:sequence><xs:attribute name=\"id\" type=\"xs:ID\"/><xs:attribute name=\"v\" type=\"xs:decimal\" default=\"1.0\"/></xs:complexType>"
       "<xs:unique name=\"u\"><xs:selector xpath=\"s\"/><xs:field xpath=\"@k\"/></xs:unique></xs:element>"
       "<xs:simpleType name=\"T\"><xs:restriction base=\"xs:date\"><xs:minInclusive value=\"2000-01-01\"/><xs:pattern value=\"[0-9\\-]+\"/></xs:restriction></xs:simpleType>"
       "</xs:schema>")

def gen_xsd_doc(r, valid):
    body = ""
    for _ in range(r.below(4)): body += "<i>%d</i>" % r.below(1000)
    ks = []
    for _ in range(r.below(4)):
        k = "k%d" % len(ks); ks.append(k); body += "<s k=\"%s\">%s</s>" % (k, r.choice(["", "txt", "a &amp; b"]))
    if r.chance(1, 2): body += "<d>2020-0%d-11</d>" % (1 + r.below(9))
    if r.chance(1, 4): body += "<o:x xmlns:o=\"urn:o\"><o:y/></o:x>"
    at = " id=\"R\"" if r.chance(1, 2) else ""
    if not valid:
        k = r.below(6)
        if k == 0: body = "<i>notint</i>" + body
        elif k == 1: body = body + "<s k=\"k0\"/><s k=\"k0\"/>"
        elif k == 2: body = "<zz/>" + body
        elif k == 3: body = body + "<d>1999-01-01</d>" if "<d>" not in body else body.replace("<d>2020", "<d>1820")
        elif k == 4: at += " v=\"x\""
        else: body = "<s k=\"bad token\"/>" + body
    return ("<r xmlns:xsi=\"http://www.w3.org/2001/XMLSchema-instance\" xsi:noNamespaceSchemaLocation=\"s.xsd\"%s>%s</r>" % (at, body)), XSD

def mutate_bytes(r, s):
    b = bytearray(s.encode())
    if not b: return s.encode()
    for _ in range(1 + r.below(2)):
        p = r.below(len(b)); k = r.below(5)
        if k == 0: del b[p]
        elif k == 1: b[p] = r.choice(b"<>&\"'/?![]=;\x00\x80 ")
        elif k == 2: b.insert(p, r.choice(b"<>&\"'/[]"))
        elif k == 3: b = b[:p]
        else: b[p:p] = b[max(0, p - 7):p]
        if not b: break
    return bytes(b)

def gen_case(r):
    """-> dict(cls, doc(bytes), aux(bytes), opts(list)); half of the malformed documents are parsed with
    exit-on-first-fatal-error switched off (xf), which sends the scanners down their recovery paths"""
    c = gen_case0(r)
    if "malformed" in c["cls"] and r.chance(1, 2): c["opts"] = c["opts"] + ["xf"]
    return c

def gen_case0(r):
    c = r.below(100)
    if c < 22:
        d, a = gen_dtd_doc(r); return dict(cls="wf-dtd", doc=d.encode(), aux=b"", opts=[r.choice(["v0", "v1", "v2"])])
    if c < 34:
        d, a = gen_dtd_doc(r); return dict(cls="malformed", doc=mutate_bytes(r, d), aux=b"", opts=[r.choice(["v0", "v1", "v2"])])
    if c < 46:
        d, a = gen_dtd_doc(r); return dict(cls="dtd-invalid", doc=make_dtd_invalid(r, d).encode(), aux=b"", opts=[r.choice(["v1", "v2"])])
    if c < 54:
        d, a = gen_dtd_doc(r, True); return dict(cls="ext-dtd", doc=d.encode(), aux=a.encode(), opts=[r.choice(["v0", "v1", "v2"])])
    if c < 58:
        d, a = gen_dtd_doc(r, True); return dict(cls="ext-dtd-malformed", doc=d.encode(), aux=mutate_bytes(r, a), opts=[r.choice(["v1", "v2"])])
    if c < 68:
        d = gen_ns_doc(r)
        if r.chance(2, 3): return dict(cls="ns", doc=d.encode(), aux=b"", opts=["v0", "ns"])
        return dict(cls="ns-malformed", doc=mutate_bytes(r, d), aux=b"", opts=["v0", "ns"])
    if c < 80:
        d, a = gen_xsd_doc(r, True); return dict(cls="xsd-valid", doc=d.encode(), aux=a.encode(), opts=["v2", "ns", "sch"])
    if c < 92:
        d, a = gen_xsd_doc(r, False); return dict(cls="xsd-invalid", doc=d.encode(), aux=a.encode(), opts=["v2", "ns", "sch"])
    if c < 96:
        d, a = gen_xsd_doc(r, True); return dict(cls="xsd-schema-malformed", doc=d.encode(), aux=mutate_bytes(r, a), opts=["v2", "ns", "sch"])
    d, a = gen_xsd_doc(r, r.chance(1, 2)); return dict(cls="xsd-doc-malformed", doc=mutate_bytes(r, d), aux=a.encode(), opts=["v2", "ns", "sch"])

FIXED = [
    dict(cls="wf-dtd", doc=b"<!DOCTYPE r [<!ELEMENT r (a*)><!ELEMENT a (#PCDATA)><!ATTLIST a x CDATA #IMPLIED>]><r><a x=\"1\">t</a><!--c--><?pi d?><a/></r>", aux=b"", opts=["v1"]),
    dict(cls="malformed", doc=b"<r><a></r>", aux=b"", opts=["v0"]),
    dict(cls="malformed", doc=b"<r a=\"1\" a=\"2\"/>", aux=b"", opts=["v0"]),
    dict(cls="malformed", doc=b"", aux=b"", opts=["v0"]),
    dict(cls="malformed", doc=b"<?xml version=\"1.0\" encoding=\"no-such-encoding\"?><r/>", aux=b"", opts=["v0"]),
    dict(cls="malformed", doc=b"<?xml version=\"1.0\" encoding=\"UTF-16\"?><r/>", aux=b"", opts=["v0"]),
    dict(cls="malformed", doc=b"<!DOCTYPE r [<!ELEMENT r (a,(b,,c))><!ELEMENT a (b|(c|)|a)>]><r/>", aux=b"", opts=["v1"]),
    dict(cls="malformed", doc=b"<!DOCTYPE r [<!ELEMENT r ((,))>]><r/>", aux=b"", opts=["v0"]),
    dict(cls="malformed", doc=b"<!DOCTYPE r [<!ELEMENT r (a,(b,,c))><!ELEMENT a ((b|c),(d|),e)>]><r><a></r>", aux=b"", opts=["v1", "xf"]),
    dict(cls="dtd-invalid", doc=b"<!DOCTYPE r [<!ELEMENT r EMPTY>]><r>x</r>", aux=b"", opts=["v2"]),
]

_X1, _XS = gen_xsd_doc(common.SplitMix(7), True)
_X2, _ = gen_xsd_doc(common.SplitMix(8), False)
_E1, _ED = gen_dtd_doc(common.SplitMix(9), True)
FIXED += [dict(cls="xsd-valid", doc=_X1.encode(), aux=_XS.encode(), opts=["v2", "ns", "sch"]),
          dict(cls="xsd-invalid", doc=_X2.encode(), aux=_XS.encode(), opts=["v2", "ns", "sch"]),
          dict(cls="ext-dtd", doc=_E1.encode(), aux=_ED.encode(), opts=["v1"])]

PARSERS = ["sax", "sax2", "dom", "ls"]

def pline(parser, mode, k, j, opts, case):
    return "P %s %s %d %d %s %s %s" % (parser, mode, k, j, ",".join(opts) or "-", hx(case["doc"]), hx(case["aux"]))

def parse_obs(o):
    """'done cb=11 err=0 ...' -> (status, dict)"""
    if not o or o.startswith("CRASH") or o in ("NO-OUTPUT", "bad-op"):
        return o, {}
    f = o.split()
    d = {}
    for t in f[1:]:
        if "=" in t:
            a, b = t.split("=", 1)
            try: d[a] = int(b)
            except ValueError: d[a] = b
    return f[0], d

# ---------------------------------------------------------------------------------------------- parser scenarios
def plan_second(ctx, cases, first):
    """from the dry runs (callback counts) build the exhaustive second pass"""
    lines, meta = [], []
    maxk = 200
    wf = [ci for ci, c in enumerate(cases) if c["cls"] in ("wf-dtd", "xsd-valid", "ext-dtd", "ns")]
    seq_docs = set(wf if ctx.thorough() else wf[:1] + [ci for ci in wf if cases[ci]["cls"] == "xsd-valid"][:1])
    for (ci, parser, opts), (st, d) in first.items():
        case = cases[ci]
        n = min(int(d.get("cb", 0)), maxk)
        def add(mode, k=0, j=0, o=opts):
            lines.append(pline(parser, mode, k, j, o, case)); meta.append((ci, parser, mode, k, j, tuple(o)))
        # exception from the k-th callback, for every k: fresh parser each time, and one parser swept over all k
        for k in range(1, n + 1): add("throw", k)
        if n: add("throwall", n)
        add("reuse")
        if parser in ("dom", "ls"):
            add("adopt-before"); add("adopt-after"); add("keep")
        if parser in ("dom", "ls") and ci in seq_docs and "pool" not in opts:
            # object lifetimes: every subset of {adopt} over three consecutive parses on one parser x resetDocumentPool in
            # between or not x parser destroyed before/after the adopted documents are released (DOMLSParser: the
            # user-adopts-DOMDocument parameter toggled per parse)
            for mask in range(8):
                for rs in "nr":
                    for order in "ba":
                        add("seq-%d-%s-%s" % (mask, rs, order))
        if parser != "ls":
            # progressive parse abandoned after j steps, for every j until the scan is over (n callbacks bound the steps)
            sax_cb = int(first.get((ci, "sax", tuple(case["opts"])), ("", {}))[1].get("cb", 10))
            steps = min((n if parser != "dom" else sax_cb) + 2, 40)
            stride = 1 if parser == "sax" or ctx.thorough() else 2      # quick tier: every step for SAXParser, every other step for the others
            for j in range(0, steps + 1, stride):
                # abandoned by parseReset or by destruction, alternating over j (both for SAXParser in the thorough tier)
                both = parser == "sax" and ctx.thorough()
                if both or (j // stride) % 2 == 0: add("prog-reset", 0, j)
                if both or (j // stride) % 2 == 1: add("prog-drop", 0, j)
            add("prog-again", 0, steps // 2)
        if ci % 3 == 0:
            po = tuple(list(opts) + ["pool"])
            add("full", 0, 0, po); add("reuse", 0, 0, po)
            if n: add("throwall", n, 0, po); add("throw", max(1, n // 2), 0, po)
            if parser in ("dom", "ls"): add("adopt-before", 0, 0, po)
        if ci % 8 == 0:
            go = tuple(list(opts) + ["g"])
            add("full", 0, 0, go)
            if n: add("throw", 1 + (ci // 8) % n, 0, go)
    return lines, meta

def classify(meta):
    ci, parser, mode, k, j, opts = meta
    m = {"throw": "handler-exception", "throwall": "handler-exception-sweep"}.get(mode, "lifetime-sequence" if mode.startswith("seq-") else mode)
    return "%s:%s%s%s" % (parser, m, ":pool" if "pool" in opts else "", ":global" if "g" in opts else "")

def site_of(line):
    """re-run one violating scenario with backtraces: allocation sites of the blocks still live at the end"""
    try:
        p = common.run_harness("hx_mem", input=(line + "\n").encode(), timeout=300, env=dict(ENV, HX_BT="1", ASAN_OPTIONS="detect_leaks=0"))
    except subprocess.TimeoutExpired:
        return []
    sites, frees = [], []
    for l in p.stderr.decode(errors="replace").split("\n"):
        m = re.match(r"(LIVE-AT-END block (\d+) allocated at|SUSPECT-FREE block (\d+) to manager \d+ at): (.*)", l)
        if m:
            fr = [x.strip() for x in m.group(4).split(" < ") if x.strip()]
            fr = [x for x in fr if not x.startswith(("RecMM", "Trace", "?", "xercesc_4_0::XMemory::operator", "xercesc_4_0::MemoryManager"))]
            (sites if m.group(2) else frees).append((int(m.group(2) or m.group(3)), fr[:6]))
    return sites, frees

def ending_of(mode):
    return "handler-exception" if mode.startswith("throw") else "abandoned-progressive" if mode.startswith("prog") else "completion"

def short_fn(f):
    return re.sub(r"xercesc_4_0::", "", f)

def run_parsers(ctx):
    r = ctx.rng
    ndocs = int(os.environ.get("VERIF_C18_DOCS", "150" if ctx.thorough() else "5"))
    cases = list(FIXED) + [gen_case(r) for _ in range(ndocs)]
    # pass 1: dry runs (count callbacks)
    l1, m1 = [], []
    for ci, case in enumerate(cases):
        for parser in PARSERS:
            opts = tuple(case["opts"] + (["filter"] if parser == "ls" else []))
            l1.append(pline(parser, "full", 0, 0, opts, case)); m1.append((ci, parser, "full", 0, 0, opts))
    common.log("C18: %d documents, %d dry runs" % (len(cases), len(l1)))
    res1, cr1, er1, ch1 = run_parallel(l1)
    first = {}
    for (ci, parser, mode, k, j, opts), (o, v, ln) in zip(m1, res1):
        first[(ci, parser, opts)] = parse_obs(o)
    l2, m2 = plan_second(ctx, cases, first)
    common.log("C18: %d scenarios in the exhaustive pass" % len(l2))
    res2, cr2, er2, ch2 = run_parallel(l2)
    common.log("C18: parser scenarios done")
    lines, metas, res = l1 + l2, m1 + m2, res1 + res2
    hist, cls_hist, ends = {}, {}, {}
    nontrivial, swallowed, viol = 0, 0, {}
    seen = set()
    for line, meta, (o, v, ln) in zip(lines, metas, res):
        ci, parser, mode, k, j, opts = meta
        st, d = parse_obs(o)
        cat = classify(meta)
        hist[cat] = hist.get(cat, 0) + 1
        cls_hist[cases[ci]["cls"]] = cls_hist.get(cases[ci]["cls"], 0) + 1
        e = (st or "").split("@")[0].split(":")[0]
        ends[e] = ends.get(e, 0) + 1
        if d.get("allocs", 0) >= 50 and (ci, parser, mode, k, j, opts) not in seen:
            nontrivial += 1; seen.add((ci, parser, mode, k, j, opts))
        if mode == "throw" and st == "done": swallowed += 1
        bad = None
        if o.startswith("CRASH"): bad = ("crash", o[:220])
        elif o in ("NO-OUTPUT", "bad-op") or st == "bad-mode": raise common.InfraError("harness rejected %s -> %s" % (line[:80], o))
        elif v is None or not v.startswith("ok"):
            kind = re.search(r"kind=([\w-]+)", v or "")
            bad = (kind.group(1) if kind else "no-verdict", v)
        elif "FOREIGN-EXCEPTION" in (st or ""): bad = ("foreign-exception", o)
        if bad:
            rank = {"full": 0, "throw": 1, "reuse": 2}.get(mode, 3 if mode.startswith("prog") else 4)
            size = (len(cases[ci]["doc"]) + len(cases[ci]["aux"]), rank, k, j, len(opts), PARSERS.index(parser))
            # leaks of different shapes (number and sizes of the lost blocks) are kept apart so that one does not hide another
            shape = tuple(sorted(set(re.findall(r":(\d+)bytes", bad[1] or "")))[:6]) if bad[0] == "leak" else ()
            viol.setdefault((bad[0], cat, shape), [])
            viol[(bad[0], cat, shape)].append((size, line, meta, o, bad[1]))
    # one violation per allocation site (leaks) / per kind+scenario class (others), minimal witness each
    by_key = {}
    budget = 60       # diagnosis re-runs
    site_cache = {}
    diagnosed = []
    for (kind, cat, shape), lst in sorted(viol.items(), key=lambda kv: min(t[0] for t in kv[1])):
        lst.sort(key=lambda t: t[0])
        size, line, meta, o, detail = lst[0]
        ck = (kind, shape, meta[1])      # same kind, same block sizes, same parser class: diagnosed once
        if ck in site_cache:
            sites, frees = site_cache[ck]
        else:
            budget -= 1
            sites, frees = site_of(line) if budget > 0 and kind in ("leak", "double-free", "foreign-free", "wrong-manager") else ([], [])
            site_cache[ck] = (sites, frees)
        if kind != "leak": sites = frees
        # category = where the lost blocks come from (first library frame of each) / where the bad release is made
        firsts = []
        for _, fr in sites:
            if fr and short_fn(fr[0]) not in firsts: firsts.append(short_fn(fr[0]))
        sig = "+".join([firsts[0]] + sorted(firsts[1:])[:3]) if firsts else None
        diagnosed.append((kind, cat, sig, size, line, meta, o, detail, sites, len(lst)))
    # a site that loses memory even when the parse runs to completion is one category; otherwise the way the parse
    # ended is part of the category (so a new unconditional leak at a site with a known exception-only leak stays visible)
    unconditional = {(kind, sig) for kind, cat, sig, size, line, meta, *_ in diagnosed if sig and ending_of(meta[2]) == "completion"}
    for kind, cat, sig, size, line, meta, o, detail, sites, ncases in diagnosed:
        ci = meta[0]
        if not sig: key = "mem:%s:%s" % (kind, cat)
        elif (kind, sig) in unconditional: key = "mem:%s:%s" % (kind, sig)
        else: key = "mem:%s:%s:%s" % (kind, sig, ending_of(meta[2]))
        w = dict(kind=kind, scenario=cat, n_cases=ncases, line=line, parser=meta[1], mode=meta[2], k=meta[3], j=meta[4], opts=list(meta[5]),
                 doc=cases[ci]["doc"].decode("latin-1"), aux=cases[ci]["aux"].decode("latin-1"), doc_class=cases[ci]["cls"],
                 impl=o, monitor=detail, sites=[{"block": b, "frames": [short_fn(x) for x in fr]} for b, fr in sites[:4]])
        size = (ending_of(meta[2]) != "completion",) + tuple(size)     # the plainest ending is the preferred witness
        if key not in by_key or size < by_key[key][0]:
            prev = by_key.get(key)
            by_key[key] = (size, w, (prev[2] if prev else []) + [cat])
        else:
            by_key[key][2].append(cat)
    for key, (size, w, cats) in by_key.items():
        w["also_in"] = sorted(set(cats))
        ctx.violations.append({"key": key, "concrete": True,
            "what": "%s in %s (document class %s, k=%d, j=%d): the verified monitor says %s%s" % (
                w["kind"], w["scenario"], w["doc_class"], w["k"], w["j"], w["monitor"][:200],
                "; allocated at " + " < ".join(w["sites"][0]["frames"][:4]) if w["sites"] else ""),
            "replay": dict(w, op="P")})
    # LeakSanitizer: blocks that bypassed every manager
    lsan_chunks = [(ch1[cid], t) for cid, t in er1 if "LeakSanitizer" in t] + [(ch2[cid], t) for cid, t in er2 if "LeakSanitizer" in t]
    lsan = lsan_chunks
    if lsan_chunks:
        chunk_lines, text = lsan_chunks[0]
        culprit = None
        outs, _, _ = run_mem(chunk_lines, env={"HX_LSAN_EACH": "1"})
        for l, o in zip(chunk_lines, outs):
            if o.startswith("LSAN-LEAK"): culprit = l; break
        m = re.search(r"((?:Direct|Indirect) leak of .*?)(?:\n\n|\Z)", text, re.S)
        fr = re.findall(r"#\d+ 0x[0-9a-f]+ in (\S+)", m.group(1) if m else "")
        fr = [f for f in fr if not f.startswith(("operator", "malloc", "__interceptor", "xercesc_4_0::MemoryManagerImpl", "xercesc_4_0::XMemory"))]
        ctx.violations.append({"key": "lsan:%s" % (short_fn(fr[0]) if fr else "leak"), "concrete": True,
            "what": "LeakSanitizer: memory that bypassed the managers is lost: " + (m.group(1)[:600] if m else text[:600]),
            "replay": {"op": "P", "line": culprit, "lsan": text[:3000]}})
    ctx.stats["parser_scenarios"] = len(lines)
    ctx.stats["documents"] = len(cases)
    ctx.stats["scenario_histogram"] = hist
    ctx.stats["document_classes"] = cls_hist
    ctx.stats["endings"] = ends
    ctx.stats["handler_exception_swallowed"] = swallowed
    ctx.stats["trace_bytes"] = sum(ln for _, _, ln in res)
    ctx.stats["lsan_reports"] = len(lsan)
    mid = len(l1) + len(l2) // 2
    ctx.samples.append({"scenario": classify(metas[mid]), "doc": cases[metas[mid][0]]["doc"].decode("latin-1")[:200], "k": metas[mid][3], "impl": res[mid][0], "monitor": res[mid][1]})
    return len(lines), nontrivial

# ---------------------------------------------------------------------------------------------- Initialize / Terminate
def defaults():
    t = open(os.path.join(common.GEN, "DomHeap.lean")).read()
    g = lambda n: int(re.search(r"def %s : Nat := (\d+)" % n, t).group(1))
    return dict(initial=g("kInitialHeapAllocSize"), max=g("kMaxHeapAllocSize"), maxsub=g("kMaxSubAllocationSize"),
                align=g("alignment"), header=g("sizeOfHeader"), ctor=g("ctorFirstAlloc"),
                recheck="def recheckFit : Bool := true" in t, reset="def termResetsHeap : Bool := true" in t)

def gen_lifecycle(r, balanced):
    ops, d = [], 0
    n = 2 + r.below(12)
    for _ in range(n):
        c = r.below(10)
        if c < 4 and d < 5:
            arg = r.choice(["-", "-", "u1", "u2", "u3"])
            if r.chance(1, 3):
                # sizes inside the proved region only (the excluded region is the arena tier's business)
                i = r.choice([2064 + 8, 4096, 16384, 600]); ms = r.choice([40, 256, 100, 512]); ms = min(ms, i - 16)
                ops.append("H:%d.%d.%d:%s" % (i, r.choice([i, 2 * i, 524288]), ms, arg))
            else:
                ops.append("I:" + arg)
            d += 1
        elif c < 7 and d > 0:
            ops.append("T"); d -= 1
        elif c < 9:
            ops.append("W")
        elif not balanced:
            ops.append("T")        # extra Terminate
    if balanced:
        ops += ["T"] * d
        if r.chance(1, 2): ops += ["I:-", "W", "T"]
    elif r.chance(1, 2):
        ops += ["T"] * (d + 1 + r.below(2))
    return "L " + " ".join(ops)

LOCALES = ["-", "-", "en_US", "fr_FR", "de", "bogus"]
NLS = ["-", "-", "/tmp/hx-nls-a", "/tmp/hx-nls-b/msg"]

def gen_lives(r):
    """several complete lives of the library, each with its own global manager (application object or default) and
    locale / nlsHome arguments present or absent; nested Initialize calls with other arguments inside"""
    ops = []
    for _ in range(2 + r.below(3)):
        first = "I:%s:%s:%s" % (r.choice(["-", "u1", "u2", "u3"]), r.choice(LOCALES), r.choice(NLS))
        if r.chance(1, 4): first = "H:4096.8192.100:" + first[2:]
        ops.append(first); d = 1
        for _ in range(r.below(3)):
            c = r.below(3)
            if c == 0: ops.append("I:%s:%s:%s" % (r.choice(["-", "u1", "u2"]), r.choice(LOCALES), r.choice(NLS))); d += 1
            elif c == 1: ops.append("W")
            elif d > 1: ops.append("T"); d -= 1
        ops += ["T"] * d
    return "L " + " ".join(ops)

def msg_spec(line):
    """locale / nlsHome strings held by XMLMsgLoader after each operation: set by the outermost Initialize only
    (locale kept only if it looks like xx or xx_YY...), gone after the last Terminate"""
    d, cur, out = 0, ("0", "0"), []
    for op in line.split()[1:]:
        if op.startswith("D:"): continue
        if op == "T":
            if d > 0:
                d -= 1
                if d == 0: cur = ("0", "0")
        elif op != "W":
            f = op.split(":")
            a = 2 if f[0] == "H" else 1
            loc = f[a + 1] if len(f) > a + 1 else "-"
            nls = f[a + 2] if len(f) > a + 2 else "-"
            if d == 0:
                loc = "en_US" if loc == "-" else loc
                ok = len(loc) == 2 or (len(loc) > 3 and loc[2] == "_")
                cur = (loc if ok else "0", "0" if nls == "-" else nls)
            d += 1
        out.append("%s,%s;" % cur)
    return "".join(out)

def lifecycle_spec(line, dft):
    """Independent oracle: first call wins; everything is back to the process defaults after the last Terminate."""
    d, mgr, heap, out = 0, "0", dft["initial"], []
    for op in line.split()[1:]:
        if op.startswith("D:"): continue
        if op == "W":
            out.append("W:down" if d == 0 else "W:bs=%d" % heap)
        elif op == "T":
            if d > 0:
                d -= 1
                if d == 0: mgr, heap = "0", dft["initial"]
        else:
            f = op.split(":")
            if d == 0:
                a = f[2 if f[0] == "H" else 1]
                mgr = a if a != "-" else "d"
                heap = int(f[1].split(".")[0]) if f[0] == "H" else dft["initial"]
            d += 1
        out.append("m=" + mgr)
    return " ".join(out) + " end=%s del=-" % ("down" if d == 0 else "up")

def run_lifecycle(ctx):
    r = ctx.rng
    dft = defaults()
    n = 1200 if ctx.thorough() else 60
    lines = ["L I:u1 H:64.128.40:u2 W T T I:- W T", "L H:%d.%d.40:- W T I:- W T T" % (2072, 4144), "L T T I:u1 T T", "L I:- I:- I:- T T T W",
             "L I:u1 T I:u2 T I:u1 W T", "L I:u1:fr_FR:/tmp/hx-nls-a W T I:u2:-:/tmp/hx-nls-b W T I:-:de:- T",
             "L I:-:-:/tmp/hx-nls-a T I:u1:en_US:/tmp/hx-nls-b I:u2:fr_FR:- T T I:u3 T"] + \
            [gen_lifecycle(r, i % 4 != 0) if i % 2 else gen_lives(r) for i in range(n)]
    # every case starts from the process defaults (the DOM heap sizes are statics that survive Terminate)
    lines = ["L D:%d.%d.%d %s" % (dft["initial"], dft["max"], dft["maxsub"], l[2:]) for l in lines]
    model = common.run_driver(["lifecycle"], input=("\n".join(lines) + "\n").encode()).decode().split("\n")
    outs, crashes, errs = [], [], []
    chunks = [lines[i:i + 8] for i in range(0, len(lines), 8)]
    with concurrent.futures.ThreadPoolExecutor(max_workers=NPROC) as ex:
        for o, c, e in ex.map(run_mem, chunks):
            outs += o; crashes += c; errs += e
    verd = judge(outs)
    bad = {}
    first_corr = None
    for k, line in enumerate(lines):
        o = obs_of(outs[k]); sp = lifecycle_spec(line, dft)
        nobs = None
        if " N=" in o: o, nobs = o.rsplit(" N=", 1)
        outs[k] = o + " | " + (outs[k].split(" | ", 1)[1] if " | " in outs[k] else "")
        if model[k] == "bad-op": raise common.InfraError("lifecycle model rejected " + line)
        key = None
        if o.startswith("CRASH"): key, what = "lifecycle:crash", o
        elif not (verd[k] or "").startswith("ok"):
            kd = re.search(r"kind=([\w-]+)", verd[k] or "")
            key, what = "lifecycle:global-manager-trace:%s" % (kd.group(1) if kd else "no-verdict"), "the global managers' trace is rejected by the monitor: %s" % verd[k]
        elif o != sp:
            of, sf = o.split(), sp.split()
            diff = [(a, b) for a, b in zip(of, sf) if a != b]
            if len(of) == len(sf) and all(a.startswith("W:bs=") for a, b in diff):
                key, what = "lifecycle:dom-heap-sizes-survive-terminate", "DOM heap sizes of an earlier Initialize govern a later default Initialize (observed %s, a fresh process gives %s)" % diff[0]
            elif any(a.startswith("del=") for a, b in diff):
                key, what = "lifecycle:application-manager-deleted", "observed %s, expected %s" % diff[0]
            else:
                key, what = "lifecycle:state", "observed %r, expected %r" % (diff[0] if diff else (o, sp))
        elif nobs is not None and nobs != msg_spec(line):
            key, what = "lifecycle:locale-nlshome", "XMLMsgLoader locale,nlsHome after each call: observed %s, expected %s (outermost Initialize wins, nothing left after the last Terminate)" % (nobs, msg_spec(line))
        if key and (key not in bad or len(line) < len(bad[key][0])):
            bad[key] = (line, o, sp, model[k], what)
        if model[k] != o and first_corr is None:
            first_corr = (line, model[k], o)
    for key, (line, o, sp, mo, what) in bad.items():
        ctx.violations.append({"key": key, "concrete": True, "what": "Initialize/Terminate sequence %s: %s" % (" ".join(line.split()[2:]), what),
                               "replay": {"op": "L", "line": line, "impl": o, "spec": sp, "model": mo}})
    if first_corr and not bad:
        ctx.violations.append({"key": "corr:lifecycle", "concrete": False,
            "what": "correspondence Initialize/Terminate machine vs implementation no longer checks: %s model=%s impl=%s" % first_corr,
            "replay": {"correspondence": "lifecycle", "line": first_corr[0], "model": first_corr[1], "impl": first_corr[2]}})
    for t in errs:
        if "LeakSanitizer" in t:
            ctx.violations.append({"key": "lsan:lifecycle", "concrete": True, "what": "LeakSanitizer after Initialize/Terminate sequences: " + t[:500],
                                   "replay": {"op": "L", "lsan": t[:3000]}})
            break
    ctx.stats["lifecycle_sequences"] = len(lines)
    ctx.stats["lifecycle_model_agrees"] = sum(1 for k in range(len(lines)) if model[k] == obs_of(outs[k]))
    ctx.samples.append({"lifecycle": lines[7], "impl": obs_of(outs[7]), "model": model[7], "spec": lifecycle_spec(lines[7], dft)})
    return len(lines)

# ---------------------------------------------------------------------------------------------- arena
def align_down(a, n): return n // a * a
def fits(dft, i, ms): return align_down(dft["align"], ms) == 0 or align_down(dft["align"], ms) + dft["header"] <= i

def gen_arena(r, dft, inside):
    A, H = dft["align"], dft["header"]
    for _ in range(100):
        ms = r.choice([0, 5, 8, 40, 100, 256, 257, 1000, 2056, 4096])
        if inside:
            i = align_down(A, ms) + H + r.choice([0, 0, 1, 8, 50, 1000, 16384])
        else:
            i = r.choice([0, 1, H - 1, H, H + 1, 16, 64, max(0, align_down(A, ms) + H - 1), max(0, align_down(A, ms) - 1), max(1, ms // 2)])
        if fits(dft, i, ms) == inside: break
    else:
        return None
    mx = r.choice([i, 2 * i, 4 * i + 1, 524288, 0])
    ops, nalloc, setbad = [], 0, False
    for _ in range(3 + r.below(14)):
        c = r.below(10)
        if c < 7:
            n = r.choice([0, 1, 7, 8, 9, 24, 30, max(0, ms - 1), ms, ms + 1, align_down(A, ms), i // 2, i, 2 * i + 3, r.below(600)])
            ops.append("a%d" % n); nalloc += 1
        elif c < 9 and nalloc:
            ops.append("r%d" % r.below(nalloc))
        else:
            lo = align_down(A, ms) + H
            s = r.choice([lo, lo + 8, 3 * lo, ms, ms // 2]) if inside else r.choice([ms + 1, lo - 1, lo, 3 * lo])
            if s > ms and not fits(dft, s, ms): setbad = True
            ops.append("s%d" % s)
    if not any(o.startswith("a") for o in ops): ops.append("a%d" % max(1, align_down(A, ms)))
    return "%d.%d.%d" % (i, mx, ms), ",".join(ops), setbad

def run_arena(ctx):
    r = ctx.rng
    dft = defaults()
    n = 2000 if ctx.thorough() else 80
    hs = [("%d.%d.%d" % (dft["initial"], dft["max"], dft["maxsub"]), "a24,a300,a8,r1,a256,s300,a100,a2056,a0", False, True),
          ("64.128.40", "a24,a30,a100,a40", False, True), ("64.128.256", "a256", False, False),
          ("%d.%d.%d" % (dft["initial"], dft["max"], dft["maxsub"]), "s%d,a%d,a%d" % (dft["maxsub"] + 4, dft["maxsub"], dft["maxsub"]), True, True)]
    while len(hs) < n:
        inside = len(hs) % 3 != 0
        g = gen_arena(r, dft, inside)
        if g: hs.append((g[0], g[1], g[2], inside))
    # proved region (and everything, once allocate re-checks): write into the regions under ASan; outside: first without writing
    proved = [(p, o, sb, ins) for p, o, sb, ins in hs if dft["recheck"] or (ins and not sb)]
    outside = [h for h in hs if h not in proved]
    lines = ["A %s w %s" % (p, o) for p, o, sb, ins in proved] + ["A %s n %s" % (p, o) for p, o, sb, ins in outside]
    lines_w = ["A %s w %s" % (p, o) for p, o, sb, ins in outside]
    model = common.run_driver(["arena"], input=("\n".join(lines) + "\n").encode()).decode().split("\n")
    def par(ls):
        outs, crashes = [], []
        chunks = [ls[i:i + 10] for i in range(0, len(ls), 10)]
        with concurrent.futures.ThreadPoolExecutor(max_workers=NPROC) as ex:
            for o, c, e in ex.map(run_mem, chunks):
                outs += o; crashes += c
        return outs
    outs = par(lines)
    outs_w = par(lines_w) if lines_w else []
    verd = judge(outs)
    spec_in = [("%s %s" % (l.split()[1], obs_of(o))) if not o.startswith("CRASH") else "crash" for l, o in zip(lines, outs)]
    spec = common.run_driver(["arenaspec"], input=("\n".join(spec_in) + "\n").encode()).decode().split("\n")
    bad, first_corr, agree = {}, None, 0
    allh = proved + outside
    for k, line in enumerate(lines):
        p, o_, sb, ins = allh[k]
        o = obs_of(outs[k])
        in_proved = k < len(proved)
        key = None
        if o.startswith("CRASH") or spec[k] == "bad":
            asan = o if o.startswith("CRASH") else (outs_w[k - len(proved)] if not in_proved and k - len(proved) < len(outs_w) else "")
            if in_proved and not dft["recheck"]:
                key = "arena:violation-inside-proved-region"
            else:
                key = "arena:overrun:setMemoryAllocationBlockSize-below-maxsub-plus-header" if sb and fits(dft, int(p.split(".")[0]), int(p.split(".")[2])) \
                    else "arena:overrun:initial-heap-smaller-than-maxsub-plus-header"
            what = "Initialize(%s) then DOMDocument arena ops %s: %s; under ASan: %s" % (
                p.replace(".", ", "), o_, "a region handed out by allocate() is not inside a block the document owns (Spec.Arena.regionsOk = false)" if spec[k] == "bad" else "crash",
                obs_of(asan)[:200] if asan.startswith("CRASH") else "no report")
        elif spec[k] != "bad" and not spec[k].startswith("ok"):
            raise common.InfraError("arenaspec rejected %r -> %r" % (spec_in[k], spec[k]))
        elif not (verd[k] or "").startswith("ok"):
            key, what = "arena:raw-block-trace", "document's manager trace rejected: %s" % verd[k]
        if key and (key not in bad or len(line) < len(bad[key][0])):
            bad[key] = (line, o, spec[k], model[k], what)
        if in_proved:
            if model[k] == o: agree += 1
            elif first_corr is None and not key: first_corr = (line, model[k], o)
    for key, (line, o, sp, mo, what) in bad.items():
        ctx.violations.append({"key": key, "concrete": True, "what": what,
                               "replay": {"op": "A", "line": line, "impl": o, "spec": sp, "model": mo}})
    if first_corr:
        ctx.violations.append({"key": "corr:arena", "concrete": False,
            "what": "correspondence arena model vs DOMDocumentImpl no longer checks: %s model=%s impl=%s" % first_corr,
            "replay": {"correspondence": "arena", "line": first_corr[0], "model": first_corr[1], "impl": first_corr[2]}})
    ctx.stats["arena_histories"] = len(lines)
    ctx.stats["arena_in_proved_region"] = len(proved)
    ctx.stats["arena_outside_proved_region"] = len(outside)
    ctx.stats["arena_model_agrees_in_region"] = agree
    ctx.stats["arena_outside_bad"] = sum(1 for k in range(len(proved), len(lines)) if spec[k] == "bad" or outs[k].startswith("CRASH"))
    ctx.samples.append({"arena": lines[1], "impl": obs_of(outs[1]), "model": model[1], "spec": spec[1]})
    return len(lines) + len(lines_w)

# ---------------------------------------------------------------------------------------------- entry points
def correspondence(ctx):
    tiers = os.environ.get("VERIF_C18_TIERS", "parsers,lifecycle,arena").split(",")   # all three unless a developer narrows it
    a, nontrivial = run_parsers(ctx) if "parsers" in tiers else (0, 0)
    b = run_lifecycle(ctx) if "lifecycle" in tiers else 0
    c = run_arena(ctx) if "arena" in tiers else 0
    ctx.stats["evaluations"] = a + b + c
    ctx.stats["distinct_nontrivial"] = nontrivial + b + c

def search(ctx, broken):
    # every recorded run is already judged by the verified monitor / the Specs; a broken theorem or translator tie adds
    # no further input to try (a changed allocate() shape shows up in the arena tier, judged by Spec.Arena).
    return None

def replay(ctx, path):
    rp = json.load(open(path))["replay"]
    line = rp.get("line")
    if not line:
        print(json.dumps(rp, indent=1)); return 0
    p = common.run_harness("hx_mem", input=(line + "\n").encode(), env=dict(ENV, HX_BT="1"))
    out = p.stdout.decode(errors="replace").strip()
    print("case   :", line[:300])
    print("impl   :", obs_of(out))
    if " | " in out or out.endswith("|"):
        print("monitor:", common.run_driver(["ledger"], input=(out + "\n").encode()).decode().strip())
    if rp.get("op") == "L":
        print("model  :", common.run_driver(["lifecycle"], input=(line + "\n").encode()).decode().strip())
        print("spec   :", lifecycle_spec(line, defaults()))
    if rp.get("op") == "A":
        print("model  :", common.run_driver(["arena"], input=(line + "\n").encode()).decode().strip())
        print("spec   :", common.run_driver(["arenaspec"], input=("%s %s\n" % (line.split()[1], obs_of(out))).encode()).decode().strip())
    for l in p.stderr.decode(errors="replace").split("\n"):
        if l.startswith("LIVE-AT-END") or "ERROR: AddressSanitizer" in l or "SUMMARY" in l:
            print("stderr :", l[:400])
    return 0
