"""C08 — XML Schema structure validation accepts exactly the schema-valid instances.

Theorems: XV.Props.C08 (pMatch_iff: the executable judge = the declarative particle language, ranges and all-groups
included; expand_preserves / convert_preserves for the code-shaped ComplexTypeInfo::expandContentModel /
convertContentSpecTree; expand_dfa_iff (chain to the C07 DFA model); all_iff_permutation for AllContentModel;
wildcard_spec; substitution_closure_spec; attr_uses_iff; counting_eq_unrolled (DFA with counting states = particle
language, for every Particle-Correct tree without all-groups, Loop nodes included) and its _partial predecessor.

Correspondence, content-model tier: schema-style ContentSpecNode trees (element / wildcard leaves, nested sequence /
choice / all groups, occurrence ranges on leaves and groups) are put into a REAL ComplexTypeInfo; the real
getContentModel() (convertContentSpecTree, expandContentModel, model selection, DFA build incl. counting states) and
validateContent are run on EVERY child sequence of length <= 4 (5 thorough) over the names of the model plus foreign
names, and compared with (a) the executable Spec `pMatch` on the declared particle (the judge) and (b) the code-shaped
Lean model (route + verdicts).  Only particles satisfying Unique Particle Attribution are judged (decided here on the
unrolled Glushkov automaton: a decision table for the generated families, not a theorem).

Substitution-group tier: SubstitutionGroupComparator::isEquivalentTo is driven directly (real SchemaGrammars, global
SchemaElementDecls, ComplexTypeInfo base chains with derivedBy / block sets, substitution-group heads in a real
GrammarResolver) on a systematic family (chain T0 <- T1 <- T2, extension / restriction per step, block on the head
element, the head's type, the intermediate type and the member's own type: all combinations) and on random declaration
environments; EVERY ordered pair (member, exemplar) is judged by the Spec `substitutable` (Structures 3.3.6) and compared
with the code-shaped Lean model `isEquivalentTo` (theorem substitution_closure_spec relates the two).

Document tier: typed component models (global/local elements, named/anonymous complex types, sequence/choice/all,
ranges, wildcards, substitution groups, abstract/block, extension/restriction + xsi:type, xsi:nil, attribute uses +
anyAttribute, mixed/empty/simple content, two namespaces with import) are rendered to XSD text and described
abstractly to the executable Lean Spec `violations`; instances (exhaustive child sequences, valid-by-construction,
single-rule mutations) are validated by the real library under {IGXMLScanner, SGXMLScanner} x {XercesDOMParser,
SAX2XMLReader} x {full checking off, on}; the Spec judges the verdict, the PSVI type names, defaulted attributes and
element default text.  Schemas violating a component constraint must be reported at load time."""
import json, threading
import common

PID = "C08"
GEN = []
LEAN_MODULE = "XV.Props.C08"
THEOREMS = ["XV.Props.C08." + t for t in (
    "nullable_iff", "deriv_step", "pMatch_iff", "expand_preserves", "convert_preserves", "expand_dfa_iff",
    "counting_eq_unrolled_partial", "counting_repaired_witness", "counting_eq_unrolled",
    "all_iff_permutation", "all_ctor", "wildcard_spec", "substitution_closure_spec", "attr_spec_iff",
    "attr_uses_iff", "validElem_iff_partial", "validDoc_root")]
RULE = ("content-model tier: a curated list, two-leaf sequences/choices and one-/two-leaf groups with a group range over the "
        "occurrence table (quick: a seed-dependent half of the table per axis, thorough: all of it), all-groups, and random "
        "particles (depth <= 3, 1-3 children per group, element leaves in two namespaces + no namespace, wildcards "
        "##any/##other/one namespace with strict/lax/skip, occurrence ranges 0..1, 0..unbounded, 1..unbounded, n..n, n..m, "
        "n..unbounded on leaves and groups); for each particle EVERY child sequence of length <= 4 (5 thorough) over its names "
        "plus foreign names; evaluations = (particle, sequence) pairs; distinct_nontrivial = UPA-valid particles with both "
        "accepted and rejected sequences. Substitution-group tier: evaluations += ordered (member, exemplar) pairs of the "
        "systematic block/derivation family (quick: a seed-dependent quarter) and of random declaration environments. "
        "Document tier: see module docstring (incl. the substitution-chain family: members typed 1-3 derivation steps below the "
        "head's type, block / blockDefault on every level, every member in the head's place); "
        "evaluations += instance documents x 8 configurations")
ASSUMPTIONS = ["TraverseSchema (schema document -> components) is not modelled: the generator's component model and its "
               "printer renderXsd are trusted to agree",
               "UPA / particle-derivation checks: decision table for the generated families (_partial), not a theorem",
               "simple types are opaque (xs:string family); datatypes are property C09",
               "children handed to validateContent are element QNames; URI ids come from a real scanner's string pool"]
TRUSTED = ["XV.Spec.Particle and XV.Spec.XsdValid (XSD 1.0 Structures rules as transcribed)",
           "Python component model + renderXsd (schema text) and its abstract description for the Lean Spec"]

UBSAN_BENIGN = ("ElemStack.cpp:496", "NamespaceScope.cpp:274")

# =========================================================================================== content-model tier
OCCS = [(1, 1), (0, 1), (0, None), (1, None), (2, 2), (2, 3), (0, 2), (3, None), (1, 2), (0, 3), (2, None), (1, 3), (3, 3), (2, 4)]
NSOF = {"e": 1, "f": 2, "g": 0, "h": 3}
NSCODE = {"a": 1, "b": 2, "c": 3, "g": 0}

def occ_s(mn, mx):
    if (mn, mx) == (1, 1):
        return ""
    return "{%d,%s}" % (mn, "u" if mx is None else mx)

def El(name, mn=1, mx=1): return ("E", name, mn, mx)
def Wd(kind, ns, pc, mn=1, mx=1): return ("W", kind, ns, pc, mn, mx)
def Gr(t, kids, mn=1, mx=1): return ("G", t, list(kids), mn, mx)
def Al(members, mn=1): return ("A", list(members), mn)

def tok(p):
    """prefix token of a particle AST (n-ary groups become left-nested binary nodes, as traverseChoiceSequence builds them)"""
    k = p[0]
    if k == "E":
        return occ_s(p[2], p[3]) + p[1]
    if k == "W":
        return occ_s(p[4], p[5]) + "w" + p[1] + (p[2] if p[1] != "a" else "") + p[3]
    if k == "G":
        t, kids = p[1], p[2]
        if len(kids) == 1:
            return occ_s(p[3], p[4]) + t.upper() + tok(kids[0])
        s = tok(kids[0])
        for j, c in enumerate(kids[1:]):
            last = j == len(kids) - 2
            s = (occ_s(p[3], p[4]) if last else "") + t + s + tok(c)
        return s
    if k == "A":
        ms = [occ_s(0 if o else 1, 1) + n for n, o in p[1]]
        if len(ms) == 1:
            return occ_s(p[2], 1) + "L" + ms[0]
        s = ms[0]
        for j, c in enumerate(ms[1:]):
            last = j == len(ms) - 2
            s = (occ_s(p[2], 1) if last else "") + "a" + s + c
        return s
    raise ValueError(p)

def text(p):
    """readable schema-like rendering for reports"""
    k = p[0]
    o = lambda mn, mx: "" if (mn, mx) == (1, 1) else "{%d,%s}" % (mn, "unbounded" if mx is None else mx)
    if k == "E": return p[1] + o(p[2], p[3])
    if k == "W":
        c = {"a": "##any", "o": "##other(not %s)" % p[2], "n": "ns(%s)" % p[2]}[p[1]]
        return "any[%s,%s]" % (c, {"s": "strict", "l": "lax", "k": "skip"}[p[3]]) + o(p[4], p[5])
    if k == "G": return ("sequence" if p[1] == "s" else "choice") + "(" + ", ".join(text(c) for c in p[2]) + ")" + o(p[3], p[4])
    return "all(" + ", ".join(n + ("?" if op else "") for n, op in p[1]) + ")" + o(p[2], 1)

# ---- UPA decision on the unrolled Glushkov automaton (strict: two different particles must never compete for a child)
def wild_allows(kind, ns, n):
    if kind == "a": return True
    if kind == "o": return n != 0 and n != NSCODE[ns]
    return n == NSCODE[ns]

def overlap(a, b):
    if a[0] == "E" and b[0] == "E":
        return a[1] == b[1]
    if a[0] == "E":
        return wild_allows(b[1], b[2], NSOF[a[1][0]])
    if b[0] == "E":
        return wild_allows(a[1], a[2], NSOF[b[1][0]])
    ka, kb = a[1], b[1]
    if ka == "a" or kb == "a": return True
    if ka == "o" and kb == "o": return True
    if ka == "n" and kb == "n": return a[2] == b[2]
    n = a[2] if ka == "n" else b[2]
    o = b[2] if ka == "n" else a[2]
    return NSCODE[n] != 0 and n != o

class Glu:
    def __init__(self):
        self.pos = []          # position -> (orig leaf id, leaf term)
        self.follow = []
    def leaf(self, oid, term):
        self.pos.append((oid, term)); self.follow.append(set())
        i = len(self.pos) - 1
        return (False, {i}, {i})
    def cat(self, a, b):
        for l in a[2]:
            self.follow[l] |= b[1]
        return (a[0] and b[0], a[1] | b[1] if a[0] else set(a[1]), b[2] | a[2] if b[0] else set(b[2]))
    def alt(self, a, b):
        return (a[0] or b[0], a[1] | b[1], a[2] | b[2])
    def opt(self, a):
        return (True, a[1], a[2])
    def star(self, a):
        for l in a[2]:
            self.follow[l] |= a[1]
        return (True, a[1], a[2])
EPS = (True, set(), set())

def glushkov(p, g, ids):
    """unroll occurrence ranges; `ids` numbers the ORIGINAL leaves"""
    def rep(build, mn, mx):
        r = EPS
        for _ in range(mn):
            r = g.cat(r, build())
        if mx is None:
            if mn == 0:
                r = g.cat(r, g.star(build()))
            else:
                # the last mandatory copy loops: rebuild as (mn-1 copies)(x+) ; x+ = x x*
                r = g.cat(r, g.star(build()))
        else:
            # optional tail nested: (x (x (x)?)?)?  keeps copies of one particle from looking ambiguous
            tail = None
            for _ in range(mx - mn):
                b = build()
                tail = g.opt(b if tail is None else g.cat(b, tail))
            if tail is not None:
                r = g.cat(r, tail)
        return r
    k = p[0]
    if k in ("E", "W"):
        oid = ids[0]; ids[0] += 1
        mn, mx = (p[2], p[3]) if k == "E" else (p[4], p[5])
        return rep(lambda: g.leaf(oid, p), mn, mx)
    if k == "G":
        base = ids[0]
        def build():
            ids[0] = base
            r = None
            for c in p[2]:
                x = glushkov(c, g, ids)
                r = x if r is None else (g.cat(r, x) if p[1] == "s" else g.alt(r, x))
            return r
        return rep(build, p[3], p[4])
    raise ValueError(p)

def upa_ok(p):
    """True iff no two different particles can compete for the same child in any state (strict UPA)"""
    if p[0] == "A":
        names = [n for n, _ in p[1]]
        return len(set(names)) == len(names)
    g = Glu()
    r = glushkov(p, g, [0])
    sets = [r[1]] + g.follow
    for s in sets:
        s = sorted(s)
        for i in range(len(s)):
            for j in range(i + 1, len(s)):
                a, b = g.pos[s[i]], g.pos[s[j]]
                if a[0] != b[0] and overlap(a[1], b[1]):
                    return False
    return True

# ---- generation
def leaves_of(p, acc):
    if p[0] in ("E", "W"): acc.append(p)
    elif p[0] == "G":
        for c in p[2]: leaves_of(c, acc)
    else:
        for n, _ in p[1]: acc.append(("E", n, 1, 1))
    return acc

def alphabet(p, thorough):
    ls = leaves_of(p, [])
    names = []
    for l in ls:
        if l[0] == "E" and l[1] not in names:
            names.append(l[1])
    has_w = any(l[0] == "W" for l in ls)
    extra = ["f9", "g9", "e9", "h9"] if has_w else ["f9"]
    for x in extra:
        if len(names) < 5 and x not in names:
            names.append(x)
    return names

def rand_leaf(r):
    c = r.below(100)
    if c < 62: return El("e%d" % r.below(3), *r.choice(OCCS) if r.chance(1, 2) else (1, 1))
    if c < 72: return El(r.choice(["f0", "g0"]), *r.choice(OCCS) if r.chance(1, 2) else (1, 1))
    kind = r.choice(["a", "o", "o", "n", "n"])
    ns = r.choice(["a", "b", "g"])
    return Wd(kind, ns, r.choice(["s", "l", "k"]), *(r.choice(OCCS) if r.chance(1, 2) else (1, 1)))

def rand_particle(r, depth):
    if depth == 0 or r.below(5) == 0:
        return rand_leaf(r)
    n = r.choice([1, 2, 2, 2, 3])
    occ = r.choice(OCCS) if r.chance(2, 5) else (1, 1)
    return Gr(r.choice(["s", "c"]), [rand_particle(r, depth - 1) for _ in range(n)], *occ)

def rand_all(r):
    n = 1 + r.below(4)
    names = ["e0", "e1", "e2", "f0", "g0"][:]
    ms = []
    for _ in range(n):
        nm = names.pop(r.below(len(names)))
        ms.append((nm, r.chance(1, 2)))
    return Al(ms, r.choice([1, 1, 0]))

CURATED = [
    Gr("s", [El("e0", 2, 2), El("e1"), El("e0", 3, 3)]),                       # the same name under two counters
    Gr("s", [El("e0", 2, 3), El("e1", 0, 1), El("e0", 1, 2)]),
    Gr("s", [El("e0", 2, 2), Wd("a", "a", "k")]),
    Gr("s", [El("e0", 3, 3), El("e0")]),
    Gr("s", [El("e0", 2, 2), El("e1", 2, 2)]),
    Gr("s", [El("e0", 2, 4), El("e1", 0, 2), El("e2", 3, None)]),
    Gr("c", [El("e0", 2, 3), El("e1", 2, None)]),
    Gr("s", [Gr("c", [El("e0"), El("e1")], 2, 3)]),
    Gr("s", [Gr("s", [El("e0"), El("e1", 0, 1)], 0, 2), El("e2")]),
    Gr("s", [Gr("s", [El("e0"), El("e1")], 2, None)]),
    Gr("s", [El("e0", 0, 2)]), Gr("s", [El("e0", 2, None)]), Gr("c", [El("e0", 3, 3)]),
    Gr("s", [El("e0")], 2, 3), Gr("c", [El("e0")], 0, 2), Gr("s", [Wd("o", "a", "l")], 2, 2),
    Gr("s", [El("e0"), Wd("o", "a", "s", 0, None)]),
    Gr("s", [Wd("n", "b", "k", 1, 2), El("e0")]),
    Gr("s", [Wd("o", "g", "l", 0, 2), El("g0")]),
    Gr("c", [Wd("n", "a", "k"), Wd("n", "g", "k")], 0, None),
    Gr("s", [El("e0", 2, 2), Wd("o", "a", "k", 2, 2), El("e0", 2, 2)]),
    Gr("s", [El("e0", 2, 2), El("f0", 2, 2), El("e0", 1, 2)]),
    Al([("e0", False), ("e1", True), ("e2", False)]), Al([("e0", True), ("e1", True)], 0), Al([("e0", False)], 0),
    Al([("e0", False), ("f0", False), ("g0", True), ("e1", True)]),
]

def gen_particles(ctx):
    r = ctx.rng
    th = ctx.thorough()
    ps = list(CURATED)
    # systematic grids: the quick tier takes a seed-dependent half of the occurrence table per axis (every pair of the
    # table is met over a few seeds), the thorough tier the whole table
    def sub(n):
        if th: return OCCS[:n]
        k = r.below(2)
        return [o for i, o in enumerate(OCCS[:n]) if i < 4 or i % 2 == k]
    A, B = sub(14), sub(14)
    for t in "sc":
        for oa in A:
            for ob in B:
                ps.append(Gr(t, [El("e0", *oa), El("e1", *ob)]))
        for oa in A:
            for og in sub(8):
                ps.append(Gr(t, [El("e0", *oa)], *og))
                ps.append(Gr(t, [El("e0", *oa), El("e1")], *og))
    for oa in A:
        for ob in sub(10):
            ps.append(Gr("s", [El("e0", *oa), El("e1"), El("e0", *ob)]))
            ps.append(Gr("s", [El("e0", *oa), Wd("o", "a", "k", *ob)]))
    for _ in range(9000 if th else 420):
        ps.append(rand_particle(r, 1 + r.below(3)))
    for _ in range(600 if th else 60):
        ps.append(rand_all(r))
    seen, out = set(), []
    for p in ps:
        t = tok(p)
        if t not in seen and len(t) < 400:
            seen.add(t); out.append(p)
    return out

_seq_cache = {}
def dfs_seqs(nsyms, maxlen):
    key = (nsyms, maxlen)
    if key not in _seq_cache:
        out = []
        def go(pre, left):
            out.append(tuple(pre))
            if left:
                for s in range(nsyms):
                    pre.append(s); go(pre, left - 1); pre.pop()
        go([], maxlen)
        _seq_cache[key] = out
    return _seq_cache[key]

def shard_run(fn, lines, nshard):
    """run fn(list of lines) -> list of output lines on nshard slices in parallel threads"""
    n = len(lines)
    if n == 0:
        return []
    nshard = max(1, min(nshard, n))
    step = (n + nshard - 1) // nshard
    res = [None] * nshard
    def work(k):
        res[k] = fn(lines[k * step:(k + 1) * step])
    ths = [threading.Thread(target=work, args=(k,)) for k in range(nshard)]
    for t in ths: t.start()
    for t in ths: t.join()
    out = []
    for k in range(nshard):
        if res[k] is None:
            raise common.InfraError("shard failed")
        out += res[k]
    return out

def drv(area):
    def f(lines):
        o = common.run_driver([area], input=("\n".join(lines) + "\n").encode()).decode(errors="replace").split("\n")
        if o and o[-1] == "": o.pop()
        if len(o) != len(lines):
            raise common.InfraError("xvdriver %s: %d lines for %d cases" % (area, len(o), len(lines)))
        return o
    return f

_stderr = []
def impl(lines):
    out, crashes = common.run_lines_resilient("hx_xsd", lines, timeout=3000)
    for c in crashes:
        _stderr.append(c)
    return out

def cm_run(lines, want_model=True):
    common.build_harness("hx_xsd")
    res = {}
    def t_m(): res["m"] = shard_run(drv("xsdcm"), lines, 4) if want_model else None
    def t_s(): res["s"] = shard_run(drv("xsdcmspec"), lines, 4)
    def t_i(): res["i"] = shard_run(impl, lines, 6)
    ths = [threading.Thread(target=f) for f in (t_m, t_s, t_i)]
    for t in ths: t.start()
    for t in ths: t.join()
    if "s" not in res or "i" not in res or "m" not in res:
        raise common.InfraError("content-model tier run failed")
    return res["m"], res["i"], res["s"]

def cm_judge(impl_line, sp):
    """list of (category, seq index, impl char, spec char)"""
    f = impl_line.split()
    if len(f) != 2 or len(f[1]) != len(sp):
        return [("cm:no-verdict", 0, impl_line[:60], "")]
    route, verd = f
    bad = []
    for k in range(len(sp)):
        a = verd[k] == "."
        if verd[k] == "x":
            bad.append(("cm:%s:exception" % route, k, "x", sp[k]))
        elif a != (sp[k] == "1"):
            bad.append(("cm:%s:%s" % (route, "accepts-invalid" if a else "rejects-valid"), k, verd[k], sp[k]))
    return bad

def repeated_leaf(p):
    """does an element name / wildcard term occur in two leaves of the particle (element map entries are per term)"""
    ls = [(l[0], l[1]) if l[0] == "E" else l[:4] for l in leaves_of(p, [])]
    return len(set(ls)) != len(ls)

def cm_add(ctx, p, alpha, maxlen, bad, origin):
    by = {}
    seqs = dfs_seqs(len(alpha), maxlen)
    rep = repeated_leaf(p)
    for cat, k, ic, sc in bad:
        if rep and cat.startswith("cm:dfa:"):
            cat = "cm:dfa:repeated-leaf:" + cat[7:]
        seq = seqs[k] if k < len(seqs) else ()
        if cat not in by or len(seq) < len(by[cat][0]):
            by[cat] = (seq, ic, sc)
    for cat, (seq, ic, sc) in by.items():
        names = [alpha[s] for s in seq]
        ctx.violations.append({
            "key": cat, "concrete": True,
            "what": "content model %s (UPA-valid): children [%s] %s by the content model ComplexTypeInfo::getContentModel() built, "
                    "but the Spec (pMatch on the declared particle) says %s" % (
                        text(p), " ".join(names),
                        "raise an exception" if ic == "x" else ("are accepted" if ic == "." else "are rejected (index %s)" % ic),
                        "valid" if sc == "1" else "not valid"),
            "replay": {"tier": "cm", "spec": tok(p), "schema": text(p), "children": ",".join(names) or "-", "origin": origin}})

def cm_lines(ctx, ps):
    maxlen = 5 if ctx.thorough() else 4
    lines, alphas = [], []
    for p in ps:
        al = alphabet(p, ctx.thorough())
        alphas.append(al)
        lines.append("A %s %s %d" % (tok(p), ",".join(al), maxlen))
    return lines, alphas, maxlen

def norm_impl(line):
    f = line.split()
    if len(f) != 2: return line
    return f[0] + " " + "".join("." if c == "." else ("x" if c == "x" else "!") for c in f[1])

def cm_correspondence(ctx):
    ps = gen_particles(ctx)
    lines, alphas, maxlen = cm_lines(ctx, ps)
    m, i, sp = cm_run(lines)
    evals = nontrivial = nupa = nbad = ndiff = 0
    routes = {}
    first_diff = None
    for k, p in enumerate(ps):
        ok = upa_ok(p)
        evals += len(sp[k])
        rt = i[k].split()[0] if i[k] else "?"
        routes[rt] = routes.get(rt, 0) + 1
        # the code-shaped model (conversion, selection, all-model, DFA with counting states) is compared on EVERY
        # particle, UPA-valid or not
        if m[k] != norm_impl(i[k]) and not i[k].startswith("CRASH"):
            ndiff += 1
            if first_diff is None: first_diff = k
        if not ok:
            if i[k].startswith("CRASH"):
                ctx.violations.append({"key": "cm:crash", "concrete": True,
                                       "what": "content model %s: harness died: %s" % (text(p), i[k][:200]),
                                       "replay": {"tier": "cm", "spec": tok(p), "children": "-", "line": lines[k]}})
            continue
        nupa += 1
        if "1" in sp[k] and "0" in sp[k]:
            nontrivial += 1
        bad = cm_judge(i[k], sp[k])
        if bad:
            nbad += len(bad)
            cm_add(ctx, p, alphas[k], maxlen, bad, "correspondence")
    ctx.stats["evaluations"] = evals
    ctx.stats["distinct_nontrivial"] = nontrivial
    ctx.stats["cm_particles"] = len(ps)
    ctx.stats["cm_particles_upa_valid"] = nupa
    ctx.stats["cm_routes"] = routes
    ctx.stats["cm_spec_contradictions"] = nbad
    ctx.stats["cm_model_disagreements"] = ndiff
    ctx.stats["exhaustive"] = True
    for k in (0, 7, 30, 600, len(ps) - 1):
        if k < len(ps):
            ctx.samples.append({"case": lines[k][:160], "schema": text(ps[k])[:160], "upa": upa_ok(ps[k]),
                                "model": m[k][:70], "impl": i[k][:70], "spec": sp[k][:60]})
    if ndiff:
        k = first_diff
        # is there a Spec-judged concrete violation on a particle where the model drifted?  otherwise: correspondence only
        ctx.violations.append({"key": "corr:xsdcm", "concrete": False,
            "what": "correspondence xsdcm (code-shaped model of convertContentSpecTree / expandContentModel / model selection / "
                    "AllContentModel / DFAContentModel with counting states vs the library) no longer checks (%d particles), first: "
                    "%s model=%s impl=%s" % (ndiff, text(ps[k]), m[k][:60], i[k][:60]),
            "replay": {"tier": "cm", "correspondence": "xsdcm", "spec": tok(ps[k]), "children": "-"}})

# =========================================================================================== substitution-group tier
# SubstitutionGroupComparator::isEquivalentTo driven directly (harness line Q: real SchemaGrammars / SchemaElementDecls /
# ComplexTypeInfo chains in a real GrammarResolver) on generated declaration environments, EVERY ordered pair
# (member, exemplar) of each; judged by the Spec `substitutable` (Structures 3.3.6), and compared with the code-shaped
# Lean model `isEquivalentTo` (which type's block set is collected at which step of the derivation walk).
def sg_line(types, elems):
    w = ["Q", str(len(types))]
    for base, deriv, blk in types:
        w.append("%s:%s:%d%d" % ("-" if base is None else base, deriv, blk[0], blk[1]))
    w.append(str(len(elems)))
    for ns, t, head, blk in elems:
        w.append("%d:%d:%s:%d%d%d" % (ns, t, "-" if head is None else head, blk[0], blk[1], blk[2]))
    return " ".join(w)

def sg_text(types, elems):
    def b(names, blk):
        s = " ".join(n for n, x in zip(names, blk) if x)
        return ' block="%s"' % s if s else ""
    out = []
    for i, (base, deriv, blk) in enumerate(types):
        out.append("complexType T%d%s%s" % (i, "" if base is None else " = %s of T%d" % ("extension" if deriv == "e" else "restriction", base),
                                           b(("extension", "restriction"), blk)))
    for k, (ns, t, head, blk) in enumerate(elems):
        out.append("element %s:q%d type=T%d%s%s" % ("ab"[ns - 1], k, t, "" if head is None else " substitutionGroup=q%d" % head,
                                                  b(("substitution", "extension", "restriction"), blk)))
    return "; ".join(out)

def sg_systematic():
    """the chain T0 <- T1 <- T2 (each step extension or restriction), head q0:T0, members q1:T1 and q2:T2 (q2 affiliated
       to q0 or to q1), block (extension, restriction) on T0, T1, T2 and on the head: every combination"""
    out = []
    blks = [(0, 0), (1, 0), (0, 1), (1, 1)]
    for d1 in "er":
        for d2 in "er":
            for b0 in blks:
                for b1 in blks:
                    for b2 in blks:
                        for bh in blks:
                            for via in (0, 1):
                                types = [(None, "r", b0), (0, d1, b1), (1, d2, b2)]
                                elems = [(1, 0, None, (0, bh[0], bh[1])), (1, 1, 0, (0, 0, 0)), (1, 2, via, (0, 0, 0))]
                                out.append((types, elems))
    return out

def sg_small():
    """one derivation step: head q0:T0, member q1:T1 = extension / restriction of T0; block on T0, T1, the head: all of them"""
    blks = [(0, 0), (1, 0), (0, 1), (1, 1)]
    return [([(None, "r", b0), (0, d1, b1)], [(1, 0, None, (0, bh[0], bh[1])), (1, 1, 0, (0, 0, 0))])
            for d1 in "er" for b0 in blks for b1 in blks for bh in blks]

def sg_random(r):
    nT = 1 + r.below(5)
    types = []
    for i in range(nT):
        base = None if i == 0 else (i - 1 if r.chance(2, 3) else (r.below(i) if r.chance(4, 5) else None))
        types.append((base, r.choice("er"), (1 if r.chance(1, 4) else 0, 1 if r.chance(1, 4) else 0)))
    nE = 2 + r.below(5)
    elems = []
    for k in range(nE):
        head = None if k == 0 else (r.below(k) if r.chance(4, 5) else None)
        t = r.below(nT)
        if head is not None and r.chance(3, 4):
            # a type at or below the head's type (what a valid schema requires); otherwise unrelated (must be refused)
            below = [i for i in range(nT) if sg_reaches(types, i, elems[head][1])]
            t = r.choice(below)
        elems.append((2 if r.chance(1, 6) else 1, t, head,
                      (1 if r.chance(1, 8) else 0, 1 if r.chance(1, 4) else 0, 1 if r.chance(1, 4) else 0)))
    return types, elems

def sg_reaches(types, t, target):
    while t is not None:
        if t == target: return True
        t = types[t][0]
    return False

def sg_correspondence(ctx):
    r = ctx.rng
    envs = sg_systematic()
    if not ctx.thorough():
        k0 = r.below(4)
        envs = envs[k0::4]
    envs = sg_small() + envs
    envs += [sg_random(r) for _ in range(20000 if ctx.thorough() else 1500)]
    lines = [sg_line(t, e) for t, e in envs]
    common.build_harness("hx_xsd")
    res = {}
    def t_m(): res["m"] = shard_run(drv("xsdsg"), lines, 2)
    def t_i(): res["i"] = shard_run(impl, lines, 4)
    ths = [threading.Thread(target=f) for f in (t_m, t_i)]
    for t in ths: t.start()
    for t in ths: t.join()
    if "m" not in res or "i" not in res:
        raise common.InfraError("substitution-group tier run failed")
    by = {}
    pairs = yes = blocked_by_type = ndiff = 0
    first_diff = None
    for (types, elems), line, mo, io in zip(envs, lines, res["m"], res["i"]):
        f = mo.split()
        n = len(elems)
        if len(f) != 2 or len(f[0]) != n * n or len(f[1]) != n * n:
            raise common.InfraError("xvdriver xsdsg: " + mo[:120])
        model, spec = f
        if len(io) != n * n:
            key = "sg:no-verdict"
            if key not in by: by[key] = (len(line) * 100, "isEquivalentTo: harness output %s for %s" % (io[:80], sg_text(types, elems)), line, None)
            continue
        if model != io:
            ndiff += 1
            if first_diff is None: first_diff = (types, elems, line, model, io)
        for d in range(n):
            for c in range(n):
                k = d * n + c
                pairs += 1
                if spec[k] == "1" and d != c: yes += 1
                if io[k] == spec[k]:
                    continue
                key = "sg:isEquivalentTo:" + ("exception" if io[k] == "x" else
                                              ("accepts-not-substitutable" if io[k] == "1" else "rejects-substitutable"))
                what = ("SubstitutionGroupComparator::isEquivalentTo(q%d, q%d) returns %s, Structures 3.3.6 (Spec `substitutable`): %s. "
                        "Declarations: %s" % (d, c, {"1": "true", "0": "false", "x": "an exception"}[io[k]],
                                              "substitutable" if spec[k] == "1" else "NOT substitutable", sg_text(types, elems)))
                size = len(line) * 100 + line.count("1")           # fewest declarations, then fewest block bits / foreign names
                if key not in by or size < by[key][0]:
                    by[key] = (size, what, line, (d, c))
    for key, (_, what, line, pair) in by.items():
        ctx.violations.append({"key": key, "concrete": True, "what": what,
                               "replay": {"tier": "sg", "line": line, "pair": pair, "origin": "correspondence"}})
    if ndiff and by:
        ctx.notes.append("correspondence xsdsg: the code-shaped model of isEquivalentTo differs from the library on %d environments "
                         "(explained by the concrete sg: violation(s))" % ndiff)
    elif ndiff:
        types, elems, line, model, io = first_diff
        ctx.violations.append({"key": "corr:xsdsg", "concrete": False,
            "what": "correspondence xsdsg (code-shaped model of SubstitutionGroupComparator::isEquivalentTo: head walk, type-derivation "
                    "walk collecting derivation methods and block sets) no longer checks (%d environments), first: %s model=%s impl=%s" % (
                        ndiff, sg_text(types, elems), model, io),
            "replay": {"tier": "sg", "correspondence": "xsdsg", "line": line}})
    ctx.stats["sg"] = dict(environments=len(envs), pairs=pairs, substitutable_pairs=yes, model_disagreements=ndiff)
    ctx.stats["evaluations"] = ctx.stats.get("evaluations", 0) + pairs
    ctx.samples.append({"case": lines[0], "declarations": sg_text(*envs[0])[:300], "model_spec": res["m"][0], "impl": res["i"][0]})

# =========================================================================================== entry points
def correspondence(ctx):
    cm_correspondence(ctx)
    sg_correspondence(ctx)
    doc_correspondence(ctx)
    errs = [c for c in _stderr]
    for pos, line, summ in errs[:3]:
        if not any(b in summ for b in UBSAN_BENIGN):
            ctx.violations.append({"key": "xsd:crash", "concrete": True,
                                   "what": "hx_xsd died on: %s (%s)" % (line[:200], summ[:200]),
                                   "replay": {"tier": "raw", "line": line}})

_search_done = {}
def search(ctx, broken):
    if "done" in _search_done:
        return None
    _search_done["done"] = True
    r = ctx.rng
    ps = gen_particles(ctx)
    if not ctx.thorough():
        for _ in range(3000):
            ps.append(rand_particle(r, 1 + r.below(3)))
    ps = [p for p in ps if upa_ok(p)]
    lines, alphas, maxlen = cm_lines(ctx, ps)
    _, i, sp = cm_run(lines, want_model=False)
    before = len(ctx.violations)
    for k, p in enumerate(ps):
        bad = cm_judge(i[k], sp[k])
        if bad:
            cm_add(ctx, p, alphas[k], maxlen, bad, "search after broken %s %s" % (broken["kind"], broken["name"]))
            break
    if len(ctx.violations) > before:
        return ctx.violations.pop()
    sg_correspondence(ctx)
    found = [v for v in ctx.violations[before:] if v.get("concrete")]
    del ctx.violations[before:]
    if found:
        found[0]["replay"]["origin"] = "search after broken %s %s" % (broken["kind"], broken["name"])
        return found[0]
    return doc_search(ctx, broken)

def replay(ctx, path):
    r = json.load(open(path))["replay"]
    if r.get("tier") == "doc":
        return doc_replay(ctx, r)
    if r.get("tier") == "sg":
        common.build_harness("hx_xsd")
        p = common.run_harness("hx_xsd", input=(r["line"] + "\n").encode())
        mo = common.run_driver(["xsdsg"], input=(r["line"] + "\n").encode()).decode(errors="replace").split()
        print("case :", r["line"])
        print("pair :", r.get("pair"), " (bit index = member * number of elements + exemplar)")
        print("impl :", p.stdout.decode(errors="replace").strip())
        print("model:", mo[0] if mo else "?"); print("spec :", mo[1] if len(mo) > 1 else "?")
        return 0
    if r.get("tier") == "raw":
        p = common.run_harness("hx_xsd", input=(r["line"] + "\n").encode())
        print(p.stdout.decode(errors="replace")); print(p.stderr.decode(errors="replace")[-1500:])
        return 0
    if "spec" not in r:
        print(json.dumps(r)); return 0
    line = "V %s %s" % (r["spec"], r.get("children", "-") or "-")
    m, i, sp = cm_run([line])
    print("case :", line, "  schema:", r.get("schema", ""))
    print("model:", m[0]); print("impl :", i[0]); print("spec :", "valid" if sp[0] == "1" else "not valid")
    return 0

# =========================================================================================== document tier
from props import c08doc as D
from props import c08run as R

def doc_jobs(ctx, nschemas, nsubst=0):
    r = ctx.rng
    th = ctx.thorough()
    jobs = []
    for si in range(nschemas):
        curated = None
        if si == 0:
            # the same element declaration under two occurrence counters (UPA-valid): the defect of the content-model
            # tier, reached through a schema document and a parse
            def curated(M, v=r.below(3)):
                e0 = M.dleaf(M.gdecl(1, D.N["e0"])); e2 = M.dleaf(M.gdecl(1, D.N["e2"]))
                shapes = [[("L", e0, 2, 2), ("L", e2, 1, 1), ("L", e0, 0, None)],
                          [("L", e0, 1, 2), ("L", e2, 1, 1), ("L", e0, 2, 2)],
                          [("L", e0, 1, 1), ("L", e2, 0, 1), ("L", e0, 3, 3)]]
                return "O", ("G", "s", shapes[v], 1, 1)
        tag = ""          # (the counting defect is repaired: the curated schema stays as a regression case)
        if si == 1:
            # an empty sequence as one branch of a choice makes the choice emptiable (Structures 3.8.4 / 3.9.4)
            def curated(M):
                e0 = M.dleaf(M.gdecl(1, D.N["e0"]))
                return "O", ("G", "c", [("L", e0, 1, 1), ("G", "s", [], 1, 1)], 1, 1)
            tag = "empty-choice-branch:"
        fixed_attrs = None
        if si == 2:
            # attribute uses with a wildcard that does NOT admit unqualified attributes; the restriction prohibits the
            # optional attribute n11: present there it is invalid (no use, not admitted by the wildcard)
            def curated(M):
                e0 = M.dleaf(M.gdecl(1, D.N["e0"])); e2 = M.dleaf(M.gdecl(1, D.N["e2"]))
                return "O", ("G", "s", [("L", e0, 0, 2), ("L", e2, 1, 1)], 1, 1)
            # ... and the optional b:n5 (admitted by ##other: present there it is valid through the wildcard)
            fixed_attrs = lambda M: ([D.use(10, "r"), D.use(11, "o"), D.use(12, "o", ("d", 2)),
                                      D.use(5, "o", M.gattrs[0]["vc"], ns=2)], (("o", 1), "s"))
        M, inst, tested = D.build_model(r, curated, fixed_attrs)
        docs = D.render_xsd(M, r)
        cases = []
        for t in tested:
            c = M.ctypes[t]
            for kind, e in R.cases_for_type(M, inst, c, r, th, 170 if th else 45):
                D.number(e)
                cases.append((kind, e, D.render_xml(M, e, r)))
        muts = R.schema_mutations(M, docs, r) if (th or si % 3 == 0) else []
        jobs.append(dict(M=M, docs=docs, cases=cases, muts=muts, tag=tag))
    # fixed witness: a COUNTED skip wildcard followed by element particles the wildcard would also accept —
    # sequence(any{2,2} ##any skip, n30{0,2}, n12?).  Once the counter of the wildcard is exhausted the children belong to the
    # element particles: they must be assessed (PSVI type, element default, defaulted attributes, errors in their content), not
    # skipped (IGXMLScanner / SGXMLScanner::laxElementValidation after DFAContentModel::handleRepetitions moved to a later entry)
    if nschemas:
        def curated(M):
            w = M.leaf(("w", ("a",), "k"))
            n0 = M.dleaf(M.gdecl(1, D.N["n0"])); e2 = M.dleaf(M.gdecl(1, D.N["e2"]))
            return "O", ("G", "s", [("L", w, 2, 2), ("L", n0, 0, 2), ("L", e2, 0, 1)], 1, 1)
        M, inst, tested = D.build_model(r, curated, None)
        docs = D.render_xsd(M, r)
        c = M.ctypes[tested[0]]
        rd = M.decls[c["root"]]
        kn0, ke2, ke0 = M.gdecl(1, D.N["n0"]), M.gdecl(1, D.N["e2"]), M.gdecl(1, D.N["e0"])
        def skipped(v):
            return D.mk(3, 77) if v == 0 else (inst.elem_for(ke0, 1, True) if v == 1 else inst.elem_for(kn0, 1, True))
        shapes = [[kn0], [kn0, kn0], [ke2], [kn0, ke2], []]
        cases = []
        for v in range(3):
            for tail in shapes:
                kids = [skipped(v), skipped((v + 1) % 3)] + [inst.elem_for(k, 1, True) for k in tail]
                e = D.mk(rd["ns"], rd["name"], attrs=inst.attrs_for(c, True), kids=kids)
                D.number(e)
                cases.append(("counted-wildcard", e, D.render_xml(M, e, r)))
        # ... and an error inside the element that follows the counted wildcard must be reported
        bad = inst.elem_for(ke2, 1, True); bad["attrs"].append((0, 19, 2))
        e = D.mk(rd["ns"], rd["name"], attrs=inst.attrs_for(c, True), kids=[skipped(0), skipped(1), bad])
        D.number(e)
        cases.append(("counted-wildcard", e, D.render_xml(M, e, r)))
        for kind, e in R.cases_for_type(M, inst, c, r, th, 60 if th else 25):
            D.number(e)
            cases.append((kind, e, D.render_xml(M, e, r)))
        jobs.append(dict(M=M, docs=docs, cases=cases, muts=[], tag="", family="counted-wildcard"))
    # substitution-group chains: members typed by derivation steps over the head's type, block on every level, blockDefault
    for si in range(nsubst):
        M, inst, roots = D.build_subst_model(r, si % 3)
        docs = D.render_xsd(M, r)
        cases = []
        for kind, e in D.subst_cases(M, inst, roots, r):
            D.number(e)
            cases.append((kind, e, D.render_xml(M, e, r)))
        jobs.append(dict(M=M, docs=docs, cases=cases, muts=[], tag="", family="subst"))
    return jobs

def doc_run(jobs, nshard=8):
    """fills job['spec'] (list of lines per case), job['impl'] (S line, I lines, mutation S lines)"""
    common.build_harness("hx_xsd")
    shards = [[] for _ in range(nshard)]
    for k, j in enumerate(jobs):
        shards[k % nshard].append(j)
    def run_shard(js):
        ml, il = [], []
        for j in js:
            ml.append(D.schema_line(j["M"]))
            ml += [D.elem_line(e) for _, e, _ in j["cases"]]
            il.append(R.s_line(j["docs"]))
            il += ["I " + R.hexs(x) for _, _, x in j["cases"]]
            il += [R.s_line(d) for _, d, _ in j["muts"]]
        if not ml:
            return
        mo = common.run_driver(["xsd"], input=("\n".join(ml) + "\n").encode(), timeout=3000).decode(errors="replace").split("\n")
        io, crashes = common.run_lines_resilient("hx_xsd", il, timeout=3000)
        pm = pi = 0
        for j in js:
            n = len(j["cases"])
            j["spec_schema"] = mo[pm]; j["spec"] = mo[pm + 1:pm + 1 + n]; pm += 1 + n
            j["impl_schema"] = io[pi]; j["impl"] = io[pi + 1:pi + 1 + n]; pi += 1 + n
            j["impl_muts"] = io[pi:pi + len(j["muts"])]; pi += len(j["muts"])
    ths = [threading.Thread(target=run_shard, args=(s,)) for s in shards if s]
    for t in ths: t.start()
    for t in ths: t.join()
    for j in jobs:
        if "spec" not in j:
            raise common.InfraError("document tier shard failed")
    # a harness process that dies (crash, but also an external kill on a loaded machine) takes the cached grammars of
    # its current schema with it: re-run such a schema alone; only a death that repeats is reported
    for j in jobs:
        lines = [j["impl_schema"]] + j["impl"] + j.get("impl_muts", [])
        if any(l.startswith(("CRASH", "NO-OUTPUT")) for l in lines):
            il = [R.s_line(j["docs"])] + ["I " + R.hexs(x) for _, _, x in j["cases"]] + [R.s_line(d) for _, d, _ in j["muts"]]
            io, crashes = common.run_lines_resilient("hx_xsd", il, timeout=3000)
            n = len(j["cases"])
            j["impl_schema"] = io[0]; j["impl"] = io[1:1 + n]; j["impl_muts"] = io[1 + n:]
            j["retried"] = True

def doc_judge(ctx, jobs, origin):
    by = {}
    stats = dict(schemas=len(jobs), instances=0, spec_valid=0, kinds={}, spec_classes={}, schema_mutations={}, schemas_loaded=0)
    def add(key, what, rep, size):
        if key not in by or size < by[key][2]:
            by[key] = (what, rep, size)
    for j in jobs:
        M = j["M"]
        docs = j["docs"]
        sdesc = " ; ".join("%s: %s" % (s, t) for s, t in docs)
        if j["spec_schema"] != "ok":
            raise common.InfraError("xsd spec driver rejects the schema description: " + j["spec_schema"][:200])
        S = R.parse_S(j["impl_schema"])
        if S is None:
            add("doc:schema-load-no-output", "schema load: " + j["impl_schema"][:200], {"tier": "doc", "schema": docs}, len(sdesc))
            continue
        if any(w[1] or w[2] for w in S):
            k = [i for i, w in enumerate(S) if w[1] or w[2]][0]
            add("doc:valid-schema-rejected:" + R.code_name(S[k][3][0] if S[k][3] else "?"),
                "a schema generated from a valid component model is reported as erroneous at load time (configuration c%d: %s). Schema: %s" % (
                    k, "+".join(R.code_name(c) for c in S[k][3]), sdesc[:1500]),
                {"tier": "doc", "schema": docs, "origin": origin}, len(sdesc))
            continue
        stats["schemas_loaded"] += 1
        if j.get("family") == "subst":
            sb = stats.setdefault("subst_family", dict(schemas=0, instances=0, spec_invalid=0, with_blockDefault=0, type_level_block=0))
            sb["schemas"] += 1; sb["instances"] += len(j["cases"])
            sb["spec_invalid"] += sum(1 for sp in j["spec"] if sp.startswith("invalid "))
            sb["with_blockDefault"] += 1 if getattr(M, "block_default", None) is not None else 0
            sb["type_level_block"] += 1 if any(any(c["block"]) for c in M.ctypes if c["kind"] == "E") else 0
        for (kind, e, xml), sp, im in zip(j["cases"], j["spec"], j["impl"]):
            stats["instances"] += 1
            stats["kinds"][kind.split(":")[0]] = stats["kinds"].get(kind.split(":")[0], 0) + 1
            if sp.startswith("valid"): stats["spec_valid"] += 1
            elif sp.startswith("invalid "):
                for c in sp[8:].split(","):
                    stats["spec_classes"][c] = stats["spec_classes"].get(c, 0) + 1
            if im.startswith("CRASH"):
                add("doc:crash", "the harness died validating an instance: %s ; instance %s" % (im[:200], xml[:600]),
                    {"tier": "doc", "schema": docs, "xml": xml, "abstract_schema": D.schema_line(M), "abstract": D.elem_line(e)}, len(xml))
                break
            for key, what in R.judge_instance(M, kind, e, sp, im):
                if key == "doc:rejects-valid:NilAttrNotEmpty":
                    # two different causes: a nilled element whose declaration has a DEFAULT value, or xsi:nil="true" of
                    # an unvalidated (skip / lax) child seen by the parent's content check
                    dflt = False
                    for x in R.all_elems(e, []):
                        if x.get("nil"):
                            k = M.gdecl(x["ns"], x["name"])
                            if k is not None and M.decls[k]["vc"][0] == "d":
                                dflt = True
                    key += ":nilled-element-has-default" if dflt else ":nil-state-leak"
                if sp.startswith("valid") and (key.startswith(("doc:psvi:", "doc:rejects-valid:"))):
                    # xsi:type written on an element that is NOT assessed (skip wildcard, undeclared under lax) is picked up
                    # by the next validated element (one cause, whatever the symptom: wrong type name, NonDerivedXsiType,
                    # BadXsiType, content checked against the leaked type, ...)
                    assessed = {i["eid"] for i in R.parse_spec(sp)[2]}
                    if any(x.get("xsitype") is not None and x["eid"] not in assessed for x in R.all_elems(e, [])):
                        key = "doc:xsi-type-of-unassessed-element-leaks"
                if key in ("doc:psvi:attributes", "doc:accepts-invalid:attr-prohibited", "doc:accepts-invalid:attr-not-declared") \
                        and e.get("xsitype") is not None:
                    # <xs:attribute ref="g" use="prohibited"/> where the global attribute g has a fixed / default value: the
                    # restricted type keeps g as a Fixed / Default attribute (TraverseSchema) instead of prohibiting it
                    for x in M.ctypes:
                        if (x["ns"], x["name"]) == e["xsitype"] and any(
                                u["use"] == "p" and u["ns"] != 0 and u["vc"][0] != "n" for u in x["uses_eff"]):
                            key = "doc:prohibited-ref-to-global-attribute-with-value-constraint"
                if key == "doc:accepts-invalid:xsi-type-not-derived":
                    # xsi:type naming the user-defined simple type st1 on an element whose declared type is complex
                    def complex_declared(x):
                        return any((d["ns"], d["name"]) == (x["ns"], x["name"]) and M.is_ct(d["type"]) for d in M.decls)
                    if any(x.get("xsitype") == (1, 9001) and complex_declared(x) for x in R.all_elems(e, [])):
                        key += ":user-simple-type-for-complex-declared-type"
                if j.get("tag") and key in ("doc:rejects-valid:ElementNotValidForContent", "doc:rejects-valid:EmptyNotValidForContent",
                                            "doc:rejects-valid:NotEnoughElemsForCM"):
                    key = "doc:" + j["tag"] + "rejects-valid"
                if j.get("family") == "subst" and kind.startswith("subst"):
                    if key.startswith(("doc:accepts-invalid:", "doc:rejects-valid:")):
                        key = "doc:subst:" + key[4:]
                add(key, "%s. Instance (%s): %s  Schema: %s" % (what, kind, xml[:700], sdesc[:1500]),
                    {"tier": "doc", "schema": docs, "xml": xml, "abstract_schema": D.schema_line(M), "abstract": D.elem_line(e),
                     "spec": sp[:300], "impl": im[:600], "origin": origin}, len(xml) + len(sdesc))
        for (kind, d, expect), im in zip(j["muts"], j.get("impl_muts", [])):
            S2 = R.parse_S(im)
            stats["schema_mutations"][kind] = stats["schema_mutations"].get(kind, 0) + 1
            if S2 is None:
                add("doc:schema-mutation-no-output", "%s: %s" % (kind, im[:200]), {"tier": "doc", "schema": d}, 0)
                continue
            rep = [bool(w[1] or w[2]) for w in S2]
            want = {"always": [True] * 8, "full": [False] * 4 + [True] * 4, "never": [False] * 8}[expect]
            if rep != want:
                add("doc:schema-constraint:%s" % kind,
                    "schema violating/satisfying a component constraint (%s): error reported per configuration c0..c7 = %s, expected %s (%s). Root document: %s" % (
                        kind, "".join("1" if x else "0" for x in rep), "".join("1" if x else "0" for x in want), expect, d[0][1][-900:]),
                    {"tier": "doc", "schema": d, "mutation": kind, "origin": origin}, len(d[0][1]))
    for key, (what, rep, _) in by.items():
        ctx.violations.append({"key": key, "concrete": True, "what": what, "replay": rep})
    return stats

def doc_correspondence(ctx):
    n = 120 if ctx.thorough() else 8
    jobs = doc_jobs(ctx, n, 60 if ctx.thorough() else 6)
    doc_run(jobs)
    stats = doc_judge(ctx, jobs, "correspondence")
    stats["schemas_rerun_after_harness_death"] = sum(1 for j in jobs if j.get("retried"))
    ctx.stats["doc"] = stats
    ctx.stats["evaluations"] = ctx.stats.get("evaluations", 0) + stats["instances"] * 8
    # probe: schema validation requested, PSVI wanted, but no grammar available (nothing to validate against is not an
    # error condition by itself: the parse must end with ordinary errors, not with a crash)
    probe = ["S 0", "IU " + R.hexs('<a:root xmlns:a="urn:a"/>')]
    po, crashes = common.run_lines_resilient("hx_xsd", probe, timeout=600)
    ctx.stats["doc"]["no_grammar_probe"] = po[1][:120] if len(po) > 1 else "?"
    if crashes or (len(po) > 1 and po[1].startswith("CRASH")):
        ctx.violations.append({"key": "xsd:crash:no-grammar-psvi", "concrete": True,
            "what": "validating parse with schema processing on, PSVI / DOMTypeInfo requested and NO grammar loaded crashes: %s. "
                    "Document: <a:root xmlns:a=\"urn:a\"/> (harness lines: %s)" % ((po[1] if len(po) > 1 else "")[:300], " ; ".join(probe)),
            "replay": {"tier": "raw", "line": "\n".join(probe)}})
    for j in jobs[:2]:
        for (kind, e, xml), sp, im in list(zip(j["cases"], j["spec"], j["impl"]))[:2]:
            ctx.samples.append({"kind": kind, "instance": xml[:300], "spec": sp[:160], "impl": im[:200]})

def doc_search(ctx, broken):
    jobs = doc_jobs(ctx, 40 if ctx.thorough() else 10, 30 if ctx.thorough() else 8)
    doc_run(jobs)
    before = len(ctx.violations)
    doc_judge(ctx, jobs, "search after broken %s %s" % (broken["kind"], broken["name"]))
    if len(ctx.violations) > before:
        v = ctx.violations[before]
        del ctx.violations[before:]
        return v
    return None

def doc_replay(ctx, r):
    docs = [tuple(x) for x in r["schema"]]
    il = ["SV" + R.s_line(docs)[1:]]
    if "xml" in r:
        il.append("IV " + R.hexs(r["xml"]))
    p = common.run_harness("hx_xsd", input=("\n".join(il) + "\n").encode())
    for s, t in docs:
        print("schema %s:\n%s" % (s, t))
    if "xml" in r:
        print("instance:\n" + r["xml"])
    for l in p.stdout.decode(errors="replace").split("\n"):
        if l: print("impl :", l[:3000])
    if "abstract" in r:
        mo = common.run_driver(["xsd"], input=(r["abstract_schema"] + "\n" + r["abstract"] + "\n").encode()).decode(errors="replace").split("\n")
        print("spec :", mo[1] if len(mo) > 1 else mo)
    return 0
