"""C17 — distinct parser, document and transcoder objects are safe to use concurrently (PARTIAL).

Theorems (XV.Props.C17): lockset discipline => every conflicting pair of accesses is ordered by happens-before
(all traces, any number of threads); the executable trace checker = the declarative discipline; the lazy
initialisation protocol initialises once and every user sees the value (all schedules); synchronized string pool:
ids stable, every interleaving linearizable; every modelled guarded access point still has its XMLMutexLock in the
current sources (Gen/LockSites, regenerated every run).

Tie to the code:
  (1) harness/hx_thr.cpp runs N in {2,4,8,16} threads, each a seeded workload on DISTINCT objects (private SAX2/DOM
      parsers with DTD/schema validation never/auto/always, parsers sharing ONE locked grammar pool and documents
      introducing new namespace URIs, private DOM build/mutate/serialise, regular expressions with category escapes,
      XMLString::transcode and named transcoders, owner-less document types, DOMImplementationRegistry, exception
      messages), no warm-up on the main thread, seeded yields at lock and marker sites.  Per-thread, per-item result
      digests must equal the digests of the same workloads run single-threaded.
  (2) the event trace of every run (lock/unlock recorded by a delegating XMLMutexMgr, accesses by hook-H2 markers)
      goes through the VERIFIED checker (`xvdriver trace`): an access outside its lock is reported deterministically.
  (3) the recorded history of operations on the shared synchronized string pool is replayed, in linearization order,
      on the Lean model (`xvdriver pool`).
  (4) the same workloads run on a ThreadSanitizer build (search support): a data-race report whose racing access is in
      xerces code is a concrete violation; a watchdog turns a hang into a violation."""
import concurrent.futures, json, os, re, subprocess, time
import common
from common import log

PID = "C17"
GEN = ["LockSites"]
LEAN_MODULE = "XV.Props.C17"
THEOREMS = ["XV.Props.C17." + t for t in (
    "lockset_implies_drf", "mutual_exclusion", "hb_lt", "checkTrace_sound_complete", "checkInitOnce_sound_complete",
    "accepted_trace_race_free", "init_once", "init_no_deadlock", "ids_stable", "getId_denotes",
    "getId_asIs_not_stable", "linearizable", "all_guarded_resources_have_site", "all_markers_guarded",
    "all_guarded_site_counts")]
RULE = ("a run = (seed, N threads in {2,4,8,16}, items per thread, shared-locked-pool yes/no); every thread draws its "
        "items from 12 workload kinds; evaluations = workload items executed concurrently and compared with the "
        "single-threaded digest + trace events checked + pool operations replayed; a run is non-trivial when >= 2 "
        "threads ran and the trace contains acquisitions by >= 2 threads; distinct by (seed, N, items, flags)")
ASSUMPTIONS = [
    "PARTIAL: the theorems are about the synchronisation LOGIC (event traces, transition systems with atomic, "
    "sequentially consistent steps); hardware/compiler memory-model effects are not modelled - e.g. the unlocked first "
    "check in RangeTokenMap::getRange is a plain (non-atomic) read in C++, which the lazy-init model treats as atomic",
    "only accesses that carry a hook-H2 marker are seen by the trace checker (RangeTokenMap, DOMImplementationRegistry, "
    "DOMDocumentTypeImpl::sDocument, XMLScanner's scanner-id counter, SynchronizedStringPool overflow pool, "
    "ICULCPTranscoder converter); races in code without a marker (function-local statics, lazily completed parts of "
    "cached grammars, ...) can only be found by the ThreadSanitizer runs, which are a search, not a proof",
    "ICU and libc internals are not instrumented and not modelled; the one exception is the boundary of the process-wide "
    "local-code-page converter: the harness interposes ucnv_fromUChars / ucnv_toUChars and treats each call as an access to "
    "the converter (guard inferred Eraser-style from the recorded locksets; a shadow write under TSan), so an unlocked use is "
    "seen even where the xerces source carries no marker. The process runs under the C.UTF-8 locale so that the multi-byte "
    "retry path of ICULCPTranscoder::transcode is exercised",
    "mutexes are modelled as non-recursive; this build's std::recursive_mutex re-entrant acquisitions are collapsed by "
    "the recorder (their count is reported in the evidence)",
    "the recorder serialises events with its own lock: the recorded total order is one linearisation consistent with "
    "the real lock order; TSan runs therefore record nothing",
    "static data created inside XMLPlatformUtils::Initialize is assumed complete before any worker thread exists",
    "deadlock: init_no_deadlock covers the lazy-init protocol only; for the real library a watchdog reports hangs",
    "string pool model: strings as Lean Strings, ids as Nat; XMLStringPool hashing/growth not modelled",
]
TRUSTED = ["XV.Spec.Trace (Holds / WellFormedLocks / LocksetOK / HB as transcribed)",
           "hook H2 markers placed at the right accesses (tied to lock sites by all_markers_guarded)",
           "harness recorder (delegating XMLMutexMgr), ThreadSanitizer (clang-14) as race oracle"]

TSAN_BUILD = os.path.join(common.WORK, "build-tsan")
TSAN_FLAGS = "-O1 -g1 -fsanitize=thread -D" + common.GUARD
TSAN_ENV = {"LC_ALL": "C.UTF-8", "TSAN_OPTIONS": "halt_on_error=0 exitcode=0 report_thread_leaks=0 history_size=4 "
                            "external_symbolizer_path=/usr/bin/llvm-symbolizer-14"}
ASAN_ENV = {"LC_ALL": "C.UTF-8", "ASAN_OPTIONS": "detect_leaks=0:abort_on_error=0:allocator_may_return_null=1",
            "UBSAN_OPTIONS": "print_stacktrace=0:halt_on_error=0"}

# ------------------------------------------------------------------ builds
def tsan_lib_path():
    return os.path.join(TSAN_BUILD, "src", "libxerces-c-4.0.so")

def build_tsan(allow_cold=True):
    """TSan flavour of the library (separate build tree, incremental).  Returns True when usable."""
    with common.Lock("build-tsan"):
        t0 = time.time()
        if not os.path.exists(os.path.join(TSAN_BUILD, "build.ninja")):
            if not allow_cold:
                return False
            os.makedirs(TSAN_BUILD, exist_ok=True)
            common.run(["cmake", "-G", "Ninja", "-S", common.REPO, "-B", TSAN_BUILD, "-DCMAKE_BUILD_TYPE=None",
                        "-DCMAKE_CXX_COMPILER=clang++-14", "-DCMAKE_C_COMPILER=clang-14",
                        "-DCMAKE_CXX_FLAGS=" + TSAN_FLAGS, "-DCMAKE_C_FLAGS=-O1 -g1",
                        "-DCMAKE_SHARED_LINKER_FLAGS=-fsanitize=thread", "-DCMAKE_EXE_LINKER_FLAGS=-fsanitize=thread"],
                       check=True)
        elif not os.path.exists(tsan_lib_path()) and not allow_cold:
            return False
        p = common.run(["ninja", "-C", TSAN_BUILD, "-j", str(common.NCPU), "xerces-c"])
        if p.returncode != 0:
            raise common.InfraError("TSan library does not build:\n" + p.stdout.decode(errors="replace")[-3000:])
        log("tsan library build %.1fs" % (time.time() - t0))
    return True

def build_tsan_harness():
    src = os.path.join(common.HARN, "hx_thr.cpp")
    out = os.path.join(common.HBIN, "hx_thr_tsan")
    os.makedirs(common.HBIN, exist_ok=True)
    with common.Lock("harness-hx_thr_tsan"):
        deps = [src, os.path.join(common.HARN, "hx_common.hpp"), tsan_lib_path()]
        if os.path.exists(out) and os.path.getmtime(out) >= max(os.path.getmtime(d) for d in deps):
            return out
        cmd = ["clang++-14", "-std=gnu++17"] + TSAN_FLAGS.split() + ["-pthread", "-I" + common.HARN, src, "-o", out,
               "-I" + os.path.join(common.REPO, "src"), "-I" + os.path.join(TSAN_BUILD, "src"),
               "-L" + os.path.join(TSAN_BUILD, "src"), "-lxerces-c-4.0", "-Wl,-rpath," + os.path.join(TSAN_BUILD, "src")]
        p = common.run(cmd)
        if p.returncode != 0:
            raise common.InfraError("TSan harness does not compile:\n" + p.stderr.decode(errors="replace")[-3000:])
    return out

# ------------------------------------------------------------------ running one configuration
def run_bin(exe, mode, cfg, env, timeout):
    args = [exe, mode, str(cfg["seed"]), str(cfg["n"]), str(cfg["items"]), str(cfg["flags"]), str(cfg.get("watchdog", 90))]
    try:
        p = common.run(args, env=env, timeout=timeout)
        return p.returncode, p.stdout.decode(errors="replace"), p.stderr.decode(errors="replace")
    except subprocess.TimeoutExpired as e:
        return -9, (e.stdout or b"").decode(errors="replace"), "TIMEOUT"

def digests(out):
    d = {}
    for l in out.split("\n"):
        if l.startswith("D "):
            f = l.split()
            d[int(f[1])] = f[2].split(",") if len(f) > 2 else []
    return d

def legend(out):
    names = {}
    for l in out.split("\n"):
        if l.startswith("LEGEND"):
            for tok in l.split()[1:]:
                k, _, v = tok.partition("=")
                names[k] = v
    return names

def kind_of(name):
    return name.split("@")[0]

def trace_excerpt(trace_line, k, names, width=14):
    evs = trace_line.split("|")[2].split()
    lo = max(0, k - width)
    out = []
    for i in range(lo, min(len(evs), k + 3)):
        c, t, x = evs[i].split(".")
        what = {"a": "acquire m" + x, "r": "release m" + x,
                "R": "read " + names.get("r" + x, "r" + x), "W": "write " + names.get("r" + x, "r" + x),
                "b": "initBegin " + names.get("s" + x, "s" + x), "e": "initEnd " + names.get("s" + x, "s" + x)}[c]
        out.append("%s%d: thread %s %s" % (">>" if i == k else "  ", i, t, what))
    return out

def check_pool_history(out):
    """Replays the recorded SynchronizedStringPool history (in linearization order) on the Lean model.
    Returns (n_ops, list of (op, impl, model, const_count))."""
    const = pool = None
    for l in out.split("\n"):
        if l.startswith("CONST "): const = l[6:].rstrip("\n")
        elif l.startswith("POOL"): pool = l[4:].split()
    if const is None or not pool:
        return 0, []
    # strings may contain commas: the harness separates const strings with 0x1f, and every string is interned
    # before it goes to the driver (the model only needs equality).
    intern = {}
    def tok(s):
        if s not in intern: intern[s] = "z%d" % len(intern)
        return intern[s]
    cs = [tok(c) for c in const.split("\x1f")]
    ops, impl = [], []
    for p in pool:
        _, _, rest = p.partition("/")
        op, _, res = rest.rpartition("=")
        if op[:2] in ("A:", "G:", "X:"): op = op[:2] + tok(op[2:])
        if res.startswith("s"): res = "s" + tok(res[1:])
        ops.append(op); impl.append(res)
    line = "P %s | %s" % (",".join(cs) if cs else "-", " ".join(ops))
    model = common.run_driver(["pool"], input=(line + "\n").encode()).decode().strip().split()
    if len(model) != len(ops):
        raise common.InfraError("xvdriver pool returned %d results for %d ops: %s" % (len(model), len(ops), model[:5]))
    back = {v: k for k, v in intern.items()}
    bad = []
    for p, i, m in zip(pool, impl, model):
        if i != m:
            show = lambda r: "s" + back.get(r[1:], r[1:]) if r.startswith("s") else r
            bad.append((p.rpartition("=")[0], show(i), show(m), len(cs)))
    return len(ops), bad

TSAN_ROOT_CAUSES = [
    ("tsan-race:shared-icu-converter-used-without-lock", r"ucnv_(fromUChars|toUChars)|converterAccess"),
    ("tsan-race:syncstringpool-unlocked-access", r"XMLSynchronizedStringPool::|XMLStringPool::(getValueForId|addNewEntry|addOrFind|getId|exists)|getValueForId .*StringPool\.hpp|addOrFind .*StringPool\.hpp"),
    ("tsan-race:traverseschema-lazy-static-wsfacets", r"TraverseSchema::getElementAttValue"),
    ("tsan-race:dom-iskidok-lazy-static-table", r"DOMDocumentImpl::isKidOK"),
    ("tsan-race:lazy-rangetoken-map-in-shared-regex", r"RangeToken::(doCreateMap|match)|createMap .*RangeToken\.hpp"),
    ("tsan-race:lazy-content-model-in-shared-grammar",
     r"getContentModel|makeContentModel|DFAContentModel|ContentLeafNameTypeVector|SimpleContentModel|MixedContentModel|AllContentModel"),
    ("tsan-race:rangetokenmap-unlocked-first-check", r"RangeTokenMap::getRange"),
]

def parse_tsan(err):
    """Returns list of (key, summary, excerpt) for reports whose racing access lies in xerces code."""
    res = []
    for rep in re.split(r"(?=WARNING: ThreadSanitizer)", err)[1:]:
        head = rep.split("\n", 1)[0]
        kind = "lock-order-inversion" if "lock-order-inversion" in head else "data race" if "data race" in head else head[28:60].strip()
        m = re.search(r"^SUMMARY: ThreadSanitizer: (.*)$", rep, flags=re.M)
        summary = m.group(1) if m else head
        # frames of the first stack (the access that was caught)
        frames = re.findall(r"^\s+#\d+ (.*)$", rep, flags=re.M)
        stacks = re.split(r"\n\s*\n", rep)
        first = re.findall(r"^\s+#\d+ (.*)$", stacks[0], flags=re.M)[:4] if stacks else []
        in_xerces = any("/xercesc/" in f for f in first[:3])
        if not in_xerces:
            continue
        key = None
        body = "\n".join(f for s in stacks[:2] for f in re.findall(r"^\s+#\d+ (.*)$", s, flags=re.M)[:8])
        if kind == "lock-order-inversion":
            key = "tsan-lock-order-inversion"
        else:
            for k, pat in TSAN_ROOT_CAUSES:
                if re.search(pat, body):
                    key = k; break
            if key is None:
                f0 = next((f for f in first if "/xercesc/" in f), first[0] if first else "?")
                fn = re.sub(r"\(.*", "", f0.split(" /")[0]).replace("xercesc_4_0::", "").strip()
                key = "tsan-race:" + fn
        short = [re.sub(r"\s*\((lib|hx_)[^)]*\)( \(BuildId[^)]*\))?", "", l).replace(common.REPO + "/", "")
                 for l in rep.split("\n")[:40] if re.match(r"\s+(#\d|Write|Read|Previous|Location|Atomic)", l)]
        res.append((key, summary.replace(common.REPO + "/", ""), short[:24]))
    return res

def cfg_str(c):
    return "seed=%d N=%d items=%d flags=%d" % (c["seed"], c["n"], c["items"], c["flags"])

def one_asan_run(cfg):
    """conc (recorded) + seq (reference) on the ASan/UBSan hooks build. Returns dict of findings."""
    exe = os.path.join(common.HBIN, "hx_thr")
    r = {"cfg": cfg, "viol": [], "items": 0, "events": 0, "poolops": 0, "reentrant": 0, "threads_locking": 0}
    rc, out, err = run_bin(exe, "conc", cfg, ASAN_ENV, 300)
    replay = {"harness": "hx_thr", "mode": "conc", **cfg}
    if "HANG" in out or err == "TIMEOUT":
        r["viol"].append({"key": "hang", "concrete": True,
                          "what": "threads did not finish (deadlock or livelock): %s; %s" % (cfg_str(cfg), (out.strip().split("\n") or [""])[-1][:200]),
                          "replay": replay})
        return r
    if "AddressSanitizer" in err or rc not in (0,):
        r["viol"].append({"key": "crash", "concrete": True,
                          "what": "concurrent run crashed (rc=%d): %s; %s" % (rc, cfg_str(cfg), common.sanitizer_summary(err)),
                          "replay": dict(replay, stderr=err[-1500:])})
        return r
    rc2, out2, err2 = run_bin(exe, "seq", cfg, ASAN_ENV, 300)
    if rc2 != 0 or "AddressSanitizer" in err2:
        r["viol"].append({"key": "crash-single-threaded", "concrete": False,
                          "what": "single-threaded reference run failed (rc=%d): %s; %s" % (rc2, cfg_str(cfg), common.sanitizer_summary(err2)),
                          "replay": dict(replay, mode="seq")})
        return r
    dc, ds = digests(out), digests(out2)
    for t in sorted(ds):
        r["items"] += len(ds[t])
        if dc.get(t) != ds[t]:
            idx = next((i for i, (a, b) in enumerate(zip(dc.get(t, []), ds[t])) if a != b), -1)
            r["viol"].append({"key": "digest-mismatch", "concrete": True,
                              "what": "thread %d item %d produced a different result than the same workload single-threaded: %s" % (t, idx, cfg_str(cfg)),
                              "replay": dict(replay, thread=t, item=idx, concurrent=dc.get(t), single=ds[t])})
            break
    names = legend(out)
    for l in out.split("\n"):
        if l.startswith("TRACE "):
            tl = l[6:]
            evs = tl.split("|")[2].split()
            r["events"] = len(evs)
            r["threads_locking"] = len({e.split(".")[1] for e in evs if e[0] == "a"})
            verdict = common.run_driver(["trace"], input=(tl + "\n").encode()).decode().strip()
            r["verdict"] = verdict
            if verdict.startswith("violation"):
                m = re.match(r"violation (\S+) k=(\d+) t=(\d+) x=(\d+)", verdict)
                kind, k, t, x = m.group(1), int(m.group(2)), int(m.group(3)), int(m.group(4))
                ev = evs[k]
                resname = names.get(("s" if ev[0] in "be" else "r") + ev.split(".")[2], "?") if ev[0] in "RWbe" else "m%d" % x
                r["viol"].append({"key": "trace:%s:%s" % (kind, kind_of(resname)), "concrete": True,
                                  "what": "verified trace checker: %s at event %d (thread %d, %s) in run %s" % (kind, k, t, resname, cfg_str(cfg)),
                                  "replay": dict(replay, verdict=verdict, excerpt=trace_excerpt(tl, k, names), legend=names)})
            elif not verdict.startswith("ok"):
                raise common.InfraError("xvdriver trace: " + verdict)
        elif l.startswith("GUARDCONFLICT"):
            r["viol"].append({"key": "trace:guard-conflict", "concrete": True,
                              "what": "markers name different mutexes for one resource: " + l[14:], "replay": replay})
        elif l.startswith("STAT"):
            m = re.search(r"reentrant=(\d+)", l)
            r["reentrant"] = int(m.group(1)) if m else 0
    nops, bad = check_pool_history(out)
    r["poolops"] = nops
    for op, impl, model, cc in bad[:1]:
        defect = op.split("/")[1].startswith("G:") and impl == "i%d" % cc and model == "i0"
        r["viol"].append({"key": "ssp-getid-unknown-string-returns-constcount" if defect else "ssp-history-not-linearizable",
                          "concrete": True,
                          "what": ("XMLSynchronizedStringPool::getId of a string in neither pool returned %s (= const pool count, the id of another "
                                   "string) instead of 0: %s" % (impl, op)) if defect else
                                  "pool operation %s returned %s; sequential replay in linearization order gives %s" % (op, impl, model),
                          "replay": dict(replay, op=op, impl=impl, model=model, const_count=cc)})
    return r

def one_tsan_run(cfg):
    exe = os.path.join(common.HBIN, "hx_thr_tsan")
    rc, out, err = run_bin(exe, "conc", cfg, TSAN_ENV, 600)
    viol = []
    replay = {"harness": "hx_thr_tsan", "mode": "conc", **cfg}
    if "HANG" in out or err == "TIMEOUT":
        viol.append({"key": "hang", "concrete": True, "what": "TSan run did not finish: " + cfg_str(cfg), "replay": replay})
    elif rc != 0:
        viol.append({"key": "crash", "concrete": True, "what": "TSan run crashed rc=%d: %s %s" % (rc, cfg_str(cfg), err[-300:]),
                     "replay": dict(replay, stderr=err[-1500:])})
    for key, summary, short in parse_tsan(err):
        viol.append({"key": key, "concrete": True,
                     "what": "ThreadSanitizer: %s (run %s)" % (summary[:300], cfg_str(cfg)),
                     "replay": dict(replay, report=short)})
    return {"cfg": cfg, "viol": viol, "reports": len(re.findall("WARNING: ThreadSanitizer", err))}

# ------------------------------------------------------------------ check life-cycle
def plan(ctx, n_runs):
    r = ctx.rng
    cfgs = []
    ns = [2, 4, 8, 16]
    for i in range(n_runs):
        n = ns[i % 4]
        flags = 2 | 4 | (1 if i % 2 == 0 or r.chance(1, 4) else 0)
        if flags & 1 and r.chance(1, 2): flags |= 16 | 64
        if not flags & 1 and r.chance(1, 2): flags |= 32
        items = {2: 10, 4: 8, 8: 6, 16: 4}[n]
        cfgs.append({"seed": 1 + r.below(10 ** 6), "n": n, "items": items, "flags": flags})
    return cfgs

def plan_tsan(ctx, n_runs):
    r = ctx.rng
    cfgs = [{"seed": 1 + r.below(10 ** 6), "n": 2, "items": 3, "flags": 8 | 4},        # F16 probe: first DOM operation
            {"seed": 1 + r.below(10 ** 6), "n": 4, "items": 3, "flags": 8 | 4}]
    ns = [8, 4, 2, 16]
    for i in range(max(0, n_runs - 2)):
        cfgs.append({"seed": 1 + r.below(10 ** 6), "n": ns[i % 4], "items": 5, "flags": 4 | (17 | 64 if i % 2 == 0 else 32 if i % 4 == 1 else 0)})
    return cfgs

def add_violations(ctx, results):
    best = {}
    for r in results:
        for v in r["viol"]:
            k = v["key"]
            c = r["cfg"]
            size = c["n"] * c["items"]
            if k not in best or size < best[k][0]:
                best[k] = (size, v)
    for k in sorted(best):
        ctx.violations.append(best[k][1])

def correspondence(ctx):
    t0 = time.time()
    common.build_harness("hx_thr")
    th = ctx.thorough()
    cfgs = plan(ctx, 240 if th else 12)
    workers = max(2, common.NCPU // 4)
    with concurrent.futures.ThreadPoolExecutor(max_workers=workers) as ex:
        results = list(ex.map(one_asan_run, cfgs))
    add_violations(ctx, results)
    st = ctx.stats
    st["runs"] = len(results)
    st["workload_items_compared"] = sum(r["items"] for r in results)
    st["trace_events_checked"] = sum(r["events"] for r in results)
    st["pool_ops_replayed"] = sum(r["poolops"] for r in results)
    st["reentrant_acquisitions_collapsed"] = sum(r["reentrant"] for r in results)
    st["runs_by_threads"] = {str(n): sum(1 for r in results if r["cfg"]["n"] == n) for n in (2, 4, 8, 16)}
    st["runs_with_shared_pool"] = sum(1 for r in results if r["cfg"]["flags"] & 1)
    st["trace_verdicts"] = {}
    for r in results:
        v = r.get("verdict", "none").split()[0]
        st["trace_verdicts"][v] = st["trace_verdicts"].get(v, 0) + 1
    st["asan_wall_s"] = round(time.time() - t0, 1)
    for r in results[:3]:
        ctx.samples.append({"run": cfg_str(r["cfg"]), "items": r["items"], "events": r["events"], "verdict": r.get("verdict")})
    # ---- ThreadSanitizer flavour (search support)
    t1 = time.time()
    have = build_tsan(allow_cold=th)
    if not have:
        st["tsan"] = "skipped: .work/build-tsan not built (tools/setup.py builds it); thorough tier builds it itself"
        ctx.notes.append(st["tsan"])
        tres = []
    else:
        build_tsan_harness()
        tcfgs = plan_tsan(ctx, 80 if th else 6)
        with concurrent.futures.ThreadPoolExecutor(max_workers=max(2, common.NCPU // 4)) as ex:
            tres = list(ex.map(one_tsan_run, tcfgs))
        add_violations(ctx, tres)
        st["tsan"] = "ran"
        st["tsan_runs"] = len(tres)
        st["tsan_reports_total"] = sum(r["reports"] for r in tres)
        st["tsan_wall_s"] = round(time.time() - t1, 1)
    st["evaluations"] = st["workload_items_compared"] + st["trace_events_checked"] + st["pool_ops_replayed"]
    st["distinct_nontrivial"] = len({(r["cfg"]["seed"], r["cfg"]["n"], r["cfg"]["items"], r["cfg"]["flags"])
                                     for r in results if r["cfg"]["n"] >= 2 and r["threads_locking"] >= 2})

def search(ctx, broken):
    """A theorem over Gen/LockSites (or the translator) no longer checks: look for a run whose trace the verified
    checker rejects / whose digests differ.  The correspondence has already run the standard plan; add a focused batch."""
    if any(v.get("concrete") for v in ctx.violations):
        return None
    if getattr(ctx, "_c17_searched", False):
        return None
    ctx._c17_searched = True
    common.build_harness("hx_thr")
    cfgs = plan(ctx, 32)
    with concurrent.futures.ThreadPoolExecutor(max_workers=max(2, common.NCPU // 4)) as ex:
        results = list(ex.map(one_asan_run, cfgs))
    for r in results:
        for v in r["viol"]:
            if v.get("concrete"):
                return v
    return None

def replay(ctx, path):
    j = json.load(open(path))
    r = j["replay"]
    print("stored:", j.get("key"), "-", j.get("what"))
    if "seed" not in r:
        print(json.dumps(r, indent=1)[:3000]); return 0
    cfg = {k: r[k] for k in ("seed", "n", "items", "flags")}
    if r.get("harness") == "hx_thr_tsan":
        if not build_tsan(allow_cold=True):
            print("TSan build not available"); return 0
        build_tsan_harness()
        # a race report depends on the schedule: repeat the stored run until the stored category shows up again
        for attempt in range(1, 9):
            res = one_tsan_run(cfg)
            if any(v["key"] == j.get("key") for v in res["viol"]):
                break
        print("stored report:")
        for l in r.get("report", [])[:12]: print("     ", l)
        print("impl (TSan run %s, attempt %d): %d report(s)" % (cfg_str(cfg), attempt, res["reports"]))
        for v in res["viol"]:
            print(" ", v["key"], "-", v["what"][:300])
            for l in v["replay"].get("report", [])[:16]: print("     ", l)
        print("spec : no data race (lockset_implies_drf: every conflicting pair ordered by happens-before)")
    else:
        common.build_harness("hx_thr")
        res = one_asan_run(cfg)
        print("impl (run %s): items=%d events=%d trace verdict: %s" % (cfg_str(cfg), res["items"], res["events"], res.get("verdict")))
        for v in res["viol"]:
            print(" ", v["key"], "-", v["what"][:400])
            for l in v["replay"].get("excerpt", []): print("     ", l)
        print("model: xvdriver trace (verified checkTrace/checkInitOnce) / xvdriver pool (sequential replay)")
        print("spec : trace accepted, digests equal to the single-threaded run, pool history linearizable")
    return 0
