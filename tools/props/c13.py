"""C13 - DOM mutation keeps the tree well-formed and equal to a reference DOM.
Theorems: XV.Props.C13 (WF preserved by every modelled operation, forbidden operations raise and change nothing,
CharacterData arithmetic).  Correspondence: operation histories over 2-3 documents executed on the real DOM
(harness/hx_dom.cpp, structural dump through public getters after EVERY operation) and on the Lean reference DOM
(xvdriver dom); exhaustive over a 5-node universe (length <= 2 quick, <= 3 thorough) and random (length 200 / 1000).
The judge of a disagreement is the DOM specification, checked here DIRECTLY on the implementation's dumps and
independently of the model: `wf_violations` (tree well-formedness of a dump) and `forbidden_reason` (operations
DOM Core forbids must raise; a raising operation must leave the dump unchanged)."""
import json, os, subprocess, sys, time
from concurrent.futures import ThreadPoolExecutor
import common

PID = "C13"
GEN = ["KidOK"]
LEAN_MODULE = "XV.Props.C13"
THEOREMS = ["XV.Props.C13." + t for t in (
    "kidok_table_spec", "kind_codes_match_enum", "wf_init", "wf_step", "wf_run", "wf_reachable", "exc_unchanged",
    "chardata_spec", "chardata_laws", "chardata_step_spec", "insert_ancestor_rejected", "insert_self_rejected",
    "insert_ancestor_code", "insert_legal_accepted", "exc_iff_forbidden")]
RULE = ("histories = 'reset k' + operation lines; exhaustive tier: a fixed 10-op prefix building the universe "
        "{E1,E2,T,F,X} (+ comment C) under two documents, followed by every sequence of <= 2 operations from a list of 124 "
        "instances of 17 operation kinds (quick and thorough) and every sequence of exactly 3 operations from a core list of 59 "
        "instances of 14 kinds (thorough); random tier: 300x200 (quick) / 1000x1000 (thorough) operations with operands drawn from "
        "all live handles of 2-3 documents (self/ancestor insertion, foreign-document nodes, non-child refChild, out-of-range "
        "offsets and counts, invalid names, attributes in use, dead handles are generated deliberately); an evaluation = one "
        "operation executed and structurally dumped on both sides; non-trivial = the operation changed the dump or raised; "
        "distinct by (operation line, dump digest before it); parsed-prefix tier (implementation + DOM Core judge only): document 0 "
        "parsed from a 23-node text with an internal entity and entity-reference nodes kept (a read-only subtree with element, "
        "attribute and attribute-text content), every mutating operation addressed to every node of it, renameNode with and "
        "without a namespace on every element/attribute alone and in pairs, the same edits on a created and a cloned entity "
        "reference, and 60 (quick) / 600 (thorough) seeded random sequences of 25 such operations")
ASSUMPTIONS = ["names and data are ASCII in the generators (isXMLName is modelled for ASCII only)",
               "no DocumentType/Entity/Notation nodes and no namespace-aware (NS) methods are exercised; documents are created "
               "without a doctype, so there are no default attributes and entity references are empty and read-only",
               "user data, release(), Document.cloneNode, normalizeDocument are not modelled",
               "renameNode with a namespace URI and read-only subtrees (entity-reference expansions obtained from a parsed document) are "
               "exercised on the implementation and judged by the Python DOM Core judge only (position/children/attributes kept by "
               "renameNode; every mutation of a read-only target raises and changes nothing); the Lean reference DOM has neither a "
               "parser nor the namespace-aware rename",
               "the Lean model shows the behaviour after the minimal repairs in fixes/c13_*.diff where the C++ contradicts DOM Core"]
TRUSTED = ["tools/props/c13.py wf_violations/forbidden_reason (DOM Core structure model and exception clauses as transcribed)"]

AREA, AREA_FULL, AREA_GEN, HARNESS = "dom", "domfull", "domgen", "hx_dom"
NPAR = min(16, max(2, common.NCPU))

# ----------------------------------------------------------------------------- small helpers
def hx(s):
    return ".".join("%x" % ord(c) for c in s) if s else "-"

def unhx(t):
    if t in ("-", "~", ""):
        return ""
    return "".join(chr(int(x, 16)) for x in t.split("."))

def is_xml_name(s):
    if not s:
        return False
    def start(c): return c.isalpha() and ord(c) < 128 or c in "_:" or ord(c) >= 128
    def rest(c): return start(c) or c.isdigit() or c in "-."
    return start(s[0]) and all(rest(c) for c in s[1:])

K_ELEM, K_ATTR, K_TEXT, K_CDATA, K_EREF, K_ENT, K_PI, K_COMM, K_DOC, K_DT, K_FRAG, K_NOT = range(1, 13)
# DOM Core 1.1.1 "The Structure Model" (transcribed here, NOT taken from the translator)
ALLOWED = {
    K_DOC: {K_ELEM, K_PI, K_COMM, K_DT},
    K_FRAG: {K_ELEM, K_PI, K_COMM, K_TEXT, K_CDATA, K_EREF},
    K_EREF: {K_ELEM, K_PI, K_COMM, K_TEXT, K_CDATA, K_EREF},
    K_ELEM: {K_ELEM, K_PI, K_COMM, K_TEXT, K_CDATA, K_EREF},
    K_ENT: {K_ELEM, K_PI, K_COMM, K_TEXT, K_CDATA, K_EREF},
    K_ATTR: {K_TEXT, K_EREF},
    K_DT: set(), K_PI: set(), K_COMM: set(), K_TEXT: set(), K_CDATA: set(), K_NOT: set(),
}
WS = set(" \t\r\n")

def kid_allowed(pk, ck, cval):
    if ck in ALLOWED.get(pk, set()):
        return True
    # documented Xerces-C extension (isKidOK): an all-white-space Text may be a child of a Document
    return pk == K_DOC and ck == K_TEXT and cval != "" and all(c in WS for c in cval)

class Node:
    __slots__ = ("h", "kind", "name", "value", "parent", "children", "bad_children", "attrs", "odoc", "oelem", "de", "raw")

def parse_dump(d):
    """dump text -> {handle: Node}"""
    nodes = {}
    if not d:
        return nodes
    for ent in d.split(";"):
        f = ent.split(":")
        n = Node()
        n.raw = ent
        n.h = int(f[0]); n.kind = int(f[1]); n.name = f[2]; n.value = None if f[3] == "~" else unhx(f[3])
        n.parent = None if f[4] == "-" else (int(f[4]) if f[4].isdigit() else f[4])
        n.bad_children = None
        if f[5].startswith("!"):
            n.bad_children = f[5]; n.children = []
        else:
            n.children = [] if f[5] == "-" else [int(x) if x.isdigit() else x for x in f[5].split(",")]
        n.attrs = [] if f[6] == "-" else [int(x) if x.isdigit() else x for x in f[6].split(",")]
        n.odoc = None if f[7] == "-" else (int(f[7]) if f[7].isdigit() else f[7])
        n.oelem = None if f[8] == "-" else (int(f[8]) if f[8].isdigit() else f[8])
        n.de = None
        if len(f) > 9 and f[9].startswith("de="):
            v = f[9][3:]
            n.de = None if v == "-" else (int(v) if v.isdigit() else v)
        nodes[n.h] = n
    return nodes

def split_out(line):
    """full-mode line -> (result, dump)"""
    if " | " in line:
        r, d = line.split(" | ", 1)
        return r, d
    if line.endswith(" |"):
        return line[:-2], ""
    return line, None

# ----------------------------------------------------------------------------- Spec: well-formedness of a dump
def wf_violations(nodes):
    """Tree well-formedness of ONE structural dump, as DOM Core requires of every state (independent of the model).
    Returns a list of (category, detail)."""
    out = []
    for h, n in nodes.items():
        if n.bad_children:
            out.append(("sibling-links-inconsistent", "node %d: firstChild/nextSibling, lastChild/previousSibling and "
                        "childNodes disagree: %s" % (h, n.bad_children)))
        if len(set(n.children)) != len(n.children):
            out.append(("duplicate-child", "node %d lists a child twice: %s" % (h, n.children)))
        for c in n.children:
            if c not in nodes:
                out.append(("child-not-live", "node %d has child %s which is not a live handle" % (h, c)))
            elif nodes[c].parent != h:
                out.append(("child-parent-mismatch", "node %d lists child %s whose parentNode is %s" % (h, c, nodes[c].parent)))
            elif not (kid_allowed(n.kind, nodes[c].kind, " ") if (n.kind, nodes[c].kind) == (K_DOC, K_TEXT)
                      else kid_allowed(n.kind, nodes[c].kind, nodes[c].value or "")):
                # (a Text child of a Document is tolerated whatever its data: the Xerces-C extension admits it when it is
                #  white space, and CharacterData edits may change the data afterwards)
                out.append(("hierarchy-table", "node %d (type %d) has a child %d of type %d" % (h, n.kind, c, nodes[c].kind)))
        if n.parent is not None:
            if n.parent == h:
                out.append(("cycle", "node %d is its own parent" % h))
            elif n.parent not in nodes:
                out.append(("parent-not-live", "node %d has parent %s which is not a live handle" % (h, n.parent)))
            elif nodes[n.parent].children.count(h) != 1 and not nodes[n.parent].bad_children:
                out.append(("parent-child-mismatch", "node %d has parent %s which lists it %d times" % (
                    h, n.parent, nodes[n.parent].children.count(h))))
            if n.kind == K_ATTR:
                out.append(("attr-has-parent", "attribute %d has a parentNode" % h))
        # acyclic
        a, k = n.parent, 0
        while a is not None and a in nodes and a != h and k <= len(nodes):
            a = nodes[a].parent; k += 1
        if a == h and n.parent != h:
            out.append(("cycle", "node %d is its own ancestor" % h))
        # owner document
        if n.kind == K_DOC:
            if n.odoc is not None:
                out.append(("owner-document", "document %d has ownerDocument %s" % (h, n.odoc)))
        else:
            if n.odoc not in nodes or nodes[n.odoc].kind != K_DOC:
                out.append(("owner-document", "node %d: ownerDocument %s is not a live document" % (h, n.odoc)))
            up = n.parent if n.parent is not None else n.oelem
            if up in nodes and up != h:
                want = up if nodes[up].kind == K_DOC else nodes[up].odoc
                if n.odoc != want:
                    out.append(("owner-document", "node %d has ownerDocument %s but its parent/owner element %s belongs to %s" % (
                        h, n.odoc, up, want)))
        # attributes
        names = []
        for a in n.attrs:
            if a not in nodes or nodes[a].kind != K_ATTR:
                out.append(("attr-not-live", "element %d has attribute entry %s which is not a live Attr" % (h, a)))
                continue
            if nodes[a].oelem != h:
                out.append(("attr-owner-backlink-broken", "element %d holds attribute %d whose ownerElement is %s" % (h, a, nodes[a].oelem)))
            names.append(unhx(nodes[a].name))
        if any(not (names[i] < names[i + 1]) for i in range(len(names) - 1)):
            out.append(("attr-order", "attributes of element %d are not strictly sorted by name: %s" % (h, names)))
        if n.kind == K_ATTR and n.oelem is not None:
            if n.oelem not in nodes or h not in nodes[n.oelem].attrs:
                out.append(("attr-owner-backlink-broken", "attribute %d has ownerElement %s which does not hold it" % (h, n.oelem)))
        if n.kind == K_DOC:
            elems = [c for c in n.children if c in nodes and nodes[c].kind == K_ELEM]
            if len(elems) > 1:
                out.append(("document-two-elements", "document %d has %d element children" % (h, len(elems))))
            if n.de != (elems[0] if elems else None):
                out.append(("document-element-stale", "document %d: getDocumentElement() is %s but its element child is %s" % (
                    h, n.de, elems[0] if elems else None)))
    return out

# ----------------------------------------------------------------------------- Spec: forbidden operations
def anc_or_self(nodes, a, x):
    """a is x or an ancestor of x (bounded walk)"""
    k = 0
    while x is not None and x in nodes and k <= len(nodes) + 1:
        if x == a:
            return True
        x = nodes[x].parent; k += 1
    return False

def doc_of(nodes, h):
    return h if nodes[h].kind == K_DOC else nodes[h].odoc

def ro_nodes(nodes):
    """handles that are read-only by DOM Core: every EntityReference and everything inside one (children at any depth,
    attributes of elements inside it, the content of those attributes)"""
    ro = set()
    for h in nodes:
        x, k = h, 0
        while x is not None and x in nodes and k <= len(nodes) + 1:
            if nodes[x].kind == K_EREF:
                ro.add(h); break
            up = nodes[x].parent if nodes[x].parent is not None else nodes[x].oelem
            x = up if isinstance(up, int) else None
            k += 1
    return ro

def forbidden_reason(nodes, op):
    """DOM Core: is this operation, in the state described by `nodes`, required to raise a DOMException?
    Returns a category string or None.  Only clauses whose premises are visible in the dump are used; operands that
    are dead or of the wrong interface are not judged."""
    f = op.split()
    o = f[0]
    def H(i):
        try:
            v = int(f[i])
        except (ValueError, IndexError):
            return None
        return v if v in nodes else None
    if o in ("ce", "ca", "cp", "cr"):
        d = H(1)
        if d is None or nodes[d].kind != K_DOC: return None
        return None if is_xml_name(unhx(f[2])) else "invalid-name-accepted"
    if o in ("ap", "ib", "rp"):
        p, n = H(1), H(2)
        if p is None or n is None: return None
        ref = None
        if o == "ib" and f[3] != "-":
            ref = H(3)
            if ref is None: return None
        if o == "rp":
            ref = H(3)
            if ref is None: return None
        if anc_or_self(nodes, n, p):
            return "self-or-ancestor-insert-not-rejected"
        pk = nodes[p].kind
        ro = ro_nodes(nodes)
        if pk == K_EREF or p in ro:
            return "readonly-target-modified"
        if isinstance(nodes[n].parent, int) and nodes[n].parent in ro and pk not in (K_TEXT, K_CDATA, K_COMM, K_PI):
            return "readonly-target-modified"      # taking a node out of a read-only parent
        if nodes[n].kind == K_DOC or doc_of(nodes, n) != doc_of(nodes, p):
            return "foreign-document-node-accepted"
        if ref is not None and nodes[ref].parent != p:
            return "refchild-not-a-child-accepted"
        kids = [n] if nodes[n].kind != K_FRAG else list(nodes[n].children)
        for k in kids:
            if k in nodes and not kid_allowed(pk, nodes[k].kind, nodes[k].value or ""):
                return "hierarchy-type-violation-accepted"
        if pk == K_DOC:
            have = [c for c in nodes[p].children if c in nodes and nodes[c].kind == K_ELEM and c not in kids]
            if o == "rp" and ref in have:
                have.remove(ref)
            new = [k for k in kids if k in nodes and nodes[k].kind == K_ELEM]
            if len(have) + len(new) > 1:
                return "second-document-element-accepted"
        return None
    if o == "rm":
        p, c = H(1), H(2)
        if p is None or c is None: return None
        if nodes[c].parent != p: return "remove-non-child-accepted"
        if nodes[p].kind == K_EREF or p in ro_nodes(nodes): return "readonly-target-modified"
        return None
    if o in ("ss", "di", "dd", "dr", "sp"):
        t = H(1)
        if t is None: return None
        ok_kinds = (K_TEXT, K_CDATA) if o == "sp" else (K_TEXT, K_CDATA, K_COMM)
        if nodes[t].kind not in ok_kinds: return None
        if o != "ss" and t in ro_nodes(nodes):
            return "readonly-target-modified"
        if int(f[2]) > len(nodes[t].value or ""):
            return "offset-out-of-range-accepted"
        return None
    if o in ("da", "ds"):
        t = H(1)
        if t is None: return None
        if nodes[t].kind not in ((K_TEXT, K_CDATA, K_COMM, K_PI) if o == "ds" else (K_TEXT, K_CDATA, K_COMM)): return None
        return "readonly-target-modified" if t in ro_nodes(nodes) else None
    if o == "sv":
        a = H(1)
        if a is None or nodes[a].kind != K_ATTR: return None
        return "readonly-target-modified" if a in ro_nodes(nodes) else None
    if o == "ra":
        e = H(1)
        if e is None or nodes[e].kind != K_ELEM: return None
        return "readonly-target-modified" if e in ro_nodes(nodes) else None
    if o == "sa":
        e = H(1)
        if e is None or nodes[e].kind != K_ELEM: return None
        if e in ro_nodes(nodes): return "readonly-target-modified"
        nm = unhx(f[2])
        have = any(a in nodes and unhx(nodes[a].name) == nm for a in nodes[e].attrs)
        return None if have or is_xml_name(nm) else "invalid-name-accepted"
    if o == "sn":
        e, a = H(1), H(2)
        if e is None or a is None or nodes[e].kind != K_ELEM or nodes[a].kind != K_ATTR: return None
        if e in ro_nodes(nodes): return "readonly-target-modified"
        if doc_of(nodes, a) != doc_of(nodes, e): return "foreign-document-node-accepted"
        if nodes[a].oelem is not None and nodes[a].oelem != e: return "inuse-attribute-accepted"
        return None
    if o == "rn":
        e, a = H(1), H(2)
        if e is None or a is None or nodes[e].kind != K_ELEM or nodes[a].kind != K_ATTR: return None
        if e in ro_nodes(nodes): return "readonly-target-modified"
        return None if a in nodes[e].attrs else "remove-foreign-attribute-accepted"
    if o == "rns":
        d, n = H(1), H(2)
        if d is None or n is None or nodes[d].kind != K_DOC or len(f) != 5: return None
        if nodes[n].kind == K_DOC or nodes[n].odoc != d: return "foreign-document-node-accepted"
        if nodes[n].kind not in (K_ELEM, K_ATTR): return "rename-unsupported-type-accepted"
        return None if is_xml_name(unhx(f[4])) else "rename-invalid-name-accepted"
    if o == "rnm":
        d, n = H(1), H(2)
        if d is None or n is None or nodes[d].kind != K_DOC: return None
        if nodes[n].kind == K_DOC or nodes[n].odoc != d: return "foreign-document-node-accepted"
        if nodes[n].kind not in (K_ELEM, K_ATTR): return "rename-unsupported-type-accepted"
        return None if is_xml_name(unhx(f[3])) else "rename-invalid-name-accepted"
    if o == "im":
        d, n = H(1), H(2)
        if d is None or n is None or nodes[d].kind != K_DOC: return None
        return "import-document-accepted" if nodes[n].kind in (K_DOC, K_DT) else None
    return None

def normalize_violation(nodes, root):
    """DOM Core Node.normalize(): afterwards the sub-tree under `root`, *including attribute nodes*, has neither
    adjacent Text nodes nor empty Text nodes."""
    todo, seen = [root], set()
    while todo:
        x = todo.pop()
        if x in seen or x not in nodes:
            continue
        seen.add(x)
        kids = [c for c in nodes[x].children if c in nodes]
        if nodes[x].kind != K_EREF:        # the content of an entity reference is read-only
            for a, b in zip(kids, kids[1:]):
                if nodes[a].kind == K_TEXT and nodes[b].kind == K_TEXT:
                    return "adjacent Text nodes %d, %d under node %d" % (a, b, x)
            for c in kids:
                if nodes[c].kind == K_TEXT and (nodes[c].value or "") == "":
                    return "empty Text node %d under node %d" % (c, x)
        todo += kids
        todo += [a for a in nodes[x].attrs if a in nodes]
    return None

def chardata_violation(prev, nodes, op, res):
    """DOM Core CharacterData / Text.splitText semantics of a successful call, computed from the previous dump."""
    f = op.split()
    o = f[0]
    if o not in ("ss", "da", "di", "dd", "dr", "ds", "sp") or not res.startswith("ok"):
        return None
    try:
        t = int(f[1])
    except ValueError:
        return None
    if t not in prev or t not in nodes:
        return None
    kinds = (K_TEXT, K_CDATA) if o == "sp" else ((K_TEXT, K_CDATA, K_COMM, K_PI) if o == "ds" else (K_TEXT, K_CDATA, K_COMM))
    if prev[t].kind not in kinds:
        return None
    old = prev[t].value or ""
    new = nodes[t].value or ""
    if o == "ss":
        off, cnt = int(f[2]), int(f[3])
        want = old[off:off + cnt]
        got = unhx(res.split()[1][1:]) if len(res.split()) > 1 else None
        if got != want:
            return "substringData(%d,%d) of %r returned %r, DOM Core: %r" % (off, cnt, old, got, want)
        return None if new == old else "substringData changed the data"
    if o == "da": want = old + unhx(f[2])
    elif o == "di": want = old[:int(f[2])] + unhx(f[3]) + old[int(f[2]):]
    elif o == "dd": want = old[:int(f[2])] + old[int(f[2]) + int(f[3]):]
    elif o == "dr": want = old[:int(f[2])] + unhx(f[4]) + old[int(f[2]) + int(f[3]):]
    elif o == "ds": want = unhx(f[2])
    else:
        off = int(f[2])
        want = old[:off]
        r = res.split()[1] if len(res.split()) > 1 else ""
        k = int(r[1:]) if r.startswith("n") and r[1:].isdigit() else None
        if k is None or k not in nodes:
            return "splitText returned no live node"
        if (nodes[k].value or "") != old[off:] or nodes[k].kind != prev[t].kind:
            return "splitText(%d) of %r: the new node holds %r, DOM Core: %r" % (off, old, nodes[k].value, old[off:])
        par = prev[t].parent
        if par is not None and par in nodes:
            kids = nodes[par].children
            if t not in kids or kids.index(t) + 1 >= len(kids) or kids[kids.index(t) + 1] != k:
                return "splitText: the new node is not the next sibling of the original"
    if new != want:
        return "%s on %r left %r, DOM Core: %r" % (o, old, new, want)
    return None

def surgery_violation(prev, nodes, op, res):
    """DOM Core appendChild / insertBefore / removeChild / replaceChild: the child list of the target after a
    successful call, the parent of the moved nodes, and the frame (no other node changes)."""
    f = op.split()
    o = f[0]
    if o not in ("ap", "ib", "rm", "rp") or not res.startswith("ok"):
        return None
    try:
        p, n = int(f[1]), int(f[2])
    except ValueError:
        return None
    if p not in prev or n not in prev or p not in nodes or n not in nodes or prev[p].bad_children or nodes[p].bad_children:
        return None
    touched = {p, n}
    if o == "rm":
        exp = [c for c in prev[p].children if c != n]
        moved, newpar = [n], None
    else:
        ref = None
        if o == "ib" and f[3] != "-": ref = int(f[3])
        if o == "rp": ref = int(f[3])
        moved = [n] if prev[n].kind != K_FRAG else list(prev[n].children)
        if ref == n:
            exp, moved = list(prev[p].children), []
        else:
            exp = [c for c in prev[p].children if c not in moved]
            k = exp.index(ref) if ref in exp else len(exp)
            exp[k:k] = moved
        newpar = p
        if o == "rp":
            exp = [c for c in exp if c != ref]
            touched.add(ref)
            if ref in nodes and nodes[ref].parent is not None:
                return "replaceChild: the replaced node %s still has a parent" % ref
    if nodes[p].children != exp:
        return "%s: children of %d are %s, DOM Core: %s" % (op, p, nodes[p].children, exp)
    for m in moved:
        touched.add(m)
        if prev[m].parent is not None:
            touched.add(prev[m].parent)
        if m in nodes and nodes[m].parent != newpar:
            return "%s: node %d has parent %s afterwards, DOM Core: %s" % (op, m, nodes[m].parent, newpar)
    for h, x in nodes.items():
        if h not in touched and h in prev and prev[h].raw != x.raw:
            # a Document's cached documentElement may legitimately change with its children
            if x.kind == K_DOC and h in {doc_of(prev, q) for q in touched if q in prev}:
                continue
            return "%s changed node %d, which is not involved: %s -> %s" % (op, h, prev[h].raw, x.raw)
    return None

def rename_violation(prev, nodes, op, res):
    """DOM Core renameNode: the (possibly new) node has the new name and stands exactly where the old one stood, with
    the same children and attributes; an attribute keeps its owner element, children and value."""
    f = op.split()
    if f[0] not in ("rns", "rnm") or not res.startswith("ok"):
        return None
    try:
        n = int(f[2])
    except (ValueError, IndexError):
        return None
    if n not in prev:
        return None
    r = res.split()[1] if len(res.split()) > 1 else ""
    k = int(r[1:]) if r.startswith("n") and r[1:].isdigit() else None
    if k is None or k not in nodes:
        return "renameNode returned no live node"
    want = unhx(f[4] if f[0] == "rns" else f[3])
    if unhx(nodes[k].name) != want:
        return "renameNode: the node is called %r, asked for %r" % (unhx(nodes[k].name), want)
    if nodes[k].kind != prev[n].kind:
        return "renameNode changed the node type"
    if prev[n].kind == K_ELEM:
        par = prev[n].parent
        if nodes[k].parent != par:
            return "renameNode: parent was %s, is %s" % (par, nodes[k].parent)
        if isinstance(par, int) and par in nodes and par in prev and not nodes[par].bad_children:
            exp = [k if c == n else c for c in prev[par].children]
            if nodes[par].children != exp:
                return "renameNode moved the element: children of %d are %s, DOM Core: %s" % (par, nodes[par].children, exp)
        if nodes[k].children != prev[n].children:
            return "renameNode: children were %s, are %s" % (prev[n].children, nodes[k].children)
        if sorted(map(str, nodes[k].attrs)) != sorted(map(str, prev[n].attrs)):
            return "renameNode: attributes were %s, are %s" % (prev[n].attrs, nodes[k].attrs)
    elif prev[n].kind == K_ATTR:
        if nodes[k].oelem != prev[n].oelem:
            return "renameNode: owner element was %s, is %s" % (prev[n].oelem, nodes[k].oelem)
        if nodes[k].children != prev[n].children or nodes[k].value != prev[n].value:
            return "renameNode changed the attribute's content"
    return None

def judge_history(ops, outs):
    """ops[i] / outs[i] = operation line and the implementation's FULL-mode output line.  Returns the first
    contradiction between the implementation and DOM Core as (index, category, detail), or None."""
    prev_nodes, prev_dump = None, None
    for i, (op, line) in enumerate(zip(ops, outs)):
        if line is None:
            return (i, "no-output", "no output for operation %r" % op)
        if line.startswith("HANG"):
            return (i, "hang", "operation %r does not terminate" % op)
        if line.startswith("CRASH"):
            return (i, "crash", "operation %r: %s" % (op, line))
        if line.startswith("abandoned"):
            return None
        res, d = split_out(line)
        if d is None:
            return (i, "no-dump", "unparsable output %r for %r" % (line[:200], op))
        if res.startswith("exc ") and res.split()[1] in ("FOREIGN-EXCEPTION", "XMLException", "OutOfMemoryException", "UNKNOWN_DOM_CODE"):
            return (i, "foreign-exception", "operation %r raised %s" % (op, res))
        if d.startswith("DUMP-EXCEPTION"):
            return (i, "getter-raised", "after %r a public getter raised while the structure was read: %s" % (op, d))
        try:
            nodes = parse_dump(d)
        except Exception as e:   # noqa
            return (i, "no-dump", "unparsable dump for %r: %r" % (op, e))
        if prev_nodes is not None and not op.startswith("reset"):
            fr = forbidden_reason(prev_nodes, op)
            if fr and res.startswith("ok"):
                return (i, fr, "DOM Core requires %r to raise in this state, it returned %r" % (op, res))
            if res.startswith("exc") and d != prev_dump:
                return (i, "exception-changed-tree", "%r raised %s but the tree changed" % (op, res.split()[1]))
            cv = chardata_violation(prev_nodes, nodes, op, res)
            if cv:
                return (i, "chardata-semantics", cv)
            sv = surgery_violation(prev_nodes, nodes, op, res)
            if sv:
                return (i, "tree-surgery-semantics", sv)
            rv = rename_violation(prev_nodes, nodes, op, res)
            if rv:
                return (i, "rename-semantics", rv)
        w = wf_violations(nodes)
        if w:
            return (i, w[0][0], "after %r: %s" % (op, w[0][1]))
        if op.startswith("nz ") and res.startswith("ok"):
            f = op.split()
            if f[1].isdigit() and int(f[1]) in nodes:
                nv = normalize_violation(nodes, int(f[1]))
                if nv:
                    return (i, "normalize-leaves-empty-or-adjacent-text", "after %r: %s" % (op, nv))
        prev_nodes, prev_dump = nodes, d
    return None

# ----------------------------------------------------------------------------- running both sides
def _chunks(hists, k):
    """k strided chunks (index lists), so that expensive histories (crashes, hangs) spread over the workers"""
    k = max(1, min(k, len(hists)))
    return [list(range(i, len(hists), k)) for i in range(k)]

def _run_model_chunk(area, hists):
    data = ("\n".join("\n".join(h) for h in hists) + "\n").encode()
    out = common.run_driver([area], input=data, timeout=3000).decode(errors="replace").split("\n")
    res, pos = [], 0
    for h in hists:
        res.append(out[pos:pos + len(h)]); pos += len(h)
    return res

def run_model(hists, full=False):
    area = AREA_FULL if full else AREA
    res = [None] * len(hists)
    with ThreadPoolExecutor(NPAR) as ex:
        futs = [(idx, ex.submit(_run_model_chunk, area, [hists[j] for j in idx])) for idx in _chunks(hists, NPAR)]
        for idx, fu in futs:
            for j, r in zip(idx, fu.result()):
                res[j] = r
    return res

_EXE = {}

def _harness_exe():
    if "exe" not in _EXE:      # build_harness stats every header of the library: once per run is enough
        _EXE["exe"] = common.build_harness(HARNESS)
    return _EXE["exe"]

def _run_impl_chunk(hists, full, wd_ms, budget):
    """Runs a chunk of histories through the harness; on a crash/hang the process is restarted after the
    offending history.  Returns (outputs per history, list of (index-in-chunk, kind, stderr summary))."""
    exe = _harness_exe()
    env = dict(os.environ); env.update(common.HENV); env["HX_DOM_WATCHDOG_MS"] = str(wd_ms)
    if not full:   # symbolising an ASan report costs seconds; the full-mode re-run of a disagreeing history does it
        env["ASAN_OPTIONS"] = env.get("ASAN_OPTIONS", "") + ":symbolize=0"
    res = [None] * len(hists)
    events = []
    start = 0
    confirmed = 0
    while start < len(hists):
        data = ("\n".join("\n".join(h) for h in hists[start:]) + "\n").encode()
        p = subprocess.run([exe] + (["full"] if full else []), input=data, env=env, stdout=subprocess.PIPE,
                           stderr=subprocess.PIPE, timeout=3000)
        out = p.stdout.decode(errors="replace").split("\n")
        if out and out[-1] == "":
            out.pop()
        pos, k = 0, start
        while k < len(hists) and pos + len(hists[k]) <= len(out) and not any(
                l.startswith("HANG") for l in out[pos:pos + len(hists[k])]):
            res[k] = out[pos:pos + len(hists[k])]; pos += len(hists[k]); k += 1
        if k >= len(hists):
            err = p.stderr.decode(errors="replace")
            if "runtime error:" in err or "AddressSanitizer" in err:
                events.append((len(hists) - 1, "sanitizer", common.sanitizer_summary(err)))
            break
        # history k is incomplete: crash or hang
        part = out[pos:]
        err = p.stderr.decode(errors="replace")
        hang = any(l.startswith("HANG") for l in part)
        part = [l for l in part if not l.startswith("HANG")]
        if hang and wd_ms < 2500 and confirmed < 4:
            # a short watchdog can fire on a loaded machine: confirm with a long one before believing it
            # (after a few genuine hangs in this chunk the confirmation is skipped)
            r2, _ = _run_impl_chunk([hists[k]], full, 3000, 1)
            if r2[0] and not any((l or "").startswith(("HANG", "CRASH")) for l in r2[0]):
                res[k] = r2[0]
                start = k + 1
                continue
            confirmed += 1
        tag = "HANG" if hang else "CRASH rc=%d %s" % (p.returncode, common.sanitizer_summary(err))
        res[k] = part + [tag] + [None] * (len(hists[k]) - len(part) - 1)
        res[k] = res[k][:len(hists[k])]
        events.append((k, "hang" if hang else "crash", common.sanitizer_summary(err)))
        start = k + 1
        if len(events) > budget:
            for j in range(start, len(hists)):
                res[j] = ["SKIPPED"] * len(hists[j])
            events.append((start, "budget", "restart budget exhausted; %d histories not executed" % (len(hists) - start)))
            break
    return res, events

def run_impl(hists, full=False, wd_ms=2000, budget=40):
    _harness_exe()
    res = [None] * len(hists)
    events = []
    with ThreadPoolExecutor(NPAR) as ex:
        futs = [(idx, ex.submit(_run_impl_chunk, [hists[j] for j in idx], full, wd_ms, budget))
                for idx in _chunks(hists, NPAR)]
        for idx, fu in futs:
            r, ev = fu.result()
            for j, x in zip(idx, r):
                res[j] = x
            events += [(idx[min(k, len(idx) - 1)], kind, s) for k, kind, s in ev]
    return res, events

# ----------------------------------------------------------------------------- generators
PREFIX = ["reset 2", "ce 0 61", "ce 0 62", "ct 0 41.42", "cf 0", "cc 0 43", "ce 1 63",
          "ap 0 2", "ap 2 3", "ap 2 4", "ap 5 6"]
D0, E1, E2, T, F, C, X = 0, 2, 3, 4, 5, 6, 7

def exhaustive_ops():
    U = [E1, E2, T, F, X]
    ops = []
    for p in [D0] + U:
        for n in U:
            ops.append("ap %d %d" % (p, n))
    for p in (D0, E1, E2):
        for n in U:
            for r in (E2, T):
                ops.append("ib %d %d %d" % (p, n, r))
    for p in (D0, E1, F):
        for c in (E1, E2, T, C):
            ops.append("rm %d %d" % (p, c))
    for p in (D0, E1):
        for n in U:
            for o in (E1, E2, T):
                ops.append("rp %d %d %d" % (p, n, o))
    ops += ["cl %d 1" % E1, "cl %d 1" % F, "cl %d 0" % E1,
            "sa %d 61 78" % E1, "sa %d 31.61 78" % E1, "ra %d 61" % E1,
            "sp %d 1" % T, "sp %d 9" % T, "dd %d 1 5" % T, "dd %d 9 1" % T, "dd %d 1 18446744073709551615" % T, "dr %d 1 18446744073709551615 58" % T, "ss %d 1 9" % T, "ss %d 1 4096" % T,
            "di %d 3 5a" % T,
            "nz %d" % E1, "nz %d" % D0, "ds %d -" % T, "ad %d %d" % (D0, E2), "ad %d %d" % (D0, X),
            "rnm %d %d 7a" % (D0, E2), "rnm %d %d 31.61" % (D0, E2), "im %d %d 1" % (D0, X), "im 1 %d 1" % E1]
    return ops

def exhaustive_core_ops():
    """the smaller instance list used for length 3 (thorough): 12 operation kinds over the same universe"""
    U = [E1, E2, T, F, X]
    ops = []
    for p in (D0, E1, E2, F):
        for n in U:
            ops.append("ap %d %d" % (p, n))
    for n in U:
        for r in (E2, T):
            ops.append("ib %d %d %d" % (E1, n, r))
    for p, c in ((D0, E1), (E1, E2), (E1, T), (F, C), (E1, C), (D0, E2), (F, T), (E2, E1)):
        ops.append("rm %d %d" % (p, c))
    for n in U:
        for o in (E2, T):
            ops.append("rp %d %d %d" % (E1, n, o))
    ops += ["cl %d 1" % E1, "sa %d 61 78" % E1, "ra %d 61" % E1, "sp %d 1" % T, "dd %d 1 5" % T, "ss %d 1 9" % T,
            "nz %d" % E1, "ad %d %d" % (D0, E2), "rnm %d %d 7a" % (D0, E2), "im 1 %d 1" % E1, "ds %d -" % T]
    return ops

def exhaustive_batches(th):
    """quick: every history of length <= 2 over the full instance list; thorough: additionally every history of
    length 3 over the core instance list.  Yielded in batches (bounded memory)."""
    full = exhaustive_ops()
    yield "len<=2/full", gen_exhaustive(2, full)
    if th:
        core = exhaustive_core_ops()
        for o1 in core:
            yield "len=3/core/" + o1.replace(" ", "_"), [PREFIX + [o1, o2, o3] for o2 in core for o3 in core]

def gen_exhaustive(maxlen, ops=None):
    ops = ops or exhaustive_ops()
    hists = []
    def rec(prefix, depth):
        if depth:
            hists.append(PREFIX + prefix)
        if depth == maxlen:
            return
        for o in ops:
            rec(prefix + [o], depth + 1)
    rec([], 0)
    return hists

NAMES_OK = ["a", "b", "c", "d", "x:y", "_1", "id"]
NAMES_BAD = ["1a", "a b", "", "-a", "a<"]
DATA = ["", "A", "AB", "ABC", " ", " \n", "xyzw", "hello world", "<&>", "q" * 9]
BIG = [4095, 4096, 4097, 5000, 65536, 4294967295, 4294967296, 9223372036854775807, 9223372036854775808,
       18446744073709551613, 18446744073709551614, 18446744073709551615]   # up to SIZE_MAX: offset+count must not wrap

class Oracle:
    """the Lean reference DOM as a generation oracle (kinds / structure of the live handles)"""
    def __init__(self):
        self.p = subprocess.Popen([common.driver_path(), AREA_GEN], stdin=subprocess.PIPE, stdout=subprocess.PIPE)
    def send(self, line):
        self.p.stdin.write((line + "\n").encode()); self.p.stdin.flush()
        out = self.p.stdout.readline().decode(errors="replace").rstrip("\n")
        if not out:
            raise common.InfraError("xvdriver domgen died on %r" % line)
        head, d = split_out(out)
        return head, parse_dump(d or "")
    def close(self):
        try:
            self.p.stdin.close(); self.p.wait(timeout=10)
        except Exception:   # noqa
            self.p.kill()

def gen_random_history(seed, length, oracle, cap=70):
    r = common.SplitMix(seed)
    ndocs = 2 + r.below(2)
    ops, model = [], []
    def emit(line):
        head, nodes = oracle.send(line)
        ops.append(line); model.append(head)
        return nodes
    nodes = emit("reset %d" % ndocs)
    def pick(pred=None, wild=3):
        """a live handle satisfying pred; with probability wild% any integer (possibly dead / out of range)"""
        hs = sorted(nodes)
        if r.below(100) < wild:
            return r.below(max(hs) + 3)
        c = [h for h in hs if pred is None or pred(nodes[h])]
        if not c:
            return r.choice(hs)
        return r.choice(c)
    is_doc = lambda n: n.kind == K_DOC
    is_par = lambda n: n.kind in (K_DOC, K_ELEM, K_FRAG, K_ATTR)
    is_el = lambda n: n.kind == K_ELEM
    is_at = lambda n: n.kind == K_ATTR
    is_cd = lambda n: n.kind in (K_TEXT, K_CDATA, K_COMM)
    is_tx = lambda n: n.kind in (K_TEXT, K_CDATA)
    not_doc = lambda n: n.kind != K_DOC
    def name():
        return hx(r.choice(NAMES_BAD) if r.below(100) < 8 else r.choice(NAMES_OK))
    def data():
        return hx(r.choice(DATA))
    def offset(t):
        ln = len(nodes[t].value or "") if t in nodes else 0
        k = r.below(100)
        if k < 70: return r.below(ln + 1)
        if k < 92: return ln + 1 + r.below(3)
        return r.choice(BIG)
    def count():
        k = r.below(100)
        if k < 80: return r.below(6)
        if k < 93: return 7 + r.below(20)
        return r.choice(BIG)
    def new_child_for(p):
        k = r.below(100)
        if k < 6: return p                                            # the node itself
        if k < 14 and p in nodes:                                     # an ancestor
            a, chain = nodes[p].parent, []
            while a is not None and a in nodes and len(chain) < 50:
                chain.append(a); a = nodes[a].parent
            if chain: return r.choice(chain)
        if k < 22 and p in nodes:                                     # a node of another document
            dp = doc_of(nodes, p)
            return pick(lambda n: n.kind != K_DOC and n.odoc != dp)
        if k < 30:
            return pick(lambda n: n.kind == K_FRAG)
        return pick(not_doc)
    def ref_for(p):
        k = r.below(100)
        kids = nodes[p].children if p in nodes else []
        if k < 60 and kids: return r.choice(kids)
        if k < 75: return "-"
        return pick(not_doc)
    while len(ops) < length + 1:
        many = len(nodes) >= cap
        k = r.below(1000)
        if k < 230 and not many:
            d = pick(is_doc, 2)
            c = r.below(100)
            if c < 40: line = "ce %d %s" % (d, name())
            elif c < 60: line = "ct %d %s" % (d, data())
            elif c < 68: line = "cc %d %s" % (d, data())
            elif c < 74: line = "cd %d %s" % (d, data())
            elif c < 80: line = "cp %d %s %s" % (d, name(), data())
            elif c < 88: line = "ca %d %s" % (d, name())
            elif c < 96: line = "cf %d" % d
            else: line = "cr %d %s" % (d, name())
        elif k < 400:
            p = pick(is_par if r.below(100) < 88 else None)
            line = "ap %d %d" % (p, new_child_for(p))
        elif k < 500:
            p = pick(is_par if r.below(100) < 88 else None)
            line = "ib %d %d %s" % (p, new_child_for(p), ref_for(p))
        elif k < 570:
            c = pick(lambda n: n.parent is not None)
            if r.below(100) < 75 and c in nodes and nodes[c].parent is not None:
                line = "rm %d %d" % (nodes[c].parent, c)
            else:
                line = "rm %d %d" % (pick(is_par), pick(not_doc))
        elif k < 650:
            p = pick(is_par if r.below(100) < 88 else None)
            o = ref_for(p)
            if o == "-": o = pick(not_doc)
            line = "rp %d %d %s" % (p, new_child_for(p), o)
        elif k < 700:
            line = "sa %d %s %s" % (pick(is_el if r.below(100) < 92 else None), name(), data())
        elif k < 720:
            line = "ra %d %s" % (pick(is_el), name())
        elif k < 760:
            line = "sn %d %d" % (pick(is_el), pick(is_at if r.below(100) < 95 else None))
        elif k < 785:
            a = pick(is_at)
            if r.below(100) < 70 and a in nodes and nodes[a].oelem is not None:
                line = "rn %d %d" % (nodes[a].oelem, a)
            else:
                line = "rn %d %d" % (pick(is_el), a)
        elif k < 800:
            line = "sv %d %s" % (pick(is_at), data())
        elif k < 830:
            t = pick(is_cd if r.below(100) < 92 else None); line = "ss %d %d %d" % (t, offset(t), count())
        elif k < 845:
            line = "da %d %s" % (pick(is_cd), data())
        elif k < 865:
            t = pick(is_cd); line = "di %d %d %s" % (t, offset(t), data())
        elif k < 885:
            t = pick(is_cd); line = "dd %d %d %d" % (t, offset(t), count())
        elif k < 900:
            t = pick(is_cd); line = "dr %d %d %d %s" % (t, offset(t), count(), data())
        elif k < 915:
            line = "ds %d %s" % (pick(lambda n: n.kind in (K_TEXT, K_CDATA, K_COMM, K_PI)), data())
        elif k < 940 and not many:
            t = pick(is_tx if r.below(100) < 92 else None); line = "sp %d %d" % (t, offset(t))
        elif k < 955 and not many:
            line = "cl %d %d" % (pick(lambda n: n.kind != K_DOC and len(n.children) < 6), r.below(2))
        elif k < 965 and not many:
            line = "im %d %d %d" % (pick(is_doc, 2), pick(lambda n: len(n.children) < 6), r.below(2))
        elif k < 975:
            line = "ad %d %d" % (pick(is_doc, 2), pick(None))
        elif k < 988:
            line = "nz %d" % pick(is_par if r.below(100) < 85 else None)
        else:
            line = "rnm %d %d %s" % (pick(is_doc, 2), pick(lambda n: n.kind in (K_ELEM, K_ATTR)) if r.below(100) < 85 else pick(None), name())
        nodes = emit(line) or nodes
    return ops, model

def _gen_worker(args):
    seeds, length = args
    o = Oracle()
    try:
        return [gen_random_history(s, length, o) for s in seeds]
    finally:
        o.close()

def gen_random(ctx, nhist, length):
    seeds = [ctx.rng.next() for _ in range(nhist)]
    groups = [seeds[i::NPAR] for i in range(NPAR) if seeds[i::NPAR]]
    import multiprocessing
    with multiprocessing.Pool(len(groups)) as pool:
        parts = pool.map(_gen_worker, [(g, length) for g in groups])
    by_seed = {}
    for g, part in zip(groups, parts):
        for s, h in zip(g, part):
            by_seed[s] = h
    return [by_seed[s] for s in seeds]

# ----------------------------------------------------------------------------- violations
CREATING = ("ce", "ct", "cc", "cd", "cp", "ca", "cf", "cr", "cl", "im", "sa", "sv", "sp", "reset", "resetp", "rns")

def key_of(cat):
    return "dom:" + cat

def shrink(ops, cat, wd_ms=3000, rounds=60):
    """drop operations that do not allocate handles while the implementation still contradicts the Spec in the same
    category (handles of the remaining operations are unaffected)"""
    ops = list(ops)
    def still(cand):
        out, _ = _run_impl_chunk([cand], True, wd_ms, 2)
        j = judge_history(cand, out[0])
        return j is not None and j[1] == cat
    n = 0
    step = max(1, len(ops) // 2)
    while step >= 1 and n < rounds:
        i, progress = 1, False
        while i < len(ops) - 1 and n < rounds:
            blk = [k for k in range(i, min(i + step, len(ops) - 1)) if ops[k].split()[0] not in CREATING]
            if blk:
                cand = [o for k, o in enumerate(ops) if k not in blk]
                n += 1
                if still(cand):
                    ops = cand; progress = True
                    continue
            i += step
        if step == 1 and not progress:
            break
        step = max(1, step // 2) if step > 1 else (1 if progress else 0)
    return ops

def report(ctx, hist, j, origin, do_shrink=True):
    i, cat, detail = j
    ops = hist[:i + 1]
    if do_shrink and len(ops) > 6 and cat not in ("hang", "crash"):
        try:
            ops = shrink(ops, cat)
        except Exception as e:   # noqa
            ctx.notes.append("shrink failed: %r" % e)
    ctx.violations.append({"key": key_of(cat), "concrete": True,
                           "what": "real DOM contradicts DOM Core [%s]: %s (history of %d operations, %s)" % (cat, detail, len(ops) - 1, origin),
                           "replay": {"history": ops, "category": cat, "detail": detail, "origin": origin}})

def compare_and_judge(ctx, hists, model, impl, events, origin, max_judge=120):
    """digest comparison; every disagreeing history (up to max_judge, shortest first) is re-run in full mode and the
    implementation's dumps are judged by the Spec"""
    bad = []
    evals = 0
    for k, (h, m, i) in enumerate(zip(hists, model, impl)):
        first = None
        for j in range(len(h)):
            a = m[j] if j < len(m) else None
            b = i[j] if i and j < len(i) else None
            if b == "SKIPPED":
                break
            evals += 1
            if a != b:
                first = j; break
        if first is not None:
            bad.append((first, k))
    ctx.stats["evaluations"] = ctx.stats.get("evaluations", 0) + evals
    okey = "disagreeing_histories_" + origin.split()[0]
    ctx.stats[okey] = ctx.stats.get(okey, 0) + len(bad)
    if not bad:
        return
    bad.sort(key=lambda t: (len(hists[t[1]]), t[0]))
    seen_cat = {}
    unexplained = []
    ctx.stats["judged_total"] = ctx.stats.get("judged_total", 0) + min(len(bad), max_judge)
    sub = [hists[k][:first + 1] for first, k in bad[:max_judge]]
    tj = time.time()
    full_i, _ = run_impl(sub, full=True, wd_ms=3000, budget=10 ** 6)
    full_m = run_model(sub, full=True)
    common.log("c13 %s: %d disagreeing histories re-run in full mode %.1fs" % (origin, len(sub), time.time() - tj))
    for (first, k), h, oi, om in zip(bad[:max_judge], sub, full_i, full_m):
        j = judge_history(h, oi)
        if j is None:
            unexplained.append((h, om[-1] if om else None, oi[-1] if oi else None))
            continue
        seen_cat.setdefault(j[1], []).append((h, j))
    for cat, lst in seen_cat.items():
        if any(v["key"] == key_of(cat) for v in ctx.violations):
            continue
        h, j = min(lst, key=lambda t: len(t[0]))
        tj = time.time()
        report(ctx, h, j, origin)
        common.log("c13 reported %s (shrink %.1fs)" % (cat, time.time() - tj))
        ctx.stats.setdefault("violation_witnesses", {})[cat] = ctx.stats.get("violation_witnesses", {}).get(cat, 0) + len(lst)
    if unexplained and not any(v["key"] == "corr:dom" for v in ctx.violations):
        h, mo, io = unexplained[0]
        ctx.violations.append({"key": "corr:dom", "concrete": False,
            "what": "correspondence dom (Lean reference DOM vs real DOM) no longer checks on %d histories (%s); the DOM Core judge "
                    "finds no fault in the implementation's dumps; first: %s" % (len(unexplained), origin, " / ".join(h[-3:])),
            "replay": {"correspondence": "dom", "history": h, "model": mo, "impl": io}})
    if len(bad) > max_judge:
        ctx.notes.append("%s: %d disagreeing histories, %d judged" % (origin, len(bad), max_judge))

def nontrivial_count(hists, model):
    seen = set()
    for h, m in zip(hists, model):
        prev = None
        for op, line in zip(h, m):
            f = line.split()
            dig = f[-1] if f else ""
            if prev is not None and (dig != prev or line.startswith("exc")):
                seen.add((op, prev))
            prev = dig
    return len(seen)

# ----------------------------------------------------------------------------- parsed-prefix tier (judge only)
NS1, QN1, QN2 = hx("urn:x"), hx("p:b2"), hx("q:z")

def parsed_prefix_histories(ctx):
    """Histories over `resetp`: document 0 is parsed from
        <!DOCTYPE r [<!ENTITY e "<x a='1' b='2'>t<y a='3'>u</y></x>">]><r w="0"><p a="free">q</p>&e;<c/><!--z--></r>
    with entity-reference nodes kept, so it has a read-only subtree with element + attribute content.  Every mutating
    operation is addressed to every node of it (inside and outside the entity reference), renameNode with and without a
    namespace is applied to every element/attribute, alone and in pairs; plus seeded random sequences.  These run on the
    implementation only and are judged by the DOM Core judge (the Lean reference DOM has no parser / namespace-aware
    rename)."""
    out, _ = run_impl([["resetp"]], full=True, wd_ms=5000, budget=2)
    line = (out[0] or [None])[0]
    if not line or " | " not in line:
        raise common.InfraError("hx_dom resetp failed: %r" % (line,))
    nodes = parse_dump(split_out(line)[1])
    N = max(nodes) + 1
    T1, E1, A1 = N, N + 1, N + 2
    base = ["resetp", "ct 0 5a", "ce 0 6e", "ca 0 6b"]
    doc0 = [h for h in sorted(nodes) if h != 0 and doc_of(nodes, h) == 0]
    def ops_for(h):
        n = nodes[h]
        kid = n.children[0] if n.children else None
        o = []
        if n.kind == K_ATTR:
            o += ["sv %d 39" % h, "ap %d %d" % (h, T1), "rns 0 %d %s %s" % (h, NS1, QN2), "rnm 0 %d 7a" % h, "nz %d" % h]
            if kid is not None: o += ["rm %d %d" % (h, kid), "rp %d %d %d" % (h, T1, kid)]
        elif n.kind in (K_TEXT, K_CDATA, K_COMM):
            o += ["ds %d 39" % h, "da %d 39" % h, "dd %d 0 1" % h, "di %d 0 39" % h, "dr %d 0 1 39" % h]
            if n.kind != K_COMM: o += ["sp %d 0" % h, "sp %d 1" % h]
        elif n.kind == K_ELEM:
            o += ["sa %d 6b 39" % h, "sa %d 61 39" % h, "ra %d 61" % h, "ap %d %d" % (h, T1), "ap %d %d" % (h, E1),
                  "sn %d %d" % (h, A1), "rns 0 %d %s %s" % (h, NS1, QN1), "rnm 0 %d 7a" % h]
            if kid is not None: o += ["ib %d %d %d" % (h, T1, kid), "rm %d %d" % (h, kid), "rp %d %d %d" % (h, E1, kid)]
            if n.attrs: o += ["rn %d %s" % (h, n.attrs[0])]
        elif n.kind == K_EREF:
            o += ["ap %d %d" % (h, T1)]
            if kid is not None: o += ["rm %d %d" % (h, kid), "ib %d %d %d" % (h, E1, kid)]
        if n.parent is not None and n.kind != K_ATTR:
            o += ["ap %d %d" % (E1, h), "rm %d %d" % (n.parent, h)]
        return o
    hists = []
    single = []
    for h in doc0:
        for o in ops_for(h):
            single.append(o); hists.append(base + [o])
    elems = [h for h in doc0 if nodes[h].kind == K_ELEM]
    attrs = [h for h in doc0 if nodes[h].kind == K_ATTR]
    ren = ["rns 0 %d %s %s" % (h, NS1, QN1) for h in elems + attrs] + ["rnm 0 %d 7a" % h for h in elems + attrs]
    for a in ren:
        for b in ren:
            hists.append(base + [a, b])
    # a created / a cloned entity reference: the same edits addressed to the handles of the copy
    eref = [h for h in doc0 if nodes[h].kind == K_EREF]
    for mk in (["cr 0 65"], ["cl %d 1" % eref[0]] if eref else []):
        if not mk: continue
        for k in range(N + 3, N + 3 + 12):
            for o in ("sv %d 39", "ds %d 39", "da %d 39", "sp %d 0", "sa %d 6b 39", "ap %d " + str(T1)):
                hists.append(base + mk + [o % k])
    # seeded random sequences
    r = ctx.rng
    for _ in range(60 if not ctx.thorough() else 600):
        h = list(base)
        for _ in range(25):
            h.append(r.choice(single) if r.below(100) < 80 else r.choice(ren))
        hists.append(h)
    return hists

def parsed_prefix_tier(ctx):
    t0 = time.time()
    hists = parsed_prefix_histories(ctx)
    outs, ev = run_impl(hists, full=True, wd_ms=3000, budget=20)
    found = {}
    n_eval = 0
    for h, o in zip(hists, outs):
        n_eval += len(h)
        j = judge_history(h, o)
        if j:
            found.setdefault(j[1], []).append((h, j))
    for cat, lst in found.items():
        if any(v["key"] == key_of(cat) for v in ctx.violations):
            continue
        h, j = min(lst, key=lambda t: (t[1][0], len(t[0])))
        report(ctx, h, j, "parsed-prefix")
    ctx.stats["parsed_prefix_histories"] = len(hists)
    ctx.stats["parsed_prefix_findings"] = {k: len(v) for k, v in found.items()}
    ctx.stats["evaluations"] = ctx.stats.get("evaluations", 0) + n_eval
    ctx.stats["parsed_prefix_s"] = round(time.time() - t0, 1)
    common.log("c13 parsed-prefix tier %.1fs (%d histories, findings %s)" % (time.time() - t0, len(hists), ctx.stats["parsed_prefix_findings"]))

def correspondence(ctx):
    th = ctx.thorough()
    t0 = time.time()
    outcomes = {}
    all_ev = []
    # ---- exhaustive tier
    nex, nt, first = 0, 0, True
    for label, ex in exhaustive_batches(th):
        m = run_model(ex)
        i, ev = run_impl(ex, wd_ms=500, budget=40)
        nex += len(ex)
        if ctx.stats.get("judged_total", 0) < 360:
            compare_and_judge(ctx, ex, m, i, ev, "exhaustive " + label if th else "exhaustive")
        else:
            ctx.stats["unjudged_batches"] = ctx.stats.get("unjudged_batches", 0) + 1
            ctx.stats["evaluations"] = ctx.stats.get("evaluations", 0) + sum(len(h) for h in ex)
        nt += nontrivial_count(ex, m)
        for lines in i:
            for l in lines or []:
                if l:
                    k = " ".join(l.split()[:2]) if l.startswith("exc") else l.split()[0]
                    outcomes[k] = outcomes.get(k, 0) + 1
        if first:
            ctx.samples += [{"history": ex[k][len(PREFIX):], "model": m[k][-1], "impl": (i[k] or [None])[-1]}
                            for k in (0, len(ex) // 3, len(ex) - 1)]
            first = False
        all_ev += ev
    ctx.stats["exhaustive_histories"] = nex
    ctx.stats["exhaustive_op_instances"] = len(exhaustive_ops())
    ctx.stats["exhaustive_core_op_instances"] = len(exhaustive_core_ops()) if th else 0
    ctx.stats["exhaustive"] = True
    ctx.stats["exhaustive_s"] = round(time.time() - t0, 1)
    common.log("c13 exhaustive tier %.1fs (%d histories)" % (time.time() - t0, nex))
    # ---- random tier
    t1 = time.time()
    nh, ln = (1000, 1000) if th else (300, 200)
    gen = gen_random(ctx, nh, ln)
    hists = [g[0] for g in gen]
    model = [g[1] for g in gen]
    ctx.stats["random_histories"] = nh; ctx.stats["random_length"] = ln
    ctx.stats["generate_s"] = round(time.time() - t1, 1)
    impl, ev2 = run_impl(hists, wd_ms=2000, budget=60)
    compare_and_judge(ctx, hists, model, impl, ev2, "random")
    nt += nontrivial_count(hists, model)
    ctx.stats.pop("judged_total", None)
    kinds = {}
    for h in hists:
        for op in h:
            kinds[op.split()[0]] = kinds.get(op.split()[0], 0) + 1
    for lines in impl:
        for l in lines or []:
            if l:
                k = " ".join(l.split()[:2]) if l.startswith("exc") else l.split()[0]
                outcomes[k] = outcomes.get(k, 0) + 1
    ctx.stats["op_kinds"] = kinds
    ctx.stats["impl_outcomes"] = outcomes
    ctx.stats["distinct_nontrivial"] = nt
    ctx.stats["random_s"] = round(time.time() - t1, 1)
    ctx.samples += [{"history_tail": hists[k][-3:], "model": model[k][-1], "impl": (impl[k] or [None])[-1]} for k in (0, len(hists) - 1)]
    parsed_prefix_tier(ctx)
    for k, kind, s in all_ev + ev2:
        if kind == "sanitizer" and not any(v["key"].startswith("dom:") for v in ctx.violations):
            ctx.violations.append({"key": "dom:sanitizer", "concrete": True,
                                   "what": "sanitizer report in DOM harness: " + s, "replay": {"stderr": s}})
        if kind == "budget":
            ctx.notes.append(s)

_search_done = {}

def search(ctx, broken):
    """A theorem / translator tie broke: run the generator corpus on the implementation alone and let the DOM Core
    judge look for a concrete contradiction (no model involved)."""
    if "done" in _search_done:
        return None
    _search_done["done"] = True
    ex = gen_exhaustive(2)
    outs, _ = run_impl(ex, full=True, wd_ms=400, budget=60)
    best = None
    for h, o in zip(ex, outs):
        j = judge_history(h, o)
        if j and not any(v["key"] == key_of(j[1]) for v in ctx.violations):
            if best is None or len(h) < len(best[0]):
                best = (h, j)
    if best:
        before = len(ctx.violations)
        report(ctx, best[0], best[1], "search after broken %s %s" % (broken["kind"], broken["name"]), do_shrink=False)
        if len(ctx.violations) > before:
            return ctx.violations.pop()
    return None

def replay(ctx, path):
    r = json.load(open(path))["replay"]
    h = r.get("history")
    if not h:
        print(json.dumps(r)); return 0
    om = run_model([h], full=True)[0]
    oi, _ = run_impl([h], full=True, wd_ms=5000, budget=3)
    oi = oi[0]
    j = judge_history(h, oi)
    for k, op in enumerate(h):
        print("op   :", op)
        print("model:", om[k] if k < len(om) else None)
        print("impl :", oi[k] if oi and k < len(oi) else None)
    print("spec :", "no contradiction with DOM Core found in the implementation's dumps" if j is None else
          "operation %d %r: [%s] %s" % (j[0], h[j[0]], j[1], j[2]))
    return 0
