"""C19, URI part: XMLURL(base, rel) and XMLUri(base, rel) against RFC 2396 section 5.2.

  Spec    lean/XV/Spec/Uri.lean   `resolve` over parsed components  (driver op  S)
  Model   lean/XV/Model/Uri.lean  setURL / xmlUriResolve after the minimal fixes (L, I) and exactly as the
                                  code is (L0, I0)
  Impl    harness hx_ext:  `U L <hexbase> <hexrel>` (XMLURL), `U I <hexbase> <hexrel>` (XMLUri)

Strings are parsed HERE with the regular expression of RFC 2396 appendix B (`parse_ref`); the character
scanners of the library are not modelled.  What follows from that is dealt with in this file and nowhere else:

 XMLURL  * only file/http/ftp/https exist, "http:" needs "//", an empty reference is refused: such pairs are
           `refused` (expected MalformedURLException, not judged);
         * a reference with an authority and an empty path is outside the comparison: parse gives "//g" the
           path "/" and lets the host run up to the next "/" ("//g?y" has the host "g?y");
         * the observation is (protocol, full text behind "://"): XMLURL always writes "//" and cannot tell an
           empty authority from an undefined one (the model's `ofUri` does the same).
 XMLUri  * the observation is the full text (getUriText), which is step 7 of the RFC;
         * a fragment that is defined but empty ("g#") is stored as undefined: not compared.
 both    * paths with an empty segment that is not the last one ("//" inside a path) and backslashes are
           outside the modelled domain (see the header of Model/Uri.lean); the generator produces a few of the
           former on purpose and they are counted, not compared.

Judging.  Inside the domain of the theorems (`urlDomain` / `uriDomain`, reported by the driver with the Spec's
answer) the implementation must give the Spec's answer; if it does not, that is a concrete violation:
    xmlurl-trailing-dot-segment              weavePaths lacks RFC steps 6d/6f            (D3)
    xmlurl-fragment-only-drops-base-query    "#s" loses the base's query                 (D4)
    xmluri-netpath-without-path-loses-scheme "//g" stays "//g"                           (D5)
    xmluri-dotdot-at-root-throws             buffer "/.." in step 6f: ArrayIndexOutOfBoundsException   (D6)
    xmlurl-resolution / xmluri-resolution    anything else
The models must predict the implementation wherever they apply: the observation has to be that of the as-is
model (L0, I0) or — once a fix is in the tree — that of the fixed model (L, I); anything else is `corr:uri`
(not concrete).  On the unchanged tree every observation equals the as-is model's."""
import re

# ---------------------------------------------------------------------------------- parsing (RFC 2396 app. B)
RX = re.compile(r"^(([^:/?#]+):)?(//([^/?#]*))?([^?#]*)(\?([^#]*))?(#(.*))?$", re.S)

def parse_ref(s):
    """appendix B: scheme = $2, authority = $4, path = $5, query = $7, fragment = $9; undefined = None.
    The path is split into segments as in XV.Spec.Uri: "" -> (False, []), "/" -> (True, [""]),
    "/b/c/" -> (True, ["b","c",""]), "../g" -> (False, ["..","g"])."""
    m = RX.match(s)
    path = m.group(5)
    ab = path.startswith("/")
    segs = [] if path == "" else (path[1:] if ab else path).split("/")
    return {"scheme": m.group(2), "authority": m.group(4) if m.group(3) is not None else None,
            "abs": ab, "segs": segs,
            "query": m.group(7) if m.group(6) is not None else None,
            "fragment": m.group(9) if m.group(8) is not None else None}

def path_string(u):
    return ("/" if u["abs"] else "") + "/".join(u["segs"])

def recompose(u):
    """RFC 2396 5.2 step 7"""
    r = ""
    if u["scheme"] is not None: r += u["scheme"] + ":"
    if u["authority"] is not None: r += "//" + u["authority"]
    r += path_string(u)
    if u["query"] is not None: r += "?" + u["query"]
    if u["fragment"] is not None: r += "#" + u["fragment"]
    return r

def hexs(s):
    return ".".join("%x" % ord(c) for c in s) or "-"

# ---------------------------------------------------------------------------------- driver encoding
def enc_opt(x):
    return "~" if x is None else hexs(x)

def enc(u):
    segs = "~" if not u["segs"] else "/".join(hexs(x) for x in u["segs"])
    return ",".join([enc_opt(u["scheme"]), enc_opt(u["authority"]), "1" if u["abs"] else "0", segs,
                     enc_opt(u["query"]), enc_opt(u["fragment"])])

def dec_str(x):
    return "" if x == "-" else "".join(chr(int(h, 16)) for h in x.split("."))

def dec_opt(x):
    return None if x == "~" else dec_str(x)

def dec(t):
    f = t.split(",")
    return {"scheme": dec_opt(f[0]), "authority": dec_opt(f[1]), "abs": f[2] == "1",
            "segs": [] if f[3] == "~" else [dec_str(x) for x in f[3].split("/")],
            "query": dec_opt(f[4]), "fragment": dec_opt(f[5])}

def url_obs(u):
    """observation of an XMLURL-shaped result: (protocol, text behind "://")"""
    return "%s|%s" % ((u["scheme"] or "").lower(),
                      (u["authority"] or "") + recompose({**u, "scheme": None, "authority": None}))

# ---------------------------------------------------------------------------------- cases
APPENDIX_C = [
    # C.1 normal
    "g:h", "g", "./g", "g/", "/g", "//g", "?y", "g?y", "#s", "g#s", "g?y#s", ";x", "g;x", "g;x?y#s",
    ".", "./", "..", "../", "../g", "../..", "../../", "../../g",
    # C.2 abnormal
    "", "../../../g", "../../../../g", "/./g", "/../g", "g.", ".g", "g..", "..g", "./../g", "./g/.", "g/./h",
    "g/../h", "g;x=1/./y", "g;x=1/../y", "g?y/./x", "g?y/../x", "g#s/./x", "g#s/../x", "http:g"]
RFC_BASE = "http://a/b/c/d;p?q"
APPENDIX_C_EXPECTED = [
    "g:h", "http://a/b/c/g", "http://a/b/c/g", "http://a/b/c/g/", "http://a/g", "http://g", "http://a/b/c/?y",
    "http://a/b/c/g?y", "http://a/b/c/d;p?q#s", "http://a/b/c/g#s", "http://a/b/c/g?y#s", "http://a/b/c/;x",
    "http://a/b/c/g;x", "http://a/b/c/g;x?y#s", "http://a/b/c/", "http://a/b/c/", "http://a/b/", "http://a/b/",
    "http://a/b/g", "http://a/", "http://a/", "http://a/g",
    "http://a/b/c/d;p?q", "http://a/../g", "http://a/../../g", "http://a/./g", "http://a/../g", "http://a/b/c/g.",
    "http://a/b/c/.g", "http://a/b/c/g..", "http://a/b/c/..g", "http://a/b/g", "http://a/b/c/g/", "http://a/b/c/g/h",
    "http://a/b/c/h", "http://a/b/c/g;x=1/y", "http://a/b/c/y", "http://a/b/c/g?y/./x", "http://a/b/c/g?y/../x",
    "http://a/b/c/g#s/./x", "http://a/b/c/g#s/../x", "http:g"]
BASES = [RFC_BASE, "file:///tmp/x/y/main.xml", "http://h/", "ftp://u@h:21/p/q/"]

SEGS = ["a", "b", "c", "..", "..", ".", ".", "g;x", "d;p=1", "...", "..g", "g..", ".g", "x.y"]
AUTHS = ["a", "h", "h:8080", "u@h", "u:pw@h:21", "www.example.org"]

def gen_path(rng, maxn, inner_empty):
    n = rng.below(maxn + 1)
    segs = [rng.choice(SEGS) for _ in range(n)]
    if inner_empty and n >= 2 and rng.chance(1, 12):
        segs[rng.below(n - 1)] = ""                     # "//" inside: counted, not compared
    return segs

def gen_base(rng):
    sch = rng.choice(["http", "http", "https", "ftp", "file", "file"])
    if sch == "file":
        au = rng.choice(["", "", "", "h", None])        # file:///x, file://h/x, file:/x
    else:
        au = rng.choice(AUTHS) if not rng.chance(1, 25) else ""     # "ftp:///a/b": base without host
    segs = gen_path(rng, 4, True)
    if not segs or rng.chance(1, 4):
        segs = segs + [""]                              # trailing slash (or just "/")
    u = {"scheme": sch, "authority": au, "abs": True, "segs": segs,
         "query": "q" if rng.chance(1, 3) else None, "fragment": "f" if rng.chance(1, 10) else None}
    return recompose(u)

def gen_rel(rng):
    k = rng.below(40)
    u = {"scheme": None, "authority": None, "abs": False, "segs": [], "query": None, "fragment": None}
    if k == 0:
        u["scheme"] = rng.choice(["http", "file", "ftp", "https", "g", "urn"])
    if k in (1, 2) or (k == 0 and u["scheme"] in ("http", "https", "ftp")):
        u["authority"] = rng.choice(AUTHS + [""])
    if k == 3:
        pass                                            # empty path: "?y", "#s", "?y#s", ""
    else:
        u["segs"] = gen_path(rng, 5, True) or [rng.choice(SEGS)]
        if u["segs"] and rng.chance(1, 4):
            u["segs"] = u["segs"] + [""]
        if u["authority"] is not None or rng.chance(1, 8):
            u["abs"] = bool(u["segs"])
    if not u["abs"] and u["segs"] and (u["segs"][0] == "" or (":" in u["segs"][0])):
        u["segs"][0] = "a"                              # would not parse back as a relative path
    if rng.chance(1, 4): u["query"] = rng.choice(["y", "y=1", "", "y/../x"])
    if rng.chance(1, 4): u["fragment"] = rng.choice(["s", "s", "frag", "s/./x", "s/../x", ""])
    return recompose(u)

def gen_cases(rng, thorough):
    """[(base, rel, origin)]; origin 'rfc' = appendix C, 'rnd' = random"""
    cases = [(b, r, "rfc") for b in BASES for r in APPENDIX_C]
    for _ in range(20000 if thorough else 2500):
        cases.append((gen_base(rng), gen_rel(rng), "rnd"))
    return cases

# ---------------------------------------------------------------------------------- domains outside Lean
def inner_empty(segs):
    return any(x == "" for x in segs[:-1])

XMLURL_PROTOS = ("file", "http", "ftp", "https")

def xmlurl_refuses(b, r, rel):
    """expected MalformedURLException of XMLURL::parse (character level, not modelled)"""
    if rel.strip(" \t\r\n") == "": return "empty reference"
    for u in (b, r):
        if u["scheme"] is not None and u["scheme"].lower() not in XMLURL_PROTOS: return "unsupported protocol"
        if u["scheme"] is not None and u["scheme"].lower() == "http" and u["authority"] is None:
            return "http: without //"
    return None

def modelled_paths(b, r, base, rel):
    return not (inner_empty(b["segs"]) or inner_empty(r["segs"]) or "\\" in base or "\\" in rel)

def xmlurl_comparable(b, r):
    """the parse of XMLURL agrees with appendix B on these"""
    if r["authority"] is not None and not r["segs"]: return False      # "//g" gets "/", "//g?y" host "g?y"
    if b["authority"] is not None and not b["segs"]: return False
    return b["abs"] and bool(b["segs"])

# ---------------------------------------------------------------------------------- observations
def impl_url_obs(line):
    """`proto|user|pass|host|port|path|query|frag|fullText` -> (protocol, text behind "://") or exc"""
    if line.startswith("exc ") or line.startswith("CRASH") or line == "NO-OUTPUT":
        return line
    f = line.split("|")
    full = "|".join(f[8:])
    proto = f[0]
    pre = proto + "://"
    return "%s|%s" % (proto, full[len(pre):] if full.startswith(pre) else "?" + full)

def impl_uri_obs(line):
    if line.startswith("exc ") or line.startswith("CRASH") or line == "NO-OUTPUT":
        return line
    return "|".join(line.split("|")[8:])

def observe(common, pairs, env=None):
    """-> list of dicts with the parsed inputs, Spec, models and implementation for every (base, rel)"""
    mlines, hlines = [], []
    for base, rel in pairs:
        b, r = parse_ref(base), parse_ref(rel)
        for op in ("S", "L", "L0", "I", "I0"):
            mlines.append("%s %s %s" % (op, enc(b), enc(r)))
        hlines.append("U L %s %s" % (hexs(base), hexs(rel)))
        hlines.append("U I %s %s" % (hexs(base), hexs(rel)))
    mout = common.run_driver(["uri"], input=("\n".join(mlines) + "\n").encode()).decode().split("\n")
    if len(mout) < len(mlines):
        raise common.InfraError("xvdriver uri: %d answers for %d lines" % (len(mout), len(mlines)))
    kw = {"env": env} if env else {}
    hout, crashes = common.run_lines_resilient("hx_ext", hlines, timeout=1200, **kw)
    res = []
    for i, (base, rel) in enumerate(pairs):
        b, r = parse_ref(base), parse_ref(rel)
        s, l, l0, u, u0 = mout[5 * i:5 * i + 5]
        if "bad-op" in (s, l, l0, u, u0):
            raise common.InfraError("xvdriver uri: bad-op for %r %r" % (base, rel))
        st, flags = s.split(" ")
        spec = dec(st)
        res.append({
            "base": base, "rel": rel, "b": b, "r": r,
            "in_url": flags[0] == "1", "in_uri": flags[1] == "1",
            "spec": recompose(spec), "spec_url": url_obs(spec),
            "L": "none" if l == "none" else url_obs(dec(l)), "L0": "none" if l0 == "none" else url_obs(dec(l0)),
            "I": "none" if u == "none" else recompose(dec(u)), "I0": "none" if u0 == "none" else recompose(dec(u0)),
            "impl_url": impl_url_obs(hout[2 * i]), "impl_uri": impl_uri_obs(hout[2 * i + 1])})
    return res, crashes

# ---------------------------------------------------------------------------------- the check
def classify_url(o):
    r = o["r"]
    if o["impl_url"] == o["L0"] and o["L"] == o["spec_url"]:
        if r["scheme"] is None and r["authority"] is None and not r["segs"] and r["fragment"] is not None:
            return "xmlurl-fragment-only-drops-base-query"
        return "xmlurl-trailing-dot-segment"
    return "xmlurl-resolution"

def classify_uri(o):
    r = o["r"]
    if o["I"] == o["spec"]:
        if o["impl_uri"] == o["I0"] and r["authority"] is not None and not r["segs"] \
                and r["query"] is None and r["fragment"] is None:
            return "xmluri-netpath-without-path-loses-scheme"
        if o["impl_uri"] == "exc ArrayIndexOutofBoundsException" and o["I0"] == "none":
            return "xmluri-dotdot-at-root-throws"
    return "xmluri-resolution"

MAX_PER_KEY = 3

def run_uri(ctx, common, env=None):
    cases = gen_cases(ctx.rng, ctx.thorough())
    obs, crashes = observe(common, [(b, r) for b, r, _ in cases], env=env)
    hist, judged, compared = {}, 0, 0
    per_key = {}
    def add(key, concrete, what, o, api):
        per_key[key] = per_key.get(key, 0) + 1
        if per_key[key] <= MAX_PER_KEY:
            ctx.violations.append({"key": key, "concrete": concrete, "what": what,
                                   "replay": {"area": "uri", "api": api, "base": o["base"], "rel": o["rel"]}})
    def bump(k):
        hist[k] = hist.get(k, 0) + 1
    for (_, _, origin), o in zip(cases, obs):
        b, r = o["b"], o["r"]
        for api in ("url", "uri"):
            impl = o["impl_" + api]
            if impl.startswith("CRASH") or impl == "NO-OUTPUT" or impl == "exc FOREIGN-EXCEPTION":
                add("xml%s-crash" % api, True, "%s(%r, %r): %s" % ("XMLURL" if api == "url" else "XMLUri",
                    o["base"], o["rel"], impl), o, api)
        if not modelled_paths(b, r, o["base"], o["rel"]):
            bump("not-modelled:inner-empty-segment")
            continue
        if not (b["abs"] and b["segs"]):
            bump("not-modelled:base-path-not-absolute")   # "file://..": XMLUri("http://h", "g") is "http://hg"
            continue
        # ---- XMLURL
        why = xmlurl_refuses(b, r, o["rel"])
        if why is not None:
            bump("url:refused:" + why)
            if not o["impl_url"].startswith("exc MalformedURLException"):
                add("corr:uri", False, "XMLURL(%r, %r) expected to be refused (%s), got %s"
                    % (o["base"], o["rel"], why, o["impl_url"]), o, "url")
        elif not xmlurl_comparable(b, r):
            bump("url:not-compared:authority-without-path")
        else:
            compared += 1
            want0 = "exc MalformedURLException" if o["L0"] == "none" else o["L0"]
            want1 = "exc MalformedURLException" if o["L"] == "none" else o["L"]
            if o["impl_url"] not in (want0, want1):
                add("corr:uri", False, "XMLURL(%r, %r): implementation %s, as-is model (L0) %s, fixed model (L) %s"
                    % (o["base"], o["rel"], o["impl_url"], want0, want1), o, "url")
            if o["in_url"]:
                judged += 1
                if o["impl_url"] != o["spec_url"]:
                    key = classify_url(o)
                    bump("url:VIOLATION:" + key)
                    add(key, True, "XMLURL(%r, %r) = %s, RFC 2396 5.2: %s (%s)"
                        % (o["base"], o["rel"], o["impl_url"], o["spec_url"], o["spec"]), o, "url")
                else:
                    bump("url:rfc" if origin == "rfc" else "url:ok")
                if o["L"] != o["spec_url"]:       # contradicts theorem resolve_rfc2396: the driver is not the model
                    add("corr:uri", False, "fixed XMLURL model %s differs from the Spec %s inside urlDomain for (%r, %r)"
                        % (o["L"], o["spec_url"], o["base"], o["rel"]), o, "url")
            else:
                bump("url:outside-domain")
        # ---- XMLUri
        impl = o["impl_uri"]
        if r["fragment"] == "" or b["fragment"] == "":
            bump("uri:not-compared:empty-fragment")      # XMLUri stores a defined-but-empty fragment as undefined
            continue
        if impl.startswith("exc MalformedURLException"):
            bump("uri:refused")                   # character-level validation of XMLUri (not modelled)
            if o["in_uri"] and r["scheme"] is None and origin == "rfc":
                add("xmluri-resolution", True, "XMLUri(%r, %r) refused: %s" % (o["base"], o["rel"], impl), o, "uri")
            continue
        compared += 1
        want0 = "exc ArrayIndexOutofBoundsException" if o["I0"] == "none" else o["I0"]
        if impl not in (want0, o["I"]):
            add("corr:uri", False, "XMLUri(%r, %r): implementation %s, as-is model (I0) %s, fixed model (I) %s"
                % (o["base"], o["rel"], impl, want0, o["I"]), o, "uri")
        if o["in_uri"]:
            judged += 1
            if impl != o["spec"]:
                key = classify_uri(o)
                bump("uri:VIOLATION:" + key)
                add(key, True, "XMLUri(%r, %r) = %s, RFC 2396 5.2: %s" % (o["base"], o["rel"], impl, o["spec"]), o, "uri")
            else:
                bump("uri:rfc" if origin == "rfc" else "uri:ok")
            if o["I"] != o["spec"]:
                add("corr:uri", False, "fixed XMLUri model %s differs from the Spec %s inside uriDomain for (%r, %r)"
                    % (o["I"], o["spec"], o["base"], o["rel"]), o, "uri")
        else:
            bump("uri:outside-domain")
    # the Spec itself against the table of appendix C (independent of the library)
    for o, want in zip(obs[:len(APPENDIX_C)], APPENDIX_C_EXPECTED):
        if o["spec"] != want:
            add("corr:uri", False, "Spec resolve(%r, %r) = %s, RFC 2396 appendix C says %s"
                % (o["base"], o["rel"], o["spec"], want), o, "spec")
    ctx.stats["uri_cases"] = len(cases)
    ctx.stats["uri_judged"] = judged
    ctx.stats["uri_compared"] = compared
    ctx.stats["uri_hist"] = dict(sorted(hist.items()))
    ctx.stats["uri_violation_counts"] = dict(sorted(per_key.items()))
    for o in obs[:3] + obs[len(BASES) * len(APPENDIX_C):len(BASES) * len(APPENDIX_C) + 3]:
        ctx.samples.append({"area": "uri", "base": o["base"], "rel": o["rel"], "spec": o["spec"],
                            "XMLURL": o["impl_url"], "XMLUri": o["impl_uri"]})
    return 2 * len(cases)

def replay_uri(ctx, common, rep, env=None):
    """re-run one stored case on Spec + models + implementation"""
    obs, _ = observe(common, [(rep["base"], rep["rel"])], env=env)
    o = obs[0]
    print("base=%r rel=%r" % (o["base"], o["rel"]))
    print("  Spec (RFC 2396 5.2)  : %s   [urlDomain=%d uriDomain=%d]" % (o["spec"], o["in_url"], o["in_uri"]))
    print("  XMLURL model fixed/as-is : %s / %s" % (o["L"], o["L0"]))
    print("  XMLURL implementation    : %s" % o["impl_url"])
    print("  XMLUri model fixed/as-is : %s / %s" % (o["I"], o["I0"]))
    print("  XMLUri implementation    : %s" % o["impl_uri"])
    return o
